"""C07 — the query-result cache never serves stale or foreign results (DESIGN.md §3 C07),
plus the query-cache size bound used by C20 (qcache_len_bound)."""
import json
import os
import vlib

THEOREMS = {"Properties.C07": [
    "C07_prefilter_sound", "C07_cauchy_schwarz", "C07_entry_valid", "C07_hit_valid", "C07_scope",
    "C07_k_prefix_served", "C07_k_monotone", "C07_dist_lt_mono", "C07_k_monotone_ip", "C07_k_monotone_nonvacuous", "C07_no_store_after_invalidate", "C07_hit_same_or_similar",
    "C07_old_quantisation_saturates", "qcache_len_bound", "qcache_cap0_unbounded",
    "C07_oracle_premises_satisfiable", "C07_entry_valid_ip", "C07_engine_nonvacuous",
    "C07_interleaving_nonvacuous", "C07_prefilter_nonvacuous"],
    "Properties.C07race": ["C07_stored_hot_distance_fresh", "C07_hot_race_step", "C07_old_validation_refuted", "C07_hot_race_nonvacuous"]}

PINS = {"Properties.C07race": {
    "_preamble": "From Coq Require Import List NArith Bool. From Kyro Require Import Model.HotKnn Proofs.HotKnnProofs. Import ListNotations. Open Scope N_scope.",
    "C07_stored_hot_distance_fresh": "forall (c : N) (m : option N) (es : list ev), fresh (run validate_new (init c m) es) = true",
    "C07_hot_race_step": "forall s e, Inv s -> Inv (step validate_new s e)",
}, "Properties.C07": {
    "_preamble": "From Coq Require Import QArith List NArith ZArith Bool Arith Sorting.Sorted. From Kyro Require Import Model.QCache Proofs.QCacheProofs Proofs.QCacheInv Proofs.QCacheEngine Proofs.QCacheKnn. Import ListNotations. Open Scope Q_scope.",
    "C07_prefilter_sound": "forall (m : metric) (p : nat) (q x : vec) (w : Q), length q = length x -> can_affect m p q x w = false -> dist_le m q x w = false",
    "C07_entry_valid": "forall (m : metric) (isd : vec -> vec -> Q -> Prop) (fresh_search : collection -> vec -> nat -> list result) (cfg : config), (forall c q k id d, In (id, d) (fresh_search c q k) -> exists v, c_get c id = Some v /\\ isd q v d) -> (forall c q k, (length (fresh_search c q k) <= k)%nat) -> (forall c q k, StronglySorted rle (fresh_search c q k)) -> (forall c q k id v, (1 <= k)%nat -> c_get c id = Some v -> ~ In id (map fst (fresh_search c q k)) -> length (fresh_search c q k) = k /\\ exists w, worst (fresh_search c q k) = Some w /\\ dist_lt m q v w = false) -> forall (ops : list eop) (e : entry), let st := erun (pre_m m) (dist_le m) fresh_search cfg einit ops in In e (s_entries (e_cache st)) -> Valid (dist_lt m) isd (e_coll st) e",
    "C07_scope": "forall (cfg : config) (ops : list op) (scope : N) (q : vec) (k : nat) (r : list result), let s := run_state cfg empty ops in snd (get_scoped cfg s scope q k) = Some r -> exists e, In e (s_entries s) /\\ e_scope e = scope /\\ (k <= e_kreq e)%nat /\\ r = firstn k (e_results e)",
    "C07_no_store_after_invalidate": "forall (pre dle : vec -> vec -> Q -> bool) (fresh_search : collection -> vec -> nat -> list result) (cfg : config) (evs : list iev) (s : istate), irun pre dle fresh_search cfg iinit evs = Some s -> forall out, In (true, out) (i_log s) -> out = SkippedGeneration",
    "C07_k_monotone": "forall (m : metric) (isd : vec -> vec -> Q -> Prop) (fresh_search : collection -> vec -> nat -> list result) (cfg : config), (forall c q k id d, In (id, d) (fresh_search c q k) -> exists v, c_get c id = Some v /\\ isd q v d) -> (forall c q k, (length (fresh_search c q k) <= k)%nat) -> (forall c q k, StronglySorted rle (fresh_search c q k)) -> (forall c q k id v, (1 <= k)%nat -> c_get c id = Some v -> ~ In id (map fst (fresh_search c q k)) -> length (fresh_search c q k) = k /\\ exists w, worst (fresh_search c q k) = Some w /\\ dist_lt m q v w = false) -> (forall q v d w, isd q v d -> w <= d -> dist_lt m q v w = false) -> forall (ops : list eop) (scope : N) (q : vec) (k : nat) (r : list result) (st' : estate), let st := erun (pre_m m) (dist_le m) fresh_search cfg einit ops in (1 <= k)%nat -> estep (pre_m m) (dist_le m) fresh_search cfg st (ESearch scope q k) = (st', RHit r) -> exists e, In e (s_entries (e_cache st)) /\\ e_scope e = scope /\\ (k <= e_kreq e)%nat /\\ r = firstn k (e_results e) /\\ Valid (dist_lt m) isd (e_coll st) e /\\ Valid (dist_lt m) isd (e_coll st) (prefix_entry e k) /\\ e_results (prefix_entry e k) = r",
    "C07_entry_valid_ip": "forall (cfg : config) (ops : list eop) (e : entry), let st := erun (pre_m InnerProduct) (dist_le InnerProduct) ip_knn cfg einit ops in In e (s_entries (e_cache st)) -> Valid (dist_lt InnerProduct) ip_isd (e_coll st) e",
    "qcache_len_bound": "forall (cfg : config) (ops : list op), (1 <= c_cap cfg)%nat -> (length (s_entries (run_state cfg empty ops)) <= c_cap cfg)%nat",
}}

KNOWN_SAT = "C07-quantised-key-saturation"


# Source-order anchors of Model/HotKnn.v: (function, fragments that must appear in this order inside it)
HOT_ANCHORS = [
    ("engine/src/hot_tier.rs", "pub fn knn_search_with_coherence",
     ["let docs = self.documents.read();", "docs.get(&item.doc_id)", "doc.coherence"]),
    ("engine/src/tiered_engine.rs", "fn filter_hot_knn_results_to_canonical",
     ["searched_coherence", "self.hot_tier.peek_with_coherence(doc_id)", "if hot_coherence != searched_coherence {", "return None;",
      "self.canonical_vector_state("]),
    ("engine/src/tiered_engine.rs", "pub fn insert(",
     ["self.cold_tier", ".insert(doc_id, embedding.clone(), metadata.clone())?;", "self.query_cache.invalidate_doc(doc_id)",
      ".invalidate_for_insert(&embedding, self.config.hnsw_distance)", ".insert_with_coherence(doc_id, embedding, metadata, coherence)"]),
]


def hot_anchor_misses():
    """The model's step order (distance and token under one lock; token comparison before the canonical
    check; cold write, invalidation, mirror refresh) read off the source text."""
    misses = []
    for rel, fn, frags in HOT_ANCHORS:
        try:
            src = open(os.path.join("/repo", rel)).read()
        except OSError:
            misses.append({"file": rel, "fn": fn, "missing": "file"})
            continue
        i = src.find(fn)
        if i < 0:
            misses.append({"file": rel, "fn": fn, "missing": "function"})
            continue
        j = src.find("\n    }\n", i)
        body = src[i:j if j > 0 else len(src)]
        pos = 0
        for f in frags:
            k = body.find(f, pos)
            if k < 0:
                misses.append({"file": rel, "fn": fn, "missing": f})
                break
            pos = k + len(f)
    return misses


def _eval_shards(ctx, out, summ):
    shards = [open(os.path.join(out, "cases_%d.v" % i)).read() for i in range(summ["shards"])]
    res = vlib.coq_eval("C07", shards, timeout=1200)
    kinds = summ["shard_kinds"]
    r = {"A_bad": [], "A_n": 0, "H_bad": [], "H_n": 0, "P_bad": None, "coq_err": [],
         "B": {"grid": {"n": 0, "differ": []}, "near": {"n": 0, "differ": [], "unsound": [], "unsound_tol": [], "model_false": 0}}}
    for i, (rc, o) in enumerate(res):
        tags = vlib.parse_tagged(o)
        if rc != 0 or "count" not in tags:
            r["coq_err"].append({"shard": i, "kind": kinds[i], "rc": rc, "out": o[-1500:]})
            continue
        cnt = vlib.parse_numbers(tags["count"].split(":")[0])[0]
        if kinds[i] in ("A", "H", "P"):
            bad = vlib.parse_numbers(tags.get("bad", "").split(":")[0])
            if kinds[i] == "A":
                r["A_bad"] += bad
                r["A_n"] += cnt
            elif kinds[i] == "H":
                r["H_bad"] += bad
                r["H_n"] += cnt
            else:
                r["P_bad"] = bad
        else:
            kind = tags.get("kind", "near").strip().split()[0]
            b = r["B"][kind]
            b["n"] += cnt
            b["differ"] += vlib.parse_numbers(tags["differ"].split(":")[0])
            if kind == "near":
                b["unsound"] += vlib.parse_numbers(tags["unsound"].split(":")[0])
                b["unsound_tol"] += vlib.parse_numbers(tags["unsoundtol"].split(":")[0])
                b["model_false"] += vlib.parse_numbers(tags["modelfalse"].split(":")[0])[0]
    return r


def run(ctx):
    n = 500 if ctx.tier == "quick" else 5000
    ctx.trusted += [
        "named assumption (Model/QCache.v): the 64-bit SipHash of hash_embedding is injective on (len, list of hashed u32 patterns) — no 64-bit collision; the model key is the list of the VALUES whose bit patterns are hashed (round(32768 v) when finite in f32, else v); NaN/infinite query components are not modelled",
        "float gap: the model and the theorems are over exact rationals with every sqrt comparison squared (SQ comments in Model/QCache.v); the code computes norms, sqrt, the division and the running sums in f32. Correspondence inputs are on dyadic grids where all sums are exact and pools whose decisions would hinge on a sqrt/division rounding are regenerated (counted); the prefilter's rounding gap at the bound is MEASURED by the near-boundary stream against exact rationals (tolerance 1e-6*max(1,|w|)), not proved",
        "the ORDER of TieredEngine::insert/delete (cold write, then bump+remove) that C07_no_store_after_invalidate assumes is tied to the code by the deterministic order probe and by the concurrent stream R (schedule dependent, so a clean run is evidence, not proof)",
        "hooks H5 (cfg kyrodb_verif): verif_hash_embedding, verif_insert_can_affect_cached_boundary (recomputes the embedding stats exactly as invalidate_for_insert does)",
        "oracle premises of C07_entry_valid/C07_hit_valid (O_live, O_len, O_sorted, O_omit, plus for C07_k_monotone the link 'a document reported at distance d is not strictly inside any boundary w <= d'; all shown satisfiable by an executable exact k-NN in C07_oracle_premises_satisfiable): the uncached hot+cold search is an exact k-NN reporting the current distance of live documents (HNSW recall is C06/C16 territory; tiny collections in the engine stream make it exhaustive); QueryHashCache::distance and the index report the same distance for the same pair",
        "engine model: vectors already normalised (cosine/inner product normalisation is idempotent — C02's hypothesis); statistics, cached_at and non-finite floats are not modelled; each cache method is one atomic step (state RwLock) and an invalidation is 'bump generation, then remove under the lock'",
        "engine-level stream E uses the Euclidean metric and similarity threshold 1.0 so that a hit is always the entry of the identical query (a similarity hit serves another query's list by design, see C07_hit_same_or_similar); components range up to 7 (outside the unit box)",
    ]
    ctx.trusted += [
        "Model/HotKnn.v (one hot-tier candidate of a search racing with overwrites; versions stand for vector+token) is hand-written; it is tied to the code by source-order anchors (distance and token read under one lock in HotTier::knn_search_with_coherence; token comparison before the canonical check in filter_hot_knn_results_to_canonical; cold write, then invalidation, then mirror refresh in TieredEngine::insert) and by the concurrent stream R on the real engine (schedule dependent)",
    ]
    proofs_ok = ctx.proof_phase(["Properties/C07.vo", "Properties/C07race.vo"], THEOREMS, pins=PINS)
    anchor_misses = hot_anchor_misses()
    ctx.cov["hot_knn_source_anchors_missing"] = anchor_misses

    ok, log = vlib.cargo_build(["c07"])
    ctx.log("cargo.log", log)
    if not ok:
        ctx.say("harness build failed")
        ctx.violation({"property": "C07", "kind": "harness-build-failed", "log_tail": log[-3000:],
                       "unchecked": "correspondence Model/QCache.v vs engine/src/query_hash_cache.rs"}, no_input=True)
        return
    out = os.path.join(vlib.CACHE, "run", "C07")
    os.makedirs(out, exist_ok=True)
    for f in os.listdir(out):
        os.remove(os.path.join(out, f))
    args = [vlib.bin_path("c07"), "--out", out, "--n", str(n)]
    if ctx.replay:
        args += ["--replay", ctx.replay]
    rc, o = vlib.sh(args, env={"VERIF_SEED": str(ctx.seed)}, timeout=2400)
    ctx.log("harness.log", o)
    if rc != 0:
        ctx.violation({"property": "C07", "kind": "harness-crashed", "rc": rc, "log_tail": o[-3000:]}, no_input=True)
        return
    summ = json.load(open(os.path.join(out, "summary.json")))
    allc = json.load(open(os.path.join(out, "all_cases.json")))
    r = _eval_shards(ctx, out, summ)
    A, B, E, H, P, R = (summ.get(k, {}) for k in ("A", "B", "E", "H", "probe", "R"))
    near = r["B"]["near"]
    ctx.cov.update({
        "evaluations": A.get("cases", 0) + r["B"]["grid"]["n"] + near["n"] + E.get("histories", 0) + r["H_n"] + R.get("rounds", 0),
        "race_rounds": R.get("rounds", 0),
        "race_stale_rounds": R.get("stale_rounds", 0),
        "race_concurrent_searches_per_round_mean": R.get("concurrent_searches_per_round_mean"),
        "race_concurrent_searches_per_round_min": R.get("concurrent_searches_per_round_min"),
        "race_rounds_with_final_cache_hit": R.get("rounds_with_final_cache_hit"),
        "race_variants": R.get("variants"),
        "order_probe": R.get("order_probe"),
        "distinct_nontrivial": A.get("nontrivial", 0) + E.get("histories_with_hit_after_write", 0),
        "rule": "A: seeded op sequences on the public QueryHashCache (get_scoped, insert_with_k_scoped, insert_with_k_scoped_if_generation with current/stale generation, invalidate_doc, invalidate_for_insert x 3 metrics, clear, len, invalidation_generation) over dyadic-grid vectors (k/16 and 8k/16, i.e. inside and well outside the unit box, dims 1-8 and 33-40 to cross the 32-dim prefix, plus same-cell off-grid queries, large-component queries built from {5,3,2,7,-4,1e6,-1e6,100.5,32767,40000} incl. the old witness pair [5,3]/[2,7], and vectors of another dimension), 1-3 scopes, capacities {1,2,4,12}, thresholds {1.0,0.9,0.5,0.0}, scan limit {2000,10}; every observation compared exactly with Model/QCache.v inside coqc. B: prefilter differential through the hook (grid rows must agree exactly; near-boundary rows measured). H: hash-key equality vs the quantised key. E: engine histories with SearchExecutionPath::CacheHit checked against a fresh uncached search. R: per round a persistent TieredEngine (FsyncPolicy::Always), one thread looping cache-enabled knn_search on a fixed query while the main thread performs one acknowledged write (insert exact/closer, overwrite closer/away, delete of the nearest); after join two cache-enabled searches must equal a fresh uncached one (stale round = class C07-store-after-invalidate); plus the deterministic order probe (a cold-tier-refused insert and a delete of an absent id leave the invalidation generation and the cache untouched, an accepted insert bumps it by exactly 2). A case is non-trivial when it is distinct and contains a cache hit after an intervening invalidation/write",
        "samples": (A.get("samples") or [])[:1] + ([E.get("sample")] if E.get("sample") else []),
        "histogram": {"cache_ops": A.get("histogram"), "prefilter": B.get("histogram"),
                      "engine": {k: E.get(k) for k in ("histories", "searches", "cache_hits", "cache_hits_after_intervening_write", "reference_live_set_mismatch", "injected_cold_record_losses", "drift_repairs_from_mirror")},
                      "hash_pairs": H},
        "op_sequences_validated_against_impl": r["A_n"],
        "model_disagreements": len(r["A_bad"]),
        "fragile_pools_regenerated": A.get("fragile_pools_regenerated"),
        "prefilter_grid_rows": r["B"]["grid"]["n"],
        "prefilter_grid_disagreements": len(r["B"]["grid"]["differ"]),
        "prefilter_grid_ties_moved_to_near": B.get("grid_ties_moved_to_near"),
        "prefilter_near_rows": near["n"],
        "prefilter_near_f32_vs_exact_differ": len(near["differ"]),
        "prefilter_near_exact_says_cannot_affect": near["model_false"],
        "prefilter_near_unsound_within_tolerance": len(near["unsound"]) - len(near["unsound_tol"]),
        "prefilter_near_unsound_beyond_tolerance": len(near["unsound_tol"]),
        "hash_pairs_validated": r["H_n"],
        "hash_pair_disagreements": len(r["H_bad"]),
        "oracle_failures": len(A.get("oracle_failures", [])) + len(E.get("oracle_failures", [])),
    })

    # --- directed regression probe for the repaired defect (class C07-quantised-key-saturation):
    #     expected outcome is a MISS; a hit is a violation (no known-findings lookup any more)
    probe_fail = None
    if P:
        el = P.get("engine_level") or {}
        if P.get("hit"):
            probe_fail = {"property": "C07", "kind": "oracle", "stream": "A", "class": KNOWN_SAT,
                          "why": "get_scoped(0,[2,7],1) after insert_with_k_scoped(0,[5,3],..) is served the other query's list (cosine 0.73, threshold 1.0): the quantised cache key collides outside the unit box again",
                          "case": P.get("case"), "replay_cmd": "./check C07 --replay <this file>"}
        elif el.get("oracle"):
            probe_fail = {"property": "C07", "kind": "oracle", "stream": "E", "class": KNOWN_SAT,
                          "why": str(el.get("oracle")), "case": el.get("history"), "trace": el.get("trace"),
                          "replay_cmd": "./check C07 --replay <this file>"}
        ctx.cov["regression_probe_saturation"] = "miss (expected)" if not probe_fail else "HIT"

    # --- decide: genuine failing inputs first
    fails = [probe_fail] if probe_fail else []
    if R.get("stale_rounds", 0) > 0:
        first = R["stale"][0]
        fails.append({"property": "C07", "kind": "oracle", "stream": "R", "class": "C07-store-after-invalidate",
                      "why": first["why"], "first_stale_round": first, "stale_rounds": R["stale_rounds"], "rounds": R["rounds"],
                      "case": {"stream": "R", "rounds": R["rounds"], "seed": R["seed"]},
                      "note": "schedule dependent: --replay re-runs the whole stream (4x the rounds) with this seed; a result computed before the write was stored after the write's invalidation and is served after the write was acknowledged",
                      "replay_cmd": "./check C07 --replay <this file>"})
    for f in A.get("oracle_failures", []):
        fails.append({"property": "C07", "kind": "oracle", "stream": "A", "why": f["why"], "case": f["case"],
                      "replay_cmd": "./check C07 --replay <this file>"})
    for f in E.get("oracle_failures", []):
        fails.append({"property": "C07", "kind": "oracle", "stream": "E", "why": f["why"], "case": f["case"], "trace": f.get("trace"),
                      "replay_cmd": "./check C07 --replay <this file>"})
    for i in near["unsound_tol"][:1]:
        row = allc["B"][i] if i < len(allc.get("B", [])) else {"id": i}
        fails.append({"property": "C07", "kind": "oracle", "stream": "B",
                      "why": "insert_can_affect_cached_boundary says the insert cannot affect the entry, but the exact distance is <= worst - 1e-6*max(1,|worst|): the entry would be retained although the new document lies strictly inside its boundary",
                      "case": row, "replay_cmd": "./check C07 --replay <this file>"})
    if fails:
        ctx.violation(fails[0])
        return
    broken = []
    if not proofs_ok:
        broken.append({"kind": "proof-obligations", "failed": ctx.failed_obligations})
    if r["coq_err"]:
        broken.append({"kind": "cases-evaluation-error", "detail": r["coq_err"][:2]})
    if r["A_bad"]:
        i = r["A_bad"][0]
        broken.append({"kind": "correspondence", "stream": "A", "disagreeing_case_ids": r["A_bad"][:20],
                       "first_case": allc["A"][i] if i < len(allc.get("A", [])) else None})
    if r["B"]["grid"]["differ"]:
        i = r["B"]["grid"]["differ"][0]
        broken.append({"kind": "correspondence", "stream": "B-grid", "disagreeing_row_ids": r["B"]["grid"]["differ"][:20],
                       "first_row": allc["B"][i] if i < len(allc.get("B", [])) else None})
    if r["H_bad"]:
        broken.append({"kind": "correspondence", "stream": "H", "disagreeing_pair_ids": r["H_bad"][:20]})
    if r["P_bad"]:
        broken.append({"kind": "correspondence", "stream": "probe"})
    if anchor_misses:
        broken.append({"kind": "source-order-anchors", "misses": anchor_misses,
                       "what": "the step order Model/HotKnn.v encodes (C07_stored_hot_distance_fresh) is no longer the one in the source"})
    if R and not (R.get("order_probe") or {}).get("ok", True):
        broken.append({"kind": "order-tie", "detail": R.get("order_probe"),
                       "what": "TieredEngine::insert/delete no longer invalidate the query cache strictly AFTER the cold-tier write (model EInsert: collection, then invalidate_doc, then invalidate_for_insert; C07_no_store_after_invalidate assumes mutate -> bump)"})
    if not broken or ctx.replay:
        if broken:
            ctx.violation({"property": "C07", "kind": "no-failing-input-found", "broken": broken}, no_input=True)
        return
    # --- search: widen the oracles (op sequences, near-boundary pairs, engine histories)
    ctx.say("proof/correspondence broken; widening the oracle search")
    out2 = out + "_search"
    os.makedirs(out2, exist_ok=True)
    rc, o = vlib.sh([vlib.bin_path("c07"), "--out", out2, "--n", "2000"],
                    env={"VERIF_SEED": str(ctx.seed + 7919)}, timeout=2400)
    found = None
    try:
        s2 = json.load(open(os.path.join(out2, "summary.json")))
        a2 = json.load(open(os.path.join(out2, "all_cases.json")))
        for stream in ("A", "E"):
            for f in s2.get(stream, {}).get("oracle_failures", []):
                found = found or {"stream": stream, "why": f["why"], "case": f["case"]}
        R2 = s2.get("R", {})
        if not found and R2.get("stale_rounds", 0) > 0:
            found = {"stream": "R", "why": R2["stale"][0]["why"] + " (class C07-store-after-invalidate; %d stale of %d rounds; schedule dependent)" % (R2["stale_rounds"], R2["rounds"]),
                     "case": {"stream": "R", "rounds": R2["rounds"], "seed": R2["seed"]}}
        if not found:
            r2 = _eval_shards(ctx, out2, s2)
            for i in r2["B"]["near"]["unsound_tol"][:1]:
                found = {"stream": "B", "why": "prefilter unsound beyond tolerance", "case": a2["B"][i]}
    except Exception as ex:  # noqa: BLE001
        ctx.notes.append("widened search failed: %r" % (ex,))
    if found:
        ctx.violation({"property": "C07", "kind": "oracle", "stream": found["stream"], "why": found["why"],
                       "case": found["case"], "broken": broken})
    else:
        ctx.violation({"property": "C07", "kind": "no-failing-input-found", "broken": broken,
                       "note": "model and implementation disagree or a theorem no longer checks, but no op sequence / vector pair / engine history violating the stated property was found in the widened seeded search (2000 op sequences, 60000 pairs, 200 histories)"},
                      no_input=True)
