"""C14 — tenant vector quotas are exact (DESIGN.md §3 C14).  PARTIAL.

Proof phase: Properties/C14.vo — on Model/Quota.v: for EVERY sequential RPC history count = |live docs|
per tenant (hence never above the limit, never refused below it); on the interleaving model of the
quota protocol: ANY NUMBER of concurrent calls out of {Insert, BulkInsert, BulkLoadHnsw, Delete,
BatchDelete}, of one tenant (C14_many_calls) or of several (C14_many_tenants), keep
count = |live| + reservations held inside the mutex, |live| <= count <= limit at every instant, the
count exact whenever the mutex is free and when all calls have returned, in every schedule (all five take the per-tenant quota mutex since /repo 3784711; the schedules on which the
protocol before that commit drifted are kept as Examples on the old protocol).
Tie: harness/p/c14 drives the REAL kyrodb_server binary (harness/p/srv):
  (i)  seeded sequential scripts at the boundary (limit 1..3, second tenant on the same local ids,
       duplicates, absent ids, rejected and engine-rejected items, bulk load, restarts, boundary probes);
       every answer + census + /usage is compared with Model/Quota.v inside coqc (vm_compute) and checked
       by the direct oracles (usage == census size, census size <= limit, refusal => census size == limit);
  (ii) races: repetitions of two concurrent RPCs of one tenant on one id, a fresh tenant per repetition;
       after the pair the count is measured by filling up to RESOURCE_EXHAUSTED; drift = census - count.
A drift in ANY pair is a VIOLATION (the driver labels drifts of pairs with a Delete/BatchDelete
`C14-delete-outside-quota-mutex`, the class repaired by 3784711; nothing is looked up in known findings).
"""
import json
import os
import vlib

THEOREMS = {"Properties.C14": ["C14_count_exact_seq", "C14_run_state", "C14_never_above_limit",
                               "C14_never_refused_below_limit", "C14_many_calls", "C14_many_tenants", "C14_other_tenants_untouched",
                               "C14_pairs", "C14_pairs_cover_all_calls", "C14_nonvacuous_many_calls",
                               "C14_old_protocol_overwrite_delete_drift", "C14_old_protocol_bulk_insert_delete_drift",
                               "C14_old_protocol_bulk_load_overwrite_delete_drift", "C14_old_protocol_bulk_load_new_delete_drift",
                               "C14_old_protocol_insert_new_delete_drift", "C14_old_protocol_delete_batch_delete_drift",
                               "C14_nonvacuous_seq", "C14_nonvacuous_pairs", "C14_nonvacuous_overwrite_delete"]}
PINS = {"Properties.C14": {
    "_preamble": "From Coq Require Import List NArith Bool. From Kyro Require Import Model.Quota Proofs.QuotaProofs. Open Scope N_scope.",
    "C14_count_exact_seq": "forall (cfg : qcfg) (es : list qev) (t : N), let s := qfinal cfg es in t_count (tget s t) = len (t_live (tget s t)) /\\ NoDup (t_live (tget s t))",
    "C14_never_above_limit": "forall (cfg : qcfg) (es : list qev) (t : N), len (t_live (tget (qfinal cfg es) t)) <= q_limit cfg t",
    "C14_never_refused_below_limit": "forall (cfg : qcfg) (es : list qev) (t : N) (it : qitem), item_admissible it = true -> let ts := tget (qfinal cfg es) t in (snd (handle cfg t ts (QInsert it)) = QErrExhausted <-> (mem (qi_id it) (t_live ts) = false /\\ len (t_live ts) = q_limit cfg t))",
    "C14_many_calls": "forall (limit count : N) (live : list N) (ths : list thr) (sched : list nat), NoDup live -> count = len live -> count <= limit -> Forall fresh ths -> let c := mrun limit sched (mstart count live ths) in (sh_count (m_sh c) = len (sh_live (m_sh c)) + dsum (sh_live (m_sh c)) (m_ths c) /\\ len (sh_live (m_sh c)) <= sh_count (m_sh c) /\\ sh_count (m_sh c) <= limit /\\ NoDup (sh_live (m_sh c)) /\\ (forall j x, nth_error (m_ths c) j = Some x -> (gin_cs x = true <-> sh_mutex (m_sh c) = Some j)) /\\ (sh_mutex (m_sh c) = None -> sh_count (m_sh c) = len (sh_live (m_sh c)))) /\\ (mquiescent c = true -> sh_count (m_sh c) = len (sh_live (m_sh c)) /\\ sh_mutex (m_sh c) = None)",
    "C14_pairs": "forall (limit count : N) (live : list N) (a b : thr) (sched : list bool), NoDup live -> count = len live -> count <= limit -> fresh a -> fresh b -> let c := crun limit sched (cstart count live a b) in (final_live c <= final_count c /\\ final_count c <= limit /\\ NoDup (sh_live (c_sh c))) /\\ (quiescent c = true -> final_count c = final_live c /\\ sh_mutex (c_sh c) = None)",
    # `fresh` must keep covering all five call kinds of the CURRENT protocol
    "C14_pairs_cover_all_calls": "forall id ok rest items ids, fresh (TI (istart id ok)) /\\ fresh (TBI (istart id ok) rest) /\\ fresh (TL (lstart items)) /\\ fresh (TD (dstart id)) /\\ fresh (TB (bstart ids))",
}}


def _run_driver(out, n, reps, seed, threads=6, race_threads=3, replay=None):
    os.makedirs(out, exist_ok=True)
    for f in os.listdir(out):
        p = os.path.join(out, f)
        if os.path.isfile(p):
            os.remove(p)
    args = [vlib.bin_path("c14"), "--out", out, "--n", str(n), "--reps", str(reps),
            "--threads", str(threads), "--race-threads", str(race_threads)]
    if replay:
        args += ["--replay", replay]
    return vlib.sh(args, env={"VERIF_SEED": str(seed)}, timeout=7000)


def _coq(out, summ):
    shards = [open(os.path.join(out, "cases_%d.v" % i)).read() for i in range(summ["shards"])]
    if not shards:
        return [], 0, 0, []
    res = vlib.coq_eval("C14", shards, timeout=1500)
    bad, events, cases, errs = [], 0, 0, []
    for i, (rc, o) in enumerate(res):
        tags = vlib.parse_tagged(o)
        if rc != 0 or "bad" not in tags or "count" not in tags or "events" not in tags:
            errs.append({"shard": i, "rc": rc, "out": o[-1200:]})
            continue
        nums = vlib.parse_numbers(tags["bad"].split(":")[0])
        bad += list(zip(nums[0::2], nums[1::2]))
        cases += vlib.parse_numbers(tags["count"].split(":")[0])[0]
        events += vlib.parse_numbers(tags["events"].split(":")[0])[0]
    return bad, cases, events, errs


def _race_table(summ):
    rows = []
    for r in summ["races"]:
        rows.append({"pair": r["pair"], "variant": r["variant"], "repetitions": r["repetitions"],
                     "count_short_of_live": r["count_short_of_live"], "count_above_live": r["count_above_live"],
                     "ended_over_limit": r["ended_over_limit"], "hit_rate": round(r["hit_rate"], 4),
                     "control": r["control"]})
    return rows


def run(ctx):
    quick = ctx.tier == "quick"
    n = 24 if quick else 200
    reps = 100 if quick else 2400
    ctx.trusted += [
        "harness/p/srv + harness/p/c14: server driver, script generator, the abstraction of an embedding to the class the validation layers and the engine distinguish (good / empty / non-finite / wrong dimension / zero), canonicalisation of answers to status classes, the census (BulkQuery over the id universe 1..9) and GET /usage parsing",
        "count measurement in the race part: the server's count is not exposed; it is measured as limit - (fresh ids admitted until RESOURCE_EXHAUSTED)",
        "modelled, not verified: the engine as an atomic set of live ids per tenant (TieredEngine exists/insert/delete/batch_delete/bulk_load_cold_tier; tenant separation of ids and of the reserved metadata key is C10's subject), RwLock-protected counter updates as atomic steps, parking_lot::Mutex as a lock; rate limiting, tonic/prost decoding, the >MAX_BATCH_SIZE chunking of BulkLoadHnsw and the usage tracker's persistence are not modelled beyond vector_count surviving a graceful restart",
        "runtime scheduling of the real binary is SAMPLED by the race repetitions (seeded send delays, OS scheduler), not proved; only the interleaving MODEL is quantified over all schedules",
    ]
    proofs_ok = ctx.proof_phase(["Properties/C14.vo"], THEOREMS, pins=PINS)

    ok, log, server_bin = vlib.server_build()
    ctx.log("server_build.log", log)
    if not ok or not os.path.exists(server_bin):
        ctx.violation({"property": "C14", "kind": "server-build-failed", "log_tail": log[-3000:],
                       "unchecked": "everything observed on the real binary"}, no_input=True)
        return
    ok, log = vlib.cargo_build(["c14"])
    ctx.log("cargo.log", log)
    if not ok:
        ctx.say("harness build failed")
        ctx.violation({"property": "C14", "kind": "harness-build-failed", "log_tail": log[-3000:],
                       "unchecked": "correspondence Model/Quota.v vs engine/src/bin/kyrodb_server.rs"}, no_input=True)
        return
    out = os.path.join(vlib.CACHE, "run", "C14", "out")
    rc, o = _run_driver(out, n, reps, ctx.seed, replay=ctx.replay)
    ctx.log("harness.log", o)
    if rc != 0 or not os.path.exists(os.path.join(out, "summary.json")):
        ctx.violation({"property": "C14", "kind": "harness-crashed", "rc": rc, "log_tail": o[-3000:]}, no_input=True)
        return
    summ = json.load(open(os.path.join(out, "summary.json")))
    allc = json.load(open(os.path.join(out, "all_cases.json")))
    bad, cases, events, coq_err = _coq(out, summ)
    races = _race_table(summ)
    hits = summ["race_hits"]
    ctx.cov.update({
        "evaluations": summ["rpcs"] + summ["race_repetitions"],
        "distinct_nontrivial": summ["nontrivial"],
        "rule": "evaluations = RPCs of the sequential scripts (each event = the RPC + BulkQuery census + GET /usage, + the delete of an admitted probe) + race repetitions (each = set-up, one concurrent pair, census, /usage, fill to refusal); a script is non-trivial when it is distinct after canonicalisation and contains both a quota refusal (RESOURCE_EXHAUSTED or refused probe) and an admitted boundary probe, i.e. the count was observed on both sides of the limit; scripts: tenant acme limit 1..3 (cycling), tenant bolt limit 2 or 1e6 on the same local ids, id pool limit+2 plus ids 0 / 2^32 / u64::MAX, euclidean and cosine, vectors good / empty / NaN / wrong dimension / zero, duplicates inside batches, BatchDelete by ids (duplicates, absent, 0) and by filter, up to 2 graceful restarts",
        "scripts": summ["scripts_run"], "script_events": summ["events"],
        "script_features": summ["features"],
        "samples": summ["samples"][:2],
        "histogram": summ["histogram"],
        "model_cases_evaluated_in_coq": cases, "model_events_evaluated_in_coq": events,
        "model_disagreements": len(bad),
        "oracle_failures": len(summ["oracle_failures"]),
        "race_repetitions": summ["race_repetitions"],
        "races": races,
        "race_outcomes": {"%s [%s]" % (r["pair"], r["variant"]): r["outcomes"] for r in summ["races"]},
        "avg_server_startup_s": round(summ["avg_server_startup_s"], 3),
        "seq_wall_s": round(summ["seq_wall_s"], 1), "race_wall_s": round(summ["race_wall_s"], 1),
    })
    ctx.notes.append("race results are samples of the OS scheduler: send order and delay of the two RPCs are seeded (VERIF_SEED), the interleaving inside the server is not; the per-block hit rates in coverage.races are what was observed in THIS run")
    ctx.notes.append("observation (not judged): BulkLoadHnsw reserves one slot per distinct non-existing id of the batch BEFORE loading, including ids whose vector the engine then rejects, and refuses the whole call when that exceeds the free slots — a tenant with one free slot is refused a batch of one good and one bad new document")
    ctx.notes.append("before /repo 3784711 (Delete/BatchDelete outside the quota mutex) the same race stage found 52 drifting repetitions of 674 on the real binary (overwrite||delete, bulk_insert||delete, bulk_load(overwrite)||delete, delete||batch_delete); the old protocol's witness schedules are kept as Examples C14_old_protocol_* in Properties/C14.v")

    # ---- decide
    if summ["run_errors"] and not summ["scripts_run"] and not summ["race_repetitions"]:
        ctx.violation({"property": "C14", "kind": "server-did-not-start", "detail": summ["run_errors"][:3]}, no_input=True)
        return
    if summ["run_errors"]:
        ctx.notes.append("run errors (server start / set-up failures, not judged): %s" % json.dumps(summ["run_errors"][:3])[:600])
    for f in summ["oracle_failures"][:1]:
        ctx.violation({"property": "C14", "kind": "oracle", "why": f["why"], "event_index": f.get("event_index"),
                       "event": f.get("event"), "observed": f.get("observed"), "case": f["case"],
                       "replay_cmd": "./check C14 --replay <this file>"})
    if hits:
        h = hits[0]
        total = sum(x["hits_in_this_block"] for x in hits)
        ctx.violation(dict(h, property="C14",
                           why="after the two concurrent calls returned, the tenant's count differs from its number of live documents (%d drifting repetition(s) in %d block(s)); with the count short the tenant is admitted past max_vectors" % (total, len(hits)),
                           blocks_with_drift=[{"pair": x["pair"], "variant": x["variant"], "hits": x["hits_in_this_block"], "repetitions": x["repetitions"]} for x in hits],
                           replay_cmd="./check C14 --replay <this file>  (re-runs this pair/variant for `repetitions` repetitions with the same seed; scheduling is not deterministic, compare hit counts)"))
    if summ["oracle_failures"] or hits:
        return
    broken = []
    if not proofs_ok:
        broken.append({"kind": "proof-obligations", "failed": ctx.failed_obligations})
    if coq_err:
        broken.append({"kind": "cases-evaluation-error", "detail": coq_err[:2]})
    if bad:
        first = bad[0]
        sc = allc[first[0]] if first[0] < len(allc) else None   # Coq case id = position in all_cases.json
        broken.append({"kind": "correspondence", "disagreeing": [{"case": b[0], "event_index": b[1]} for b in bad[:10]],
                       "first_case": None if sc is None else sc["case"],
                       "first_case_observations": None if sc is None else sc["observed"][:80]})
    if broken:
        ctx.say("proof/correspondence broken; widening the oracle search")
        out2 = out + "_search"
        rc, o = _run_driver(out2, 150, 300, ctx.seed + 7919)
        found = []
        try:
            s2 = json.load(open(os.path.join(out2, "summary.json")))
            found = s2["oracle_failures"] + s2["race_hits"]
        except Exception:
            pass
        if found:
            f = found[0]
            ctx.violation(dict(f, property="C14", broken=broken))
        else:
            ctx.violation({"property": "C14", "kind": "no-failing-input-found", "broken": broken,
                           "note": "the model and the real server disagree, or a theorem no longer checks, but no script violating the quota oracles was found in the widened search (150 more scripts, 300 repetitions per race pair)"},
                          no_input=True)
