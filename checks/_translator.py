"""Shared helper for checks whose model (or part of it) is regenerated from /repo by harness/p/translator.

regen(ctx, target, stem, also_build=[...]) builds the translator (together with the check's own driver, one wait
on the shared cargo lock), runs one target and returns
    {"ok": bool, "report": dict|None, "text": str, "drivers_built": bool, "broken": dict|None}
`broken` is the entry a check appends to its `broken` list when the translator failed closed / could not be
built, so that its own "broken => widen the search => VIOLATION with input or no-failing-input-found" path is taken.
The regenerated file is coq/gen/<stem>.v (write-if-changed), the report .cache/gen/<stem>.json."""
import json
import os
import vlib

GEN_DIR = os.path.join(vlib.CACHE, "gen")


def regen(ctx, target, stem, also_build=()):
    res = {"ok": False, "report": None, "text": "", "drivers_built": False, "broken": None}
    ok, log = vlib.cargo_build(["translator"] + list(also_build))
    res["drivers_built"] = ok and bool(also_build)
    if not ok and also_build:
        ok, log2 = vlib.cargo_build(["translator"])
        log += "\n--- translator alone ---\n" + log2
    ctx.log("cargo_translator_%s.log" % target, log)
    if not ok:
        res["text"] = "translator build failed:\n" + log[-2000:]
    else:
        with vlib.FileLock("regen-" + target):
            rc, out = vlib.sh([vlib.bin_path("translator"), target, "--repo", vlib.REPO,
                               "--out", os.path.join(vlib.COQ, "gen"), "--report-dir", GEN_DIR], timeout=120)
        ctx.log("translator_%s.log" % target, out)
        res["text"] = out
        try:
            res["report"] = json.load(open(os.path.join(GEN_DIR, stem + ".json")))
        except Exception:
            pass
        res["ok"] = rc == 0 and bool(res["report"]) and res["report"].get("ok") is True
    last = res["text"].strip().split("\n")[-1][:300] if res["text"].strip() else "no output"
    ctx.say("translator %s: %s" % (target, last))
    if not res["ok"]:
        res["broken"] = {"kind": "translator-failed-closed", "target": target,
                         "detail": res["report"] if res["report"] else res["text"][-1500:],
                         "unchecked": "coq/gen/%s.v could not be regenerated from the current source; the equality theorems were last proved over a stale copy" % stem}
    else:
        # the compiled model must be the regenerated one (a stale .vo would make the theorems meaningless)
        res["v"] = os.path.join(vlib.COQ, "gen", stem + ".v")
    return res


def stale_vo(stem):
    """True when coq/gen/<stem>.vo is missing or older than the regenerated .v (the model did not compile)."""
    v = os.path.join(vlib.COQ, "gen", stem + ".v")
    vo = v + "o"
    return not (os.path.exists(v) and os.path.exists(vo) and os.path.getmtime(vo) >= os.path.getmtime(v))
