"""C01 — acknowledged writes survive a crash at any instant; restart always succeeds (DESIGN.md §3 C01)."""
import json
import os
import vlib
import perscheck

THEOREMS = {"Properties.C01": ["C01_kill", "C01_kill_op", "C01_restart_idem", "C01_first_start",
                               "C01_torn_write_reads_prefix", "C01_batch_delete_partial_refuted",
                               "C01_power_always", "C01_power_model_simulates",
                               "C01_power_batch_unsynced_refuted",
                               "C01_power_always_partial", "C01_nonvacuous"],
            "Properties.C01periodic": ["C01_periodic_partial", "C01_periodic_zero_every_write",
                                       "C01_periodic_idle_tail_refuted", "C01_periodic_nonvacuous"]}
PINS = {"Properties.C01": {
    "_preamble": "From Coq Require Import List NArith ZArith Bool. From Kyro Require Import Model.Amap Model.Backend Model.Crash Proofs.BackendProofs. Open Scope N_scope.",
    "C01_kill": "forall (c : cfg) (ops : list op) (n : nat) (torn : bool), wf_cfg c = true -> norm_ok c -> known_c01 c ops n = false -> exists r, start c (cp_dir (crash_hist c ops n torn)) = SOk r /\\ (st_store r = cp_acked (crash_hist c ops n torn) \\/ st_store r = cp_inflight (crash_hist c ops n torn))",
    "C01_kill_op": "forall (c : cfg) (s : state) (o : op) s' out effs (k : nat) (torn : bool), wf_cfg c = true -> norm_ok c -> Inv c s -> step c s o = (s', out, effs) -> (k <= length effs)%nat -> known_op s o k = false -> exists r, start c (crash_kill (st_disk s) effs k torn) = SOk r /\\ (st_store r = st_store s \\/ st_store r = st_store s')",
    "C01_power_always": "forall (c : cfg) (ops : list op) (n : nat) (l : loss), wf_cfg c = true -> norm_ok c -> c_fsync c = FsAlways -> known_power c ops n = false -> exists r, start c (crash_power c ops n l) = SOk r /\\ (st_store r = cp_acked (crash_hist c ops n false) \\/ st_store r = cp_inflight (crash_hist c ops n false))",
    "C01_restart_idem": "forall (c : cfg) (ops : list op) (k : nat) (torn : bool) s' effs, wf_cfg c = true -> norm_ok c -> recover_full c Strict (st_disk (run c ops)) = Ok (s', effs) -> (k <= length effs)%nat -> exists r, start c (crash_kill (st_disk (run c ops)) effs k torn) = SOk r /\\ st_store r = st_store (run c ops) /\\ st_store s' = st_store (run c ops)",
},
    "Properties.C01periodic": {
    "_preamble": "From Coq Require Import List NArith. From Kyro Require Import Model.Periodic Proofs.PeriodicProofs. Import ListNotations. Open Scope N_scope.",
    "C01_periodic_partial": "forall iv t0 pre d mid dj post, p_now (prun iv t0 (pre ++ [d])) + iv <= p_now (prun iv t0 (pre ++ [d] ++ mid ++ [dj])) -> (length pre < length (p_durable (prun iv t0 (pre ++ [d] ++ mid ++ [dj] ++ post))))%nat",
    "C01_periodic_idle_tail_refuted": "~ periodic_clause 50 0 [10; 1] 200",
}}

# Source anchors of Model/Periodic.v: the Periodic arm of WalWriter::perform_fsync (fragments in this order)
PERIODIC_ANCHORS = [
    ("engine/src/persistence.rs", "fn perform_fsync(&mut self)",
     ["FsyncPolicy::Periodic(interval_ms) => {", "if interval_ms == 0", "|| self.last_fsync.elapsed() >= Duration::from_millis(interval_ms)",
      "self.file.sync_data()?;", "self.last_fsync = Instant::now();", "FsyncPolicy::Never => {"]),
    ("engine/src/persistence.rs", "fn append_internal(&mut self, entry: &WalEntry)", ["self.write_entry(entry)?;", "self.perform_fsync()"]),
]


def periodic_anchor_misses():
    """Model/Periodic.v's `due` / `pstep` read off the source text; also: `last_fsync` is assigned nowhere
    else than in perform_fsync (and the constructors)."""
    misses = []
    try:
        src = open("/repo/engine/src/persistence.rs").read()
    except OSError:
        return [{"file": "engine/src/persistence.rs", "missing": "file"}]
    for rel, fn, frags in PERIODIC_ANCHORS:
        i = src.find(fn)
        if i < 0:
            misses.append({"file": rel, "fn": fn, "missing": "function"})
            continue
        j = src.find("\n    }\n", i)
        body = src[i:j if j > 0 else len(src)]
        pos = 0
        for f in frags:
            k = body.find(f, pos)
            if k < 0:
                misses.append({"file": rel, "fn": fn, "missing": f})
                break
            pos = k + len(f)
    import re
    assigns = len(re.findall(r"self\.last_fsync\s*=[^=]", src))
    if assigns != 1:
        misses.append({"file": "engine/src/persistence.rs", "missing": "exactly one assignment to self.last_fsync (found %d)" % assigns})
    return misses


RULE = ("seeded histories (3..12 ops: insert/overwrite, delete, batch_delete, update_metadata, create_snapshot, restart; "
        "grid dim{1,2,3,8} x metric x capacity{3,4,64} x snapshot_interval{0,1,2,3,5,1000} x max_wal{1,200,400,1MiB}; "
        "2/3 fsync=always, 1/3 never) are run ONCE on the real HnswBackend under the LD_PRELOAD fsshim; from the recorded "
        "trace EVERY crash state is materialised (kill before each libc effect; torn prefixes of every write at 1, 4, len/2, "
        "len-4, len-1 bytes; under fsync=always the power-loss view that drops un-synced bytes and un-synced directory "
        "changes) and the real engine is started on it (strict): recovered census must equal acked or acked+in-flight. "
        "Correspondence (inside coqc): the abstracted REAL effect sequence of every operation (create/append/fsync/fdatasync/"
        "rename/unlink/fsyncdir/write-file with decoded frames, manifests and snapshots, files renamed by creation order) "
        "must equal the effect list of Model/Backend.v `step`, and the real start-up result on sampled crash states must "
        "equal Model/Crash.v `start` on the model's crash state. distinct_nontrivial = distinct materialised directory "
        "states at which some operation was in flight (mid-operation crash states), counted by content hash")


def describe(f):
    d = f.get("detail") or {}
    if d.get("scenario"):
        return d["scenario"]
    return "kill/torn before effect %s of in-flight %s" % (d.get("crash_before_effect"), json.dumps(d.get("in_flight"), sort_keys=True)[:120])


def _parse_res(out):
    tags = vlib.parse_tagged(out)
    if "res" not in tags:
        return None
    body = tags["res"]
    cut = body.rfind(": N * list")
    if cut >= 0:
        body = body[:cut]
    nums = vlib.parse_numbers(body)
    if not nums:
        return None
    rest = nums[1:]
    return nums[0], [(rest[i], rest[i + 1]) for i in range(0, len(rest) - 1, 2)]


def run(ctx):
    n = 40 if ctx.tier == "quick" else 200
    ctx.trusted += [
        "ASSUMPTION norm_ok (see C02) and the premise known_c01 = false: the crash is not strictly inside the run of per-id frames of a batch_delete of >= 2 live ids (recorded finding C01-batch-delete-partial; model witness C01_batch_delete_partial_refuted, reproduced by the driver on every run)",
        "process-kill model of the file system: every completed libc call persists, the last write may be cut at any byte (a cut WAL frame is tail Torn - byte-level justification WalBytesProofs.torn_prefix, re-exported as C01_torn_write_reads_prefix; a cut temp file is unparsable); rename is atomic; this is the standard crash model, not ext4",
        "power-loss model of the file system (Model/Crash.v, proved for EVERY loss choice in C01_power_always): un-synced content versions of a file are lost as a suffix, un-dirsynced directory operations are lost as a suffix, the two independently; file data and directory entries are the only state (no metadata-only effects such as file length without data); fsync/fdatasync make the whole file content durable, a directory fsync makes all earlier directory operations durable; under power loss the excluded batch-delete class extends to the instant before the batch's fsync completes (known_power; witness C01_power_batch_unsynced_refuted); the model's own oracle is additionally evaluated on a subset of the seeded histories and the driver enumerates the power-loss views of the REAL traces",
        "periodic-fsync clause: Model/Periodic.v (hand-written timed core of WalWriter::perform_fsync: an append syncs iff interval == 0 or last_fsync.elapsed() >= interval, then last_fsync := now; nothing else syncs) is tied to the code by source anchors on perform_fsync / append_internal (fragments in order, a single assignment to last_fsync) and by the driver's directed scenario (Periodic(50 ms), two acknowledged inserts, 200 ms idle, power loss), which replays the model's witness C01_periodic_idle_tail_refuted on the real engine; the model takes the sync instant and the acknowledgement instant of an append to be the same millisecond; snapshots/rotation under Periodic are not in this small model (they only add syncs)",
        "LD_PRELOAD shim shims/fsshim.c (records open(O_CREAT)/write/fsync/fdatasync/ftruncate/rename/unlink with data), kvh-pers vfs (trace -> directory states), harness/p/c01/src/abs.rs (trace -> model effects: decoding with the engine's own WalEntry/Manifest/Snapshot types, file renaming by the model's fresh-id rule, collapsing of consecutive temp-file writes)",
        "start-up decision replicated from kyrodb_server main: recover (strict) when MANIFEST exists, else with_persistence (which refuses a directory with snapshots / non-empty WALs)",
    ]
    proofs_ok = ctx.proof_phase(["Properties/C01.vo", "Properties/C01periodic.vo"], THEOREMS, pins=PINS)
    p_misses = periodic_anchor_misses()
    ctx.cov["periodic_source_anchors_missing"] = p_misses
    ok, log = vlib.cargo_build(["c01"])
    ctx.log("cargo.log", log)
    if not ok:
        ctx.violation({"property": "C01", "kind": "harness-build-failed", "log_tail": log[-3000:]}, no_input=True)
        return
    summ, fails = perscheck.run_driver(ctx, "c01", ["--n", str(n)])
    if summ is None:
        return
    out = os.path.join(vlib.CACHE, "run", "C01")
    shards = [open(os.path.join(out, "cases_%d.v" % i)).read() for i in range(summ.get("coq_shards", 0))]
    res = vlib.coq_eval("C01", shards, timeout=1500)
    bad, evaluated, coq_err = [], 0, []
    for k, (rc, o) in enumerate(res):
        pr = _parse_res(o) if rc == 0 else None
        if pr is None:
            coq_err.append({"shard": k, "rc": rc, "out": o[-1500:]})
            continue
        evaluated += pr[0]
        bad += pr[1]
    kinds = {1: "effect-sequence", 2: "start-on-crash-state", 3: "model-kill-oracle", 4: "model-power-oracle"}
    disagreements = [{"history": h, "kind": kinds.get(code // 1000000, "?"), "index": code % 1000000} for h, code in bad]
    per = summ.get("periodic_idle_tail") or {}
    ctx.cov.update({
        "evaluations": summ["states"],
        "distinct_nontrivial": summ["mid_operation_states"] if summ["mid_operation_states"] <= summ["distinct_states"] else summ["distinct_states"],
        "rule": RULE,
        "samples": summ.get("samples", [])[:1],
        "histories": summ["histories"], "libc_effects_traced": summ["effects"],
        "crash_states": summ["states"], "distinct_directory_states": summ["distinct_states"],
        "real_recoveries_run": summ["recoveries"], "mid_operation_states": summ["mid_operation_states"],
        "state_kinds": summ["state_kinds"], "effect_kinds": summ["effect_kinds"], "op_kinds": summ["op_kinds"],
        "traces_validated_against_impl": evaluated,
        "op_effect_lists_compared_with_model": summ.get("coq_op_effect_lists_compared", 0),
        "real_startups_compared_with_model": summ.get("coq_start_samples", 0),
        "post_recovery_write_checks": summ.get("post_recovery_write_checks", 0),
        "histories_with_model_oracles_evaluated": summ.get("coq_model_oracle_histories", 0),
        "model_disagreements": len(bad),
        "oracle_failures": len(fails),
        "oracle_failure_classes": sorted(set(str(f.get("class")) for f in fails)),
        "periodic_idle_tail_scenario": {k: per.get(k) for k in ("scenario", "views", "wal_syncs_issued_after_first_insert", "acked_write_lost_on_power_loss")},
    })
    unknown = perscheck.report_failures(ctx, fails, describe)
    if unknown:
        return
    broken = []
    if not proofs_ok:
        broken.append({"kind": "proof-obligations", "failed": ctx.failed_obligations})
    if coq_err:
        broken.append({"kind": "cases-evaluation-error", "detail": coq_err[:2]})
    if summ.get("norm_idem_failures"):
        broken.append({"kind": "assumption-norm_ok-measured-false", "detail": summ["norm_idem_failures"][:3]})
    if p_misses:
        broken.append({"kind": "source-anchors", "misses": p_misses,
                       "what": "the sync rule Model/Periodic.v encodes (C01_periodic_partial: an append at least one interval after an entry makes it durable; interval 0 syncs every write) is no longer the one in WalWriter::perform_fsync"})
    if bad:
        hs = json.load(open(os.path.join(out, "histories.json")))
        first = disagreements[0]
        broken.append({"kind": "correspondence", "disagreements": disagreements[:20],
                       "first_history": hs[first["history"]] if first["history"] < len(hs) else None})
    if not broken:
        return
    ctx.say("proof/correspondence broken; widening the crash-state search")
    summ2, fails2 = perscheck.run_driver(ctx, "c01", ["--n", "150", "--tier", "thorough"], timeout=3000)
    if fails2 is not None and perscheck.report_failures(ctx, fails2, describe):
        return
    ctx.violation({"property": "C01", "kind": "no-failing-input-found", "broken": broken,
                   "note": "the model's effect sequences / start-up and the real engine disagree (or a theorem no longer checks) but no crash state outside the recorded classes made strict start-up fail or return a collection other than acked / acked+in-flight in the widened enumeration (150 histories, thorough torn cuts and power-loss views)"},
                  no_input=True)
