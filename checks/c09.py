"""C09 — snapshots and compaction racing with writers lose and duplicate nothing (DESIGN.md §3 C09).

Partial: the theorems are about the protocol model Model/Conc09.v (all schedules, any number of
writer and snapshot threads); the tie to /repo is
  (i)   the lock-skeleton + outcome correspondence of every modelled call run alone on the real
        HnswBackend (recorded by the patched parking_lot, compared inside coqc),
  (ii)  directed schedules (gate table) for the windows the proof depends on,
  (iii) seeded stress with injected delays,
(ii) and (iii) judged by the direct oracle: strict recover on a copy of the directory == live census.
"""
import json
import os
import shutil
import vlib

LOCKS_WS = os.path.join(vlib.VERIF, "harness-locks")
BIN = os.path.join(vlib.CACHE, "target-locks", "debug", "c09")
RUN = os.path.join(vlib.CACHE, "run", "C09")

THEOREMS = {"Properties.C09": ["C09_quiescent_exact", "C09_recover_any_time", "C09_stale_snapshot_never_wins",
                               "C09_stale_snapshot_skips", "C09_no_duplicate_effect", "C09_same_file_id_refuted",
                               "C09_nonvacuous", "C09_capture_excluded"]}
KNOWN_ID = "C09-snapshot-file-id-collision"
PINS = {"Properties.C09": {
    "_preamble": "From Coq Require Import List NArith Bool Sorted. From Kyro Require Import Model.Amap Model.Conc09 Proofs.Conc09Proofs. Import ListNotations. Open Scope N_scope.",
    "C09_quiescent_exact": "forall (c : cfg) (sched : list ev) (st : state), distinct_ids c -> crun c init sched = Some st -> all_done st = true -> recover (disk_of st) = Some (st_store st)",
    "C09_recover_any_time": "forall (c : cfg) (sched : list ev) (st : state), distinct_ids c -> crun c init sched = Some st -> recover (disk_of st) = Some (apply_entries (st_store st) (in_flight st))",
    "C09_stale_snapshot_never_wins": "forall (c : cfg) (sched0 : list ev) (st : state) (sched : list ev) (st' : state), distinct_ids c -> crun c init sched0 = Some st -> crun c st sched = Some st' -> ptr_seq (st_man st) <= ptr_seq (st_man st')",
    "C09_same_file_id_refuted": "exists (c : cfg) (sched : list ev) (st : state), ~ distinct_ids c /\\ crun c init sched = Some st /\\ all_done st = true /\\ st_store st = [(1, (1, 1)); (2, (2, 2))] /\\ st_man st = mkMan (Some (4, 2)) [3] /\\ st_snaps st = [(4, (1, [(1, (1, 1))]))] /\\ recover (disk_of st) = None",
    "C09_no_duplicate_effect": "forall (c : cfg) (sched : list ev) (st : state), distinct_ids c -> crun c init sched = Some st -> exists (last : N) (docs : store) (es : list entry), read_segs (st_files st) (m_segs (st_man st)) = Some es /\\ recover (disk_of st) = Some (apply_entries docs (filter (fun e => negb (covered last e)) es)) /\\ StronglySorted N.lt (map e_seq es)",
}}


# The lock recorder does not see atomics and file operations.  Their ORDER relative to the lock
# operations (which the skeleton correspondence observes) is re-read from the source text on every run:
# per function, these fragments must occur in this order.  A miss = "correspondence broken".
ANCHORS = {
    "insert": ["snapshot_lock.read()", "write_gate.lock()", "index.is_full()", "drop(write_gate_guard)", "drop(snapshot_guard)",
               "self.compact_tombstones()", "next_wal_seq.fetch_add(1", "persistence.wal.write()", "wal.append(&entry)",
               "rotate_wal_if_needed(&mut wal)", "self.index.write()", "self.doc_store.write()", "store.embeddings.push(",
               "*inserts += 1", "drop(write_gate_guard)", "drop(snapshot_guard)", "self.create_snapshot()"],
    "delete": ["snapshot_lock.read()", "write_gate.lock()", "next_wal_seq.fetch_add(1", "persistence.wal.write()", "wal.append(&entry)",
               "rotate_wal_if_needed(&mut wal)", "*inserts += 1", "self.doc_store.write()", "external_to_internal.remove(&doc_id)",
               "drop(write_gate_guard)", "drop(snapshot_guard)", "self.create_snapshot()"],
    "update_metadata": ["snapshot_lock.read()", "write_gate.lock()", "next_wal_seq.fetch_add(1", "persistence.wal.write()", "wal.append(&entry)",
                        "rotate_wal_if_needed(&mut wal)", "*inserts += 1", "self.doc_store.write()", "store.metadata[internal_id] =",
                        "drop(write_gate_guard)", "drop(snapshot_guard)", "self.create_snapshot()"],
    "batch_delete": ["snapshot_lock.read()", "write_gate.lock()", ".fetch_add(wal_entries.len() as u64", "persistence.wal.write()",
                     "wal.append_batch(&wal_entries)", "rotate_wal_if_needed(&mut wal)", "*inserts += wal_entries.len()",
                     "self.doc_store.write()", "external_to_internal.remove(&doc_id)", "drop(write_gate_guard)", "drop(snapshot_guard)",
                     "self.create_snapshot()"],
    "create_snapshot": ["persistence.snapshot_lock.write()", ".next_wal_seq", ".load(Ordering::SeqCst)", ".saturating_sub(1)", "self.doc_store.read()",
                        "drop(store)", "drop(snapshot_guard)", "snapshot.save(&snapshot_path)", "persistence.manifest_lock.lock()",
                        "Manifest::load(&manifest_path)", "latest_snapshot_wal_seq.unwrap_or(0)", "if latest_snapshot_seq > last_wal_seq {",
                        "remove_file(&snapshot_path)", "return Ok(())", "manifest.latest_snapshot = Some(", "manifest.latest_snapshot_wal_seq = Some(last_wal_seq)",
                        "manifest.save(&manifest_path)", "self.compact_old_wal_segments(", "manifest.save(&manifest_path)",
                        "inserts_since_snapshot.write() = 0"],
    "rotate_wal_if_needed": ["bytes_written() < self.max_wal_size_bytes", "WalWriter::create_with_error_handler(", "self.manifest_lock.lock()",
                             "Manifest::load(&manifest_path)", "manifest.wal_segments.push(new_wal_name", "manifest.save(&manifest_path)",
                             "*wal_guard = new_writer"],
    "compact_old_wal_segments": ["manifest.wal_segments.len().saturating_sub(1)", "if idx == active_wal_index {", "segments_to_keep.push(wal_name.clone())",
                                 "entry.seq_no > 0 && snapshot_last_wal_seq > 0", "entry.seq_no <= snapshot_last_wal_seq", "if all_entries_covered {",
                                 "segments_to_delete.push(", "manifest.wal_segments = segments_to_keep", "if !segments_to_delete.is_empty()",
                                 "manifest.save(", "std::fs::remove_file(&wal_path)"],
    "compact_tombstones": ["snapshot_lock.write()", "self.index.write()", "self.doc_store.write()", "if tombstones == 0", "drop(snapshot_guard)"],
    "recover_with_hnsw_params_and_mode": ["for wal_name in &manifest.wal_segments", "if snapshot_last_wal_seq > 0", "&& entry.seq_no > 0",
                                          "&& entry.seq_no <= snapshot_last_wal_seq", "continue;", "documents.insert(entry.doc_id", "documents.remove(&entry.doc_id)"],
}


def anchor_check():
    """Returns (number of anchors found in order, list of misses)."""
    import re
    src = open(os.path.join(vlib.REPO, "engine", "src", "hnsw_backend.rs"), errors="replace").read()
    cut = src.find("#[cfg(test)]\nmod tests")
    if cut > 0:
        src = src[:cut]
    found, misses = 0, []
    for fn, anchors in ANCHORS.items():
        m = re.search(r"\n    (?:pub )?fn %s\s*(?:<[^>]*>)?\(" % re.escape(fn), src)
        if not m:
            misses.append({"fn": fn, "missing": "<function>"})
            continue
        nxt = re.search(r"\n    (?:pub )?fn \w+|\n}\n", src[m.end():])
        body = src[m.start(): m.end() + (nxt.start() if nxt else len(src))]
        pos = 0
        for a in anchors:
            i = body.find(a, pos)
            if i < 0:
                misses.append({"fn": fn, "missing": a, "after": anchors[anchors.index(a) - 1] if anchors.index(a) else None})
                break
            pos = i + len(a)
            found += 1
    return found, misses


def build_driver():
    with vlib.FileLock("cargo-locks"):
        lock = os.path.join(LOCKS_WS, "Cargo.lock")
        if not os.path.exists(lock):
            shutil.copy(os.path.join(vlib.REPO, "Cargo.lock"), lock)
        rc, out = vlib.sh(["cargo", "build", "--offline", "-p", "kvl-c09"], cwd=LOCKS_WS, timeout=3000)
    return rc == 0, out


def run_driver(out, n, seed, extra=(), timeout=3000):
    shutil.rmtree(out, ignore_errors=True)
    os.makedirs(out, exist_ok=True)
    rc, o = vlib.sh([BIN, "--out", out, "--n", str(n)] + list(extra), env={"VERIF_SEED": str(seed)}, timeout=timeout)
    summ = None
    try:
        summ = json.load(open(os.path.join(out, "summary.json")))
    except Exception:
        pass
    return rc, o, summ


def run_probe(ctx, trials, tag="probe"):
    """Directed generator for the known class: two snapshots released together after their captures.
    Returns the probe's json (stops at the first oracle failure)."""
    out = RUN + "_" + tag
    shutil.rmtree(out, ignore_errors=True)
    os.makedirs(out, exist_ok=True)
    rc, o = vlib.sh([BIN, "--out", out, "--n", "0", "--probe-fileid", str(trials)], env={"VERIF_SEED": str(ctx.seed)}, timeout=3000)
    ctx.log(tag + ".log", o)
    try:
        return json.load(open(os.path.join(out, "probe.json")))
    except Exception:
        return {"trials": 0, "oracle_failures": [], "error": o[-800:]}


def classify_probe_failure(f):
    """The specific input class of the finding: both racing snapshots used ONE file name (only the warm-up
    snapshot and one more file exist, or the pointer's file holds an older sequence than the manifest says)."""
    rec = f.get("recovered")
    txt = json.dumps(rec)
    return KNOWN_ID if ("manifest committed a snapshot at sequence" in txt or "snapshot" in txt.lower()) and len(f.get("snapshots", [])) <= 2 else None


def handle_probe(ctx, probe):
    for f in probe.get("oracle_failures", [])[:1]:
        kid = classify_probe_failure(f)
        known = ctx.classify_known(kid) if kid else None
        if known:
            ctx.known_hit(known, "reproduced in trial %d of the same-instant two-snapshot probe: %s" % (f.get("trial", -1), json.dumps(f.get("recovered"))[:160]))
        else:
            ctx.violation({"property": "C09", "kind": "fileid-probe", "why": "after two racing snapshots returned, strict recover on a copy differs from the live census",
                           "detail": f, "replay_cmd": "./check C09 --replay <this file>   (repeats the probe up to 2000 trials)"})


def run(ctx):
    n = 20 if ctx.tier == "quick" else 1000
    ctx.trusted += [
        "Model/Conc09.v is hand-written: the atomic steps are the critical sections of hnsw_backend.rs in the code's order; the granularity (what is atomic) is justified by the locks the code holds, which the skeleton correspondence re-reads from the real engine on every run (lock classes, modes, order, per call and per branch)",
        "the patched parking_lot / lock_api recorder and gate table (harness/vendor) report every lock operation of the engine",
        "theorems assume distinct file ids (premise distinct_ids); the code uses file_id() = microsecond clock without a tie-break: known finding C09-snapshot-file-id-collision, refuted in the model (C09_same_file_id_refuted) and reproduced on the real engine by the probe",
        "not modelled: I/O errors, the disk-space check, legacy seq_no = 0 entries, fsync (no crash in this property), update_metadata with merge = true, the HNSW graph",
        "real preemption at arbitrary instructions is NOT exhibited: only the interleavings of lock-delimited steps are proved; the directed schedules and the stress runs sample the real engine",
    ]
    proofs_ok = ctx.proof_phase(["Properties/C09.vo"], THEOREMS, pins=PINS)
    ctx.say("proof phase done (ok=%s)" % proofs_ok)

    ok, log = build_driver()
    ctx.log("cargo.log", log)
    ctx.say("driver built")
    if not ok:
        ctx.say("driver build failed")
        ctx.violation({"property": "C09", "kind": "harness-build-failed", "log_tail": log[-3000:],
                       "unchecked": "skeleton correspondence, directed schedules and stress of Model/Conc09.v vs engine/src/hnsw_backend.rs"}, no_input=True)
        return

    if ctx.replay:
        rep = json.load(open(ctx.replay))
        if rep.get("kind") == "stress-oracle":
            rc, o, summ = run_driver(RUN + "_replay", 0, ctx.seed, ["--replay", ctx.replay], timeout=1200)
            ctx.log("replay.log", o)
            fails = (summ or {}).get("stress", {}).get("failures", [])
            ctx.cov.update({"evaluations": 50, "distinct_nontrivial": 1, "rule": "replay of one stress case, up to 50 attempts (the schedule is chosen by the OS)", "replay_failures": len(fails)})
            if fails:
                ctx.violation(rep)
            return
        if rep.get("kind") == "fileid-probe":
            probe = run_probe(ctx, 2000, "probe_replay")
            ctx.cov.update({"evaluations": probe.get("trials", 0), "distinct_nontrivial": len(probe.get("oracle_failures", [])),
                            "rule": "replay of the same-instant two-snapshot probe until the first failure"})
            handle_probe(ctx, probe)
            return
        # directed replays: the schedules are fixed; fall through to the normal run

    rc, o, summ = run_driver(RUN, n, ctx.seed)
    ctx.log("harness.log", o)
    ctx.say("driver ran: " + o.strip().split("\n")[-1][:200])
    if rc != 0 or summ is None or summ.get("hang"):
        ctx.violation({"property": "C09", "kind": "harness-crashed-or-hung", "rc": rc, "log_tail": o[-3000:],
                       "note": "a hang would be a C08 matter; here it leaves C09 undecided"}, no_input=True)
        return

    # --- (i) skeleton correspondence, evaluated by coqc
    res = vlib.coq_eval("C09", [open(os.path.join(RUN, "cases_0.v")).read()])
    rc0, out0 = res[0]
    ctx.log("skeleton_coq.log", out0)
    ctx.say("skeleton correspondence evaluated by coqc")
    tags = vlib.parse_tagged(out0)
    skel_bad, skel_err, skel_n = [], None, 0
    if rc0 != 0 or "bad" not in tags or "count" not in tags:
        skel_err = out0[-1500:]
    else:
        skel_bad = vlib.parse_numbers(tags["bad"].split(":")[0])
        skel_n = vlib.parse_numbers(tags["count"].split(":")[0])[0]
    skel = summ["skeleton"]
    directed = summ["directed"]
    stress = summ["stress"]
    dir_bad = [d for d in directed if not d["ok"]]
    anchors_found, anchor_misses = anchor_check()

    ctx.cov.update({
        "evaluations": skel["n"] + len(directed) + stress["runs"],
        "distinct_nontrivial": skel["distinct_lock_sequences"] + sum(1 for d in directed if d["ok"]) + stress["nontrivial"],
        "rule": "skeleton: 14 call shapes x 5 configurations (rotation never/always, snapshot due/not due), a case counts once per distinct recorded lock sequence; directed: each gate-table schedule whose intended window was reached (all checks true, no gate timeout); stress: a run counts when a snapshot was committed AND the recorder saw snapshot_lock.write() requested while a writer held it shared, or manifest_lock requested while held (i.e. the race really happened)",
        "skeleton_cases_compared_in_coq": skel_n,
        "skeleton_disagreements": len(skel_bad),
        "source_order_anchors_checked": anchors_found,
        "source_order_anchor_misses": anchor_misses,
        "skeleton_distinct_lock_sequences": skel["distinct_lock_sequences"],
        "directed_schedules": [{"name": d["name"], "ok": d["ok"], "census_equal": d["census_equal"]} for d in directed],
        "stress_runs": stress["runs"],
        "stress_oracle_failures": len(stress["failures"]),
        "stress_snapshot_write_requests": stress["snapshot_lock_write_requests"],
        "stress_snapshot_write_requested_while_readers": stress["snapshot_lock_write_requested_while_readers"],
        "stress_manifest_lock_requested_while_held": stress["manifest_lock_requested_while_held"],
        "histogram": stress["histogram"],
        "samples": [{k: s[k] for k in ("id", "equal", "live", "snapshot_seq", "segments", "snap_contended", "manifest_contended")} for s in stress["samples"][:2]],
        "oracle_failures": len(stress["failures"]) + sum(1 for d in dir_bad if not d["census_equal"]),
    })

    # --- directed generator for the known class (file-id collision of two racing snapshots)
    probe = run_probe(ctx, 25 if ctx.tier == "quick" else 800)
    ctx.say("file-id probe: %d trials, %d failures" % (probe.get("trials", 0), len(probe.get("oracle_failures", []))))
    ctx.cov["fileid_probe_trials"] = probe.get("trials", 0)
    ctx.cov["fileid_probe_failures"] = len(probe.get("oracle_failures", []))
    ctx.cov["evaluations"] += probe.get("trials", 0)
    handle_probe(ctx, probe)

    # --- decide: oracle failures first
    for f in stress["failures"][:1]:
        ctx.violation({"property": "C09", "kind": "stress-oracle", "why": f["why"], "case": f["case"], "result": f["result"],
                       "replay_cmd": "./check C09 --replay <this file>   (re-runs the case up to 50 times; the interleaving is the OS's)"})
    for d in dir_bad[:1]:
        if not d["census_equal"]:
            ctx.violation({"property": "C09", "kind": "directed-oracle", "schedule": d["name"], "detail": d,
                           "why": "after the directed schedule, strict recover on a copy differs from the live census",
                           "replay_cmd": "./check C09   (directed schedules are fixed and re-run every time)"})
        else:
            ctx.violation({"property": "C09", "kind": "directed-protocol", "schedule": d["name"], "detail": d,
                           "why": "the real engine did not respect the exclusion the model assumes (see checks), or the window was not reached",
                           "replay_cmd": "./check C09"})
    if stress["failures"] or dir_bad:
        return

    broken = []
    if not proofs_ok:
        broken.append({"kind": "proof-obligations", "failed": ctx.failed_obligations})
    if skel_err:
        broken.append({"kind": "skeleton-evaluation-error", "detail": skel_err})
    if skel_bad:
        cases = {c["id"]: c for c in skel["cases"]}
        broken.append({"kind": "skeleton-correspondence", "disagreeing_case_ids": skel_bad[:20],
                       "first_case": cases.get(skel_bad[0]), "model_says": tags.get("model_of_bad", "")[:1500]})
    if anchor_misses:
        broken.append({"kind": "source-order-anchors", "misses": anchor_misses,
                       "note": "the order of an atomic / file operation relative to the lock operations in hnsw_backend.rs is no longer the one Model/Conc09.v encodes"})
    if skel_n != skel["n"] and not skel_err:
        broken.append({"kind": "skeleton-count-mismatch", "coq": skel_n, "driver": skel["n"]})
    if broken:
        ctx.say("proof/correspondence broken; widening the stress search")
        wide = 300 if ctx.tier == "quick" else 3000
        rc, o, s2 = run_driver(RUN + "_search", wide, ctx.seed + 7919, ["--stress-only"], timeout=3000)
        found = (s2 or {}).get("stress", {}).get("failures", [])
        if found:
            f = found[0]
            ctx.violation({"property": "C09", "kind": "stress-oracle", "why": f["why"], "case": f["case"], "result": f["result"], "broken": broken})
        else:
            ctx.violation({"property": "C09", "kind": "no-failing-input-found", "broken": broken,
                           "note": "the model no longer matches the engine's lock skeleton / outcomes, or a theorem no longer checks; %d further seeded stress runs and the directed schedules found no restart that differs from the live collection" % wide},
                          no_input=True)
