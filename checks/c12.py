"""C12 — restoring a backup reproduces the collection as of that backup (DESIGN.md §3 C12)."""
import json
import os
import vlib
import perscheck

THEOREMS = {"Properties.C12": [
    "C12_full_restore_exact", "C12_chain_restore_exact", "C12_chain_contains_manifest_snapshot",
    "C12_prune_keeps_parents", "C12_chain_restore_exact_after_prune", "C12_prune_subset",
    "C12_tamper_rejected_before_clear", "C12_no_clear_without_confirmation", "C12_metadata_irrelevant",
    "C12_old_incremental_after_snapshot_witness", "C12_incremental_after_snapshot_now_exact",
    "C12_old_prune_parent_witness", "C12_ancestor_removed_by_hand", "C12_nonvacuous", "C12_prune_still_prunes"]}

PINS = {"Properties.C12": {
    "_preamble": "From Coq Require Import List NArith Bool. From Kyro Require Import Model.Backup Proofs.BackupProofs. Import ListNotations. Open Scope N_scope.",
    "C12_chain_restore_exact": "forall sc st rch tip d m o, chain_ok sc rch d m -> hd_error rch = Some tip -> NoDup (map b_id rch) -> store_sub st rch -> o_dry o = false -> ~ KnownC12 st rch -> exists t', restore_by_id st [] (b_id tip) o = (None, t') /\\ recovery_view t' = recovery_view (strip d) /\\ restorable t' = true",
    "C12_prune_keeps_parents": "forall now p st b pid y, NoDup (map b_id st) -> In b (prune_store now p st) -> b_parent b = Some pid -> In y st -> b_id y = pid -> In y (prune_store now p st)",
    "C12_chain_restore_exact_after_prune": "forall sc now p st rch tip d m o, chain_ok sc rch d m -> hd_error rch = Some tip -> NoDup (map b_id rch) -> NoDup (map b_id st) -> (forall b, In b rch -> find_b st (b_id b) = Some b) -> o_dry o = false -> In tip (prune_store now p st) -> exists t', restore_by_id (prune_store now p st) [] (b_id tip) o = (None, t') /\\ recovery_view t' = recovery_view (strip d) /\\ restorable t' = true",
    "C12_full_restore_exact": "forall d m id ts aux o, wf_sdir d m -> o_dry o = false -> exists b, create_full d id ts aux = Ok b /\\ b_files b = view_files d m /\\ restore_by_id [b] [] id o = (None, view_files d m) /\\ recovery_view (view_files d m) = recovery_view (strip d) /\\ restorable (view_files d m) = true",
}}

RECORDED = "C12-archive-member-name-not-covered-by-checksum"
TAGS = ("bad_create", "bad_restore", "bad_prune", "premise_bad")


def describe(f):
    d = f.get("damage")
    if d:
        return "%s byte of the %s's %s (%s at offset %s)" % (d.get("position"), d.get("file_role"), d.get("file_kind"), d.get("mutation"), d.get("offset"))
    return (f.get("why") or "")[:200]


def evaluate(ctx, out):
    shards = []
    i = 0
    while os.path.exists(os.path.join(out, "cases_%d.v" % i)):
        shards.append(open(os.path.join(out, "cases_%d.v" % i)).read())
        i += 1
    res = vlib.coq_eval("C12", shards)
    bad = {t: [] for t in TAGS}
    evaluated, coq_err = 0, []
    for k, (rc, o) in enumerate(res):
        tags = vlib.parse_tagged(o)
        if rc != 0 or "count" not in tags or any(t not in tags for t in TAGS):
            coq_err.append({"shard": k, "rc": rc, "out": o[-1500:]})
            continue
        for t in TAGS:
            bad[t] += vlib.parse_numbers(tags[t].split(":")[0])
        evaluated += vlib.parse_numbers(tags["count"].split(":")[0])[0]
    return bad, evaluated, coq_err


def report(ctx, fails):
    """One KNOWN-FINDING per recorded class; one VIOLATION per unrecorded class (first case of each)."""
    unknown = {}
    for f in fails:
        cls = f.get("class")
        # only the recorded class is looked up; the two repaired classes (prune deletes a parent,
        # incremental after a snapshot) keep their labels but are plain violations again
        kf = ctx.classify_known(cls) if cls == RECORDED else None
        if kf:
            ctx.known_hit(kf, describe(f))
        else:
            unknown.setdefault(cls or "unclassified", []).append(f)
    for cls in sorted(unknown, key=lambda c: (c == "unclassified", c)):
        f = dict(unknown[cls][0])
        f["property"] = "C12"
        f["other_failures_of_this_class_in_the_run"] = len(unknown[cls]) - 1
        f["replay_cmd"] = "./check C12 --replay <this file>"
        ctx.violation(f)
    return len(unknown)


def run(ctx):
    n = 8 if ctx.tier == "quick" else 48
    ctx.trusted += [
        "Model/Backup.v is a hand-written model of engine/src/backup.rs (create_full_backup, create_incremental_backup, restore_from_backup_with_options, restore_point_in_time_with_options, clear_data_directory, list/prune_backups); it is tied to the real BackupManager/RestoreManager every run: archive membership, refusals, chain building, verification, clear guard, dry run, extraction and point-in-time selection on fabricated directories, prune on synthetic timelines, all compared inside coqc",
        "abstraction: file contents are tokens, the MANIFEST is structured; 'archive present, well-formed and CRC sum equal to metadata.checksum' is one boolean per backup (b_ok); CRC-32 detecting the alteration of a payload is a premise (the harness measures which single-byte alterations are in fact rejected)",
        "premises of the exactness theorems, validated on the real engine's directories inside coqc every run: wf_sdir (MANIFEST lists exactly the on-disk segments in increasing id order and its snapshot exists), evolves (segments an incremental does not select are unchanged since the parent: closed segments are immutable, appends move mtime forward) and snaps_agree (a snapshot file name denotes one content across the directories of a history)",
        "recovery_view (MANIFEST, the snapshot it names, the listed segments) is taken to determine the recovered collection; the engine-level oracle (start the real engine on the restored directory, compare the census with the one recorded at backup time) checks this end to end",
        "not modelled: legacy MANIFEST layout, WAL names without a numeric id, the source-fingerprint retry loop (backups are taken at quiescent points), parent cycles in fabricated metadata (the code would loop), S3 transport",
        "start-up decision replicated from kyrodb_server main (kvh_pers::eng::start): strict recover when MANIFEST exists",
    ]
    proofs_ok = ctx.proof_phase(["Properties/C12.vo"], THEOREMS, pins=PINS)
    ok, log = vlib.cargo_build(["c12"])
    ctx.log("cargo.log", log)
    if not ok:
        ctx.violation({"property": "C12", "kind": "harness-build-failed", "log_tail": log[-3000:],
                       "unchecked": "correspondence Model/Backup.v vs engine/src/backup.rs and the restore oracle"}, no_input=True)
        return
    summ, fails = perscheck.run_driver(ctx, "c12", ["--n", str(n)])
    if summ is None:
        return
    out = os.path.join(vlib.CACHE, "run", "C12")
    allc = json.load(open(os.path.join(out, "all_cases.json")))
    bad, evaluated, coq_err = evaluate(ctx, out)
    h = summ["histogram"]
    ctx.cov.update({
        "evaluations": summ["cases_in_coq"] + sum(v for k, v in h.items() if k.startswith("tamper_") and k != "tamper_chains") + h.get("restore_exact", 0) + sum(v for k, v in h.items() if k.startswith("restore_failure")),
        "distinct_nontrivial": summ["distinct_nontrivial"],
        "rule": "stage A: seeded histories on the real HnswBackend (tiny rotation sizes, explicit and automatic snapshots, compaction, restarts) with full/incremental backups at quiescent points one second apart; each backup, each point-in-time target and each backup retained by prune(default) is restored into an empty directory, the real engine is started on it (strict) and its census compared with the census at backup time; a restore counts as non-trivial when its chain holds an incremental or a snapshot/restart preceded the backup. stage B: every structural byte and seeded payload bytes of every archive and every byte of every metadata file of real chains flipped, plus truncations; non-trivial = rejected with the pre-populated target untouched. stage C: synthetic prune timelines with ages on bucket/category/min-age boundaries; non-trivial = distinct timelines where prune deleted something while a retained backup has a parent. stage D: fabricated directories (missing/garbage/unsorted manifests, unlisted and missing segments, mtimes around the parent's timestamp, rotations, snapshots, compactions), restores by id / point-in-time into 6 target shapes x 4 option combinations x environment flag with damaged or missing archives and metadata; non-trivial = distinct case literals",
        "samples": summ.get("samples", [])[:3],
        "histogram": h,
        "histories_on_real_engine": summ["histories"],
        "cases_validated_against_model_in_coqc": evaluated,
        "create_cases": summ["create_cases"], "restore_cases": summ["restore_cases"], "prune_cases": summ["prune_cases"],
        "theorem_premises_checked_on_real_directories": summ["premise_cases"],
        "model_disagreements": {t: len(v) for t, v in bad.items()},
        "oracle_failures": summ["failures"], "oracle_failure_classes": summ["failure_classes"],
    })
    unknown = report(ctx, fails)
    if unknown:
        return
    broken = []
    if not proofs_ok:
        broken.append({"kind": "proof-obligations", "failed": ctx.failed_obligations})
    if coq_err:
        broken.append({"kind": "cases-evaluation-error", "detail": coq_err[:2]})
    for t in TAGS:
        if bad[t]:
            first = bad[t][0]
            broken.append({"kind": "theorem-premise-not-met-on-a-real-directory" if t == "premise_bad" else "correspondence:" + t,
                           "disagreeing_case_ids": bad[t][:20],
                           "first_case": allc[first] if first < len(allc) else None})
    if broken:
        ctx.say("proof/correspondence broken; widening the search (thorough budget)")
        ctx.cov["broken"] = broken
        old = ctx.tier
        ctx.tier = "thorough"
        summ2, fails2 = perscheck.run_driver(ctx, "c12", ["--n", "32"], timeout=3000)
        ctx.tier = old
        if fails2 is not None and report(ctx, fails2):
            return
        ctx.violation({"property": "C12", "kind": "no-failing-input-found", "broken": broken,
                       "note": "the model of backup.rs and the implementation disagree (or a theorem / premise no longer checks) but no restore that differs from the collection at backup time, no restore accepted after tampering and no clearing without confirmation was found outside the recorded classes"},
                      no_input=True)
