"""C18 — unsafe durability and exposure settings are refused outside benchmark mode (DESIGN.md §3 C18).

regenerate coq/gen/Config_gen.v from /repo (translator, fails closed) -> proofs over the regenerated model
-> full settings matrix on the real KyroDbConfig::validate (driver c18, direct oracle) -> every row compared
with the model inside coqc (vm_compute) -> decide with the VIOLATION protocol."""
import json
import os
import shutil
import vlib

THEOREMS = {"Properties.C18": ["C18_accept_implies_safe", "C18_accept_implies_known_env", "C18_env_normalised",
                               "C18_env_padding", "C18_env_case", "C18_nonvacuous"]}
PINS = {"Properties.C18": {
    "_preamble": "From Coq Require Import Bool List NArith. From Kyro Require Import Model.RustStr gen.Config_gen Proofs.ConfigProofs. Import ListNotations.",
    "C18_accept_implies_safe": "forall (c : safety_cfg) (o : opaque_guards), Config_gen.validate c o = true -> "
        "(env c <> Benchmark -> fsync c <> FsNone /\\ snapshot_interval c <> SnapZero /\\ recovery c = Strict /\\ strategy c = Learned) /\\ "
        "(env c = Pilot -> auth c = true /\\ rate_limit c = true /\\ obs_auth c <> ObsDisabled /\\ fresh_start c = false /\\ (tls c = true \\/ grpc_loopback c = true)) /\\ "
        "(env c = Production -> grpc_loopback c = false -> auth c = true)",
    "C18_env_normalised": "forall (raw : str) (c : safety_cfg) (o : opaque_guards), Config_gen.validate_raw raw c o = true -> "
        "(str_to_ascii_lowercase (str_trim raw) = env_lit_production \\/ str_to_ascii_lowercase (str_trim raw) = env_lit_pilot \\/ str_to_ascii_lowercase (str_trim raw) = env_lit_benchmark) /\\ "
        "(str_to_ascii_lowercase (str_trim raw) <> env_lit_benchmark -> fsync c <> FsNone /\\ snapshot_interval c <> SnapZero /\\ recovery c = Strict /\\ strategy c = Learned) /\\ "
        "(str_to_ascii_lowercase (str_trim raw) = env_lit_pilot -> auth c = true /\\ rate_limit c = true /\\ obs_auth c <> ObsDisabled /\\ fresh_start c = false /\\ (tls c = true \\/ grpc_loopback c = true)) /\\ "
        "(str_to_ascii_lowercase (str_trim raw) = env_lit_production -> grpc_loopback c = false -> auth c = true)",
    "C18_env_padding": "forall (ws1 s ws2 : str), forallb is_ws ws1 = true -> forallb is_ws ws2 = true -> Config_gen.env_of_raw (ws1 ++ s ++ ws2) = Config_gen.env_of_raw s",
}}

GEN_REPORT = os.path.join(vlib.CACHE, "gen", "Config_gen.json")
SERVER_BIN = os.path.join(vlib.CACHE, "target-server", "debug", "kyrodb_server")


def regenerate(ctx):
    """Build and run the translator. Returns (ok, report-or-None, text)."""
    # one cargo invocation for both binaries (one wait on the shared build lock); fall back to
    # building the translator alone when the driver (which links the engine) does not build
    ok, log = vlib.cargo_build(["translator", "c18"])
    ctx.both_built = ok
    if not ok:
        ok, log2 = vlib.cargo_build(["translator"])
        log += "\n--- translator alone ---\n" + log2
    ctx.log("cargo_translator.log", log)
    if not ok:
        return False, None, "translator build failed:\n" + log[-2000:]
    with vlib.FileLock("regen-config"):
        rc, out = vlib.sh([vlib.bin_path("translator"), "config", "--repo", vlib.REPO,
                           "--out", os.path.join(vlib.COQ, "gen"), "--report-dir", os.path.dirname(GEN_REPORT)], timeout=120)
    ctx.log("translator.log", out)
    rep = None
    try:
        rep = json.load(open(GEN_REPORT))
    except Exception:
        pass
    return rc == 0 and bool(rep) and rep.get("ok") is True, rep, out


def row_case(summ, shard, pos):
    name_ix, ix, pick = summ["shard_index"][shard][pos]
    co = []
    for r in reversed(summ["radix"]):
        co.append(ix % r)
        ix //= r
    return {"environment_type": summ["names"][name_ix], "co": list(reversed(co)), "pick": pick}


def describe(case, out):
    """Full description of a row (and its verdict on the real code) through the driver's replay mode."""
    d = out + "_describe"
    os.makedirs(d, exist_ok=True)
    p = os.path.join(d, "row.json")
    json.dump({"case": case}, open(p, "w"))
    rc, _ = vlib.sh([vlib.bin_path("c18"), "--out", d, "--n", "0", "--replay", p], timeout=120)
    try:
        s = json.load(open(os.path.join(d, "summary.json")))
        row = s["samples"][0]
        row["observed_accept"] = s["accepted"]
        row["message"] = s["message"]
        return row
    except Exception:
        return case


def run_server_rows(ctx, rows):
    """Thorough tier: exit status of the real server binary on sampled REJECTED rows (prebuilt binary only)."""
    res = {"ran": 0, "refused": 0, "started": []}
    env = {k: "" for k in os.environ if k.startswith("KYRODB")}
    for r in rows:
        cwd = os.path.dirname(r["toml"])
        e = dict(env)
        e["RUST_LOG"] = "error"
        cmd = "env %s timeout -s KILL 20 %s --config %s" % (" ".join("-u " + k for k in env), SERVER_BIN, r["toml"])
        rc, out = vlib.sh(cmd, cwd=cwd, timeout=60)
        res["ran"] += 1
        # refused = nothing was opened (no data directory) and the process either exited with an error
        # status or had already printed its fatal configuration error when a loaded machine made the
        # watchdog kill it during exit
        refused_status = rc not in (0, 124, 137) or "Error:" in out
        if refused_status and not os.path.exists(r["data_dir"]):
            res["refused"] += 1
        else:
            res["started"].append({"case": r["case"], "rc": rc, "toml": open(r["toml"]).read(), "output_tail": out[-600:],
                                   "data_dir_created": os.path.exists(r["data_dir"])})
    return res


def run(ctx):
    n = 120 if ctx.tier == "quick" else 1500
    ctx.trusted += [
        "harness/p/translator (syn 2 parser + the Rust-subset -> Gallina translator): it fails closed on every statement form, macro, control-flow construct or operation on a safety-relevant setting outside its subset; settings it is not told about become universally quantified opaque guards (they can only reject more)",
        "coq/Model/RustStr.v: Gallina meaning of str::trim (Unicode White_Space) and to_ascii_lowercase over code-point lists; exercised on every run by case/whitespace/non-ASCII-blank variants of the environment name on the real validate",
        "is_loopback_host is an input predicate of the model (grpc_loopback / http_loopback): which concrete host strings are loopback is not proved; the driver uses 7 loopback and 7 non-loopback representatives and any misclassification would show as a correspondence disagreement",
        "the correspondence is evaluated with every unrelated guard passing (all_opaque_true): the driver keeps all other settings at valid defaults; the theorems quantify over all values of the unrelated guards",
        "'the server refuses to start on a rejected configuration' is established structurally by the translator on every run (load ends in validate()?; main calls config.validate()? after the last CLI override and before the first AuthManager/TieredEngine/listener construction) and, in the thorough tier when a prebuilt binary exists, by the exit status of the real kyrodb_server on sampled rejected rows",
    ]
    broken = []
    # ---- 1. regenerate the model from /repo
    gen_ok, rep, gen_out = regenerate(ctx)
    ctx.say("translator: %s" % (gen_out.strip().split("\n")[-1][:200] if gen_out.strip() else "no output"))
    if not gen_ok:
        ctx.say("translator did not produce a model: %s" % gen_out.strip().split("\n")[-1][:300])
        broken.append({"kind": "translator-failed-closed", "detail": rep if rep else gen_out[-1500:],
                       "unchecked": "Config_gen.v could not be regenerated from the current KyroDbConfig::validate; theorems were last proved over a stale model"})
    else:
        st = rep["structure"]
        if not st["load_ends_with_validate"].get("ok"):
            broken.append({"kind": "structure", "what": "KyroDbConfig::load no longer ends in `config.validate()?; Ok(config)`", "detail": st["load_ends_with_validate"]})
        if not st["main_validates_before_construction"].get("ok"):
            broken.append({"kind": "structure", "what": "kyrodb_server main no longer validates the final configuration after the last override and before constructing auth/engine", "detail": st["main_validates_before_construction"]})
        if not st["no_early_ok"]:
            ctx.notes.append("validate contains an early `return Ok(())` at lines %s (translated faithfully; the theorem decides)" % st["early_ok_lines"])
    # ---- 2. proofs over the regenerated model
    proofs_ok = ctx.proof_phase(["Properties/C18.vo"], THEOREMS, pins=PINS)
    ctx.say("proof phase: %d/%d obligations" % (ctx.discharged, ctx.obligations))
    if not proofs_ok:
        broken.append({"kind": "proof-obligations", "failed": ctx.failed_obligations})

    # ---- 3. the matrix on the real code
    if getattr(ctx, "both_built", False):
        ok, log = True, "built together with the translator (see cargo_translator.log)"
    else:
        ok, log = vlib.cargo_build(["c18"])
    ctx.log("cargo.log", log)
    if not ok:
        ctx.say("harness build failed")
        ctx.violation({"property": "C18", "kind": "harness-build-failed", "log_tail": log[-3000:], "broken": broken,
                       "unchecked": "correspondence gen/Config_gen.v vs engine/src/config.rs"}, no_input=True)
        return
    out = os.path.join(vlib.CACHE, "run", "C18")
    shutil.rmtree(out, ignore_errors=True)
    os.makedirs(out, exist_ok=True)
    args = [vlib.bin_path("c18"), "--out", out, "--n", str(n), "--guards", GEN_REPORT]
    replay_case = None
    if ctx.replay:
        try:
            rj = json.load(open(ctx.replay))
            c = rj.get("case", rj)
            if isinstance(c, dict) and "co" in c:
                replay_case = c
        except Exception:
            pass
        if replay_case is not None:
            args += ["--replay", ctx.replay]
        else:
            ctx.notes.append("replay file holds no configuration row (a no-failing-input replay): running the full check")
    if ctx.tier == "thorough":
        args += ["--variant-every", "1"]
    have_server = os.path.exists(SERVER_BIN)
    if ctx.tier == "thorough" and have_server and replay_case is None:
        args += ["--server-samples", "30"]
    rc, o = vlib.sh(args, env={"VERIF_SEED": str(ctx.seed)}, timeout=1200)
    ctx.log("harness.log", o)
    if rc != 0:
        ctx.violation({"property": "C18", "kind": "harness-crashed", "rc": rc, "log_tail": o[-3000:], "broken": broken}, no_input=True)
        return
    summ = json.load(open(os.path.join(out, "summary.json")))
    ctx.say(o.strip().split("\n")[-1][:300])

    # ---- 4. correspondence inside coqc (only meaningful against a freshly regenerated, compiled model)
    bad, evaluated, coq_err = [], 0, []
    model_vo = os.path.join(vlib.COQ, "gen", "Config_gen.vo")
    model_v = os.path.join(vlib.COQ, "gen", "Config_gen.v")
    fresh = os.path.exists(model_vo) and os.path.exists(model_v) and os.path.getmtime(model_vo) >= os.path.getmtime(model_v)
    if not fresh:
        coq_err.append({"shard": -1, "rc": -1, "out": "gen/Config_gen.vo is missing or older than the regenerated gen/Config_gen.v (the model did not compile)"})
    else:
        shards = [open(os.path.join(out, "cases_%d.v" % i)).read() for i in range(summ["shards"])]
        res = vlib.coq_eval("C18", shards)
        for i, (rc, o) in enumerate(res):
            tags = vlib.parse_tagged(o)
            if rc != 0 or "bad" not in tags or "count" not in tags:
                coq_err.append({"shard": i, "rc": rc, "out": o[-1500:]})
                continue
            for pos in vlib.parse_numbers(tags["bad"].split(":")[0]):
                bad.append((i, pos))
            evaluated += vlib.parse_numbers(tags["count"].split(":")[0])[0]

    ctx.say("coqc evaluated %d rows in %d shards: %d disagree, %d shard errors" % (evaluated, summ["shards"], len(bad), len(coq_err)))
    # ---- 5. thorough: the real binary on sampled rejected rows
    server = None
    if summ.get("server_rows"):
        server = run_server_rows(ctx, summ["server_rows"])

    ctx.cov.update({
        "evaluations": summ["cases"],
        "distinct_nontrivial": summ["nontrivial"],
        "exhaustive": replay_case is None,
        "rule": "the FULL cross product environment name {production,pilot,benchmark,'',staging} x fsync {none,data_only,full} x snapshot interval {0,>0} x recovery {strict,best_effort} x cache strategy {lru,learned,abtest} x auth x rate limit x observability auth {disabled,metrics_and_slo,all} x fresh-start flag x TLS x gRPC bind {loopback,non-loopback} x HTTP bind {unset,loopback,non-loopback} "
                "on the real KyroDbConfig::validate (KyroDbConfig::default() with the fields set, every other setting valid), each row compared in coqc with Config_gen.validate_raw; the same matrix again under 14 case/whitespace variants and near-misses of the environment name (direct oracle + agreement with the canonical name; a seeded 1/60 sample of these rows (all of them in the thorough tier) is also compared in coqc). "
                "Rows are distinct by construction. A row is non-trivial when an environment-dependent safety guard decides its verdict: a production/pilot row that is rejected although the same settings are accepted under benchmark, or a production/pilot row that is accepted and has a single-setting neighbour that is rejected while accepted under benchmark.",
        "samples": summ["samples"][:3],
        "histogram": summ.get("histogram", {}),
        "rows_on_real_validate_including_name_variants": summ.get("rows_total_on_real_validate", summ["cases"]),
        "name_variant_rows": summ.get("variant_rows", 0),
        "traces_validated_against_impl": evaluated,
        "model_disagreements": len(bad),
        "oracle_failures": len(summ["oracle_failures"]),
        "rejected_with_safety_guard_message": summ.get("rejected_with_safety_guard_message"),
        "rejections_with_unrecognised_message": summ.get("rejections_unclassified"),
        "loader_channel_runs": summ.get("channel_runs", 0),
        "loader_channels": "TOML file, YAML file, KYRODB__* environment only, safe TOML baseline overridden by KYRODB__* — all through KyroDbConfig::load, %d sampled rows each" % n,
        "loader_channel_disagreements": len(summ.get("channel_disagreements", [])),
        "translator": ({"guards": rep.get("guards_total"), "safety_guards": rep.get("guards_safety"),
                        "opaque_booleans": len(rep.get("opaque_fields", [])), "env_normalisation": rep.get("env_normalisation"),
                        "structure": {"no_early_ok": rep["structure"]["no_early_ok"],
                                      "load_ends_with_validate": rep["structure"]["load_ends_with_validate"].get("ok"),
                                      "main_validates_before_construction": rep["structure"]["main_validates_before_construction"].get("ok")}}
                       if gen_ok else {"failed_closed": True}),
        "server_binary": (server if server is not None else
                          ("not run (quick tier)" if ctx.tier == "quick" else
                           ("not run: no prebuilt binary at %s" % SERVER_BIN if not have_server else "not run"))),
    })

    # ---- 6. decide
    for f in summ["oracle_failures"][:1]:
        ctx.violation({"property": "C18", "kind": "oracle", "why": f["why"], "case": f["case"], "channel": f.get("channel"),
                       "config_toml": f.get("toml"), "broken": broken,
                       "replay_cmd": "./check C18 --replay <this file>   (or: kyrodb_server --config <file holding config_toml>)"})
    if summ["oracle_failures"]:
        return
    if server and server["started"]:
        s = server["started"][0]
        ctx.violation({"property": "C18", "kind": "server-started-on-rejected-config", "case": s["case"], "config_toml": s["toml"],
                       "rc": s["rc"], "output_tail": s["output_tail"],
                       "why": "validate() rejects this configuration in-process but the real kyrodb_server did not refuse to start"})
        return
    if summ.get("enum_mismatch"):
        broken.append({"kind": "matrix-incomplete", "detail": summ["enum_mismatch"],
                       "what": "config.rs declares enum variants the driver does not enumerate: the matrix is no longer the full cross product"})
    if coq_err:
        broken.append({"kind": "cases-evaluation-error", "detail": coq_err[:2]})
    if bad:
        first = describe(row_case(summ, bad[0][0], bad[0][1]), out)
        broken.append({"kind": "correspondence", "disagreeing_rows": len(bad), "first_row": first,
                       "what": "Config_gen.validate_raw (regenerated model, unrelated guards passing) and the real KyroDbConfig::validate give different verdicts"})
    if summ.get("variant_metamorphic_failures"):
        broken.append({"kind": "environment-name-variants", "detail": summ["variant_metamorphic_failures"][:3],
                       "what": "a case/whitespace variant of an environment name is not treated like its canonical name"})
    if summ.get("channel_disagreements"):
        broken.append({"kind": "loader-channel", "detail": summ["channel_disagreements"][:3],
                       "what": "a row supplied through a file / the environment via KyroDbConfig::load got a different verdict (or different values) than the same row validated in-process"})
    if not summ.get("guards_json_ok", True) and gen_ok:
        broken.append({"kind": "translator-report-unreadable"})
    if broken:
        # The search already happened: the driver's direct oracle covered the full matrix (and every
        # name variant, and the sampled loader channels) on the real code, independently of the model.
        ctx.say("something no longer checks (%s); the full-matrix oracle on the real validate found no accepted-but-unsafe row"
                % ", ".join(b["kind"] for b in broken))
        ctx.violation({"property": "C18", "kind": "no-failing-input-found", "broken": broken,
                       "theorems": THEOREMS["Properties.C18"],
                       "searched": "%d rows on the real KyroDbConfig::validate (full settings matrix x %d environment names) + %d loads through KyroDbConfig::load"
                                   % (summ.get("rows_total_on_real_validate", summ["cases"]), len(summ.get("names", [])), summ.get("channel_runs", 0)),
                       "note": "a proof obligation over the regenerated model, the translation, the structure check or the correspondence fails, but no accepted configuration violating the C18 safety predicate exists in the enumerated matrix"},
                      no_input=True)
