"""C19 — rate limits bound admitted traffic (DESIGN.md §3 C19)."""
import json
import os
import vlib
from checks import _translator

THEOREMS = {"Properties.C19": ["C19_tenant_bound", "C19_tenant_none", "C19_global_bound",
                               "C19_refund_neutral", "C19_no_starvation", "C19_fresh_tenant",
                               "C19_nonvacuous"],
            # tie by translation: TokenBucket regenerated from rate_limiter.rs on every run == Model/RateLimit.v
            "Properties.C19gen": ["C19_generated_bucket_matches_model", "C19_generated_refill_matches_model",
                                  "C19_generated_refund_matches_model", "C19_generated_new_matches_model",
                                  "C19_generated_available_matches_model", "C19gen_nonvacuous"]}
PINS = {"Properties.C19": {
    "_preamble": "From Coq Require Import QArith List NArith ZArith. From Kyro Require Import Model.RateLimit Proofs.RateLimitProofs. Open Scope Q_scope.",
    "C19_tenant_bound": "forall (g : option N) (evs : list ev) (s : cstate) (t : N) (b : bucket), crun (cinit g) evs = Some s -> t_get (l_tenants (c_lim s)) t = Some b -> (qn (admitted_t (c_calls s) t) <= b_cap b + b_rate b * elapsed evs)%Q",
    "C19_global_bound": "forall (q : N) (evs : list ev) (s : cstate) (g : bucket), crun (cinit (Some q)) evs = Some s -> l_global (c_lim s) = Some g -> (qn (admitted_all (c_calls s)) <= b_cap g + b_rate g * elapsed evs)%Q",
},
    "Properties.C19gen": {
    "_preamble": "From Coq Require Import QArith NArith ZArith. From Kyro Require Import Model.RateLimit gen.Bucket_gen Proofs.BucketGenProofs. Open Scope Q_scope.",
    "C19_generated_bucket_matches_model": "forall (g : token_bucket) (now : Q), (to_model (fst (Bucket_gen.try_consume g now)), snd (Bucket_gen.try_consume g now)) = RateLimit.try_consume (to_model g) now",
    "C19_generated_refill_matches_model": "forall (g : token_bucket) (now : Q), to_model (Bucket_gen.refill g now) = RateLimit.refill (to_model g) now",
}}


def run(ctx):
    n = 300 if ctx.tier == "quick" else 6000
    ctx.trusted += [
        "hook H1 (cfg kyrodb_verif): TokenBucket reads a harness-driven clock instead of Instant::now()",
        "time steps are multiples of 1/512 s and rates are integers, so every f64 intermediate in TokenBucket is exact and the Q model must agree bit for bit; f64 rounding off this grid is not covered by the theorems",
        "atomicity of each TokenBucket operation under its parking_lot::Mutex (the interleaving semantics of Model/RateLimit.v takes these as atomic steps)",
    ]
    ctx.trusted.append("harness/p/translator target token_bucket (syn parser + typed Rust-subset -> Gallina translator, fails closed): f64 read as exact Q, Instant as Q seconds with the clock as the parameter `now`, now.duration_since(last).as_secs_f64() as now - last (Rust saturates a negative difference to 0 and rounds to f64; its only use is under `elapsed > 0.0`); the #[cfg(kyrodb_verif)] lines must translate identically with the hook on and off")
    # regenerate coq/gen/Bucket_gen.v from /repo (fails closed); Properties/C19gen.v proves it equal to the model
    gen = _translator.regen(ctx, "token_bucket", "Bucket_gen", also_build=["c19"])
    proofs_ok = ctx.proof_phase(["Properties/C19.vo", "Properties/C19gen.vo"], THEOREMS, pins=PINS)
    gen_broken = []
    if gen["broken"]:
        gen_broken.append(gen["broken"])
    elif _translator.stale_vo("Bucket_gen"):
        gen_broken.append({"kind": "generated-model-did-not-compile", "file": "coq/gen/Bucket_gen.v"})

    if gen["drivers_built"]:
        ok, log = True, "built together with the translator"
    else:
        ok, log = vlib.cargo_build(["c19"])
    ctx.log("cargo.log", log)
    if not ok:
        ctx.say("harness build failed")
        ctx.violation({"property": "C19", "kind": "harness-build-failed", "log_tail": log[-3000:],
                       "unchecked": "correspondence Model/RateLimit.v vs engine/src/rate_limiter.rs"}, no_input=True)
        return
    out = os.path.join(vlib.CACHE, "run", "C19")
    os.makedirs(out, exist_ok=True)
    for f in os.listdir(out):
        os.remove(os.path.join(out, f))
    args = [vlib.bin_path("c19"), "--out", out, "--n", str(n)]
    if ctx.replay:
        args += ["--replay", ctx.replay]
    rc, o = vlib.sh(args, env={"VERIF_SEED": str(ctx.seed)}, timeout=1200)
    ctx.log("harness.log", o)
    if rc != 0:
        ctx.violation({"property": "C19", "kind": "harness-crashed", "rc": rc, "log_tail": o[-3000:]}, no_input=True)
        return
    summ = json.load(open(os.path.join(out, "summary.json")))
    allc = json.load(open(os.path.join(out, "all_cases.json")))
    if summ["shards"] == 0 and ctx.replay:
        # replay of a concurrent case: only the oracle applies
        for f in summ["oracle_failures"][:1]:
            ctx.violation({"property": "C19", "kind": "oracle", "why": f["why"], "case": f["case"]})
        ctx.cov.update({"evaluations": summ.get("concurrent_rounds", 0), "distinct_nontrivial": 2, "rule": "replay of a concurrent case", "samples": summ["oracle_failures"][:1] or [{"replay": "no failure reproduced"}]})
        return
    shards = [open(os.path.join(out, "cases_%d.v" % i)).read() for i in range(summ["shards"])]
    res = vlib.coq_eval("C19", shards)
    bad, evaluated, coq_err = [], 0, []
    for i, (rc, o) in enumerate(res):
        tags = vlib.parse_tagged(o)
        if rc != 0 or "bad" not in tags or "count" not in tags:
            coq_err.append({"shard": i, "rc": rc, "out": o[-1500:]})
            continue
        bad += vlib.parse_numbers(tags["bad"].split(":")[0])
        evaluated += vlib.parse_numbers(tags["count"].split(":")[0])[0]
    ctx.cov.update({
        "evaluations": summ["cases"],
        "distinct_nontrivial": summ["nontrivial"],
        "rule": "seeded sequential op lists (advance by k/512 s biased to the refill boundary 1/qps, check_limit, available_tokens) over 1-3 tenants with qps in {1,2,3,5,8,64,1000} and global limit in {none,1,2,4,16}; a case is non-trivial when it is distinct and contains an admission after a refusal (a refill or refund mattered)",
        "samples": summ["samples"][:2],
        "histogram": summ["histogram"],
        "traces_validated_against_impl": evaluated,
        "model_disagreements": len(bad),
        "oracle_failures": len(summ["oracle_failures"]),
        "concurrent_rounds_frozen_clock": summ.get("concurrent_rounds", 0),
        "regenerated_from_source": {"file": "coq/gen/Bucket_gen.v", "translated_ok": gen["ok"],
                                    "functions": (gen["report"] or {}).get("functions")},
    })
    # --- decide
    for f in summ["oracle_failures"]:
        ctx.violation({"property": "C19", "kind": "oracle", "why": f["why"], "case": f["case"],
                       "replay_cmd": "./check C19 --replay <this file>"})
    if summ["oracle_failures"]:
        return
    broken = list(gen_broken)
    if not proofs_ok:
        broken.append({"kind": "proof-obligations", "failed": ctx.failed_obligations})
    if coq_err:
        broken.append({"kind": "cases-evaluation-error", "detail": coq_err[:2]})
    if bad:
        broken.append({"kind": "correspondence", "disagreeing_case_ids": bad[:20],
                       "first_case": allc[bad[0]] if bad[0] < len(allc) else None})
    if broken:
        # search: the oracle already ran over every generated case; widen it once
        ctx.say("proof/correspondence broken; widening the oracle search")
        rc, o = vlib.sh([vlib.bin_path("c19"), "--out", out + "_search", "--n", "20000"],
                        env={"VERIF_SEED": str(ctx.seed + 7919)}, timeout=1500)
        found = []
        try:
            found = json.load(open(os.path.join(out + "_search", "summary.json")))["oracle_failures"]
        except Exception:
            pass
        if found:
            f = found[0]
            ctx.violation({"property": "C19", "kind": "oracle", "why": f["why"], "case": f["case"], "broken": broken})
        else:
            ctx.violation({"property": "C19", "kind": "no-failing-input-found", "broken": broken,
                           "note": "model and implementation disagree or a theorem no longer checks, but no op list violating the stated bounds was found in 20300 seeded cases"},
                          no_input=True)
