"""C20 — caches and the recent-write tier stay within their configured bounds (DESIGN.md §3 C20).

Document cache (L1a, both sub-caches under the A/B splitter) and recent-write tier. Uses the C04
driver and model (checks/c04.py: drive) with its own scratch directories and evidence file; the
query-result cache bound lives with C07's model (Proofs/QCacheProofs.v) and is added to
Properties/C20.v by the coordinator."""
from checks import c04

THEOREMS = {"Properties.C20": ["C20_l1a_bound", "C20_capacity_zero_unbounded", "C20_hot_bound_after_insert",
                               "C20_hot_bound_api", "C20_hot_bound_orphans_refuted", "C20_evicted_still_readable", "C20_qcache_bound",
                               "C20_nonvacuous"]}
PINS = {"Properties.C20": {
    "_preamble": c04.PRE,
    "C20_l1a_bound": "forall (digest : vec -> dgst) (valid : vec -> bool), (forall a b : vec, digest a = digest b -> a = b) -> forall (c : config) (docs : list (N * vec * meta)) (ops : list op), 1 <= cap_a c -> 1 <= cap_b c -> length (l1a (run digest valid c (init docs) ops)) <= cap_a c /\\ length (l1b (run digest valid c (init docs) ops)) <= cap_b c",
    "C20_hot_bound_after_insert": "forall (digest : vec -> dgst) (valid : vec -> bool) (c : config) (s : state) (id : N) (v : vec) (m : meta), 1 <= hard c -> no_orphan s -> length (hot (fst (step digest valid c s (OInsert id v m)))) <= hard c",
    "C20_hot_bound_api": "forall (digest : vec -> dgst) (valid : vec -> bool), (forall a b : vec, digest a = digest b -> a = b) -> forall (c : config) (docs : list (N * vec * meta)) (ops : list op) (s : state) (id : N) (v : vec) (m : meta), 1 <= hard c -> run_guarded digest valid c (init docs) ops = Some s -> length (hot (fst (step digest valid c s (OInsert id v m)))) <= hard c",
}}


def run(ctx):
    c04.drive(ctx, {
        "prop": "C20",
        "targets": ["Properties/C20.vo"],
        "theorems": THEOREMS,
        "pins": PINS,
        "kinds": ["l1-bound", "hot-bound", "read-mismatch", "cold-diverged", "harness-observation"],
        "nontrivial_key": "nontrivial_c20",
        "rule": "same seeded histories as C04 (public TieredEngine API + harness pokes; strategies LRU / learned / learned+semantic / A-B; capacities {1,2,8} per sub-cache; hard limit {1,2,4}; soft {1,2,3,100}); after EVERY op: each L1a sub-cache size (CacheStrategy::size, cross-checked with peek_cached over the id pool and TieredEngine::cache_size) <= its capacity, HotTier::len (cross-checked with stats().hot_tier_size) <= hard limit whenever an insert returns in a history without mirror pokes, every read equal to the shadow map of successful writes (evicted / drained documents stay readable), and the sizes are compared with the model inside coqc as part of the full-state correspondence. A history is non-trivial when it is distinct and contains an LRU eviction (an id left a sub-cache while another entered) or an emergency drain at the hard limit",
    })
