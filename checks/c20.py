"""C20 — caches and the recent-write tier stay within their configured bounds (DESIGN.md §3 C20).

Document cache (L1a, both sub-caches under the A/B splitter) and recent-write tier. Uses the C04
driver and model (checks/c04.py: drive) with its own scratch directories and evidence file; the
query-result cache bound lives with C07's model (Proofs/QCacheProofs.v) and is added to
Properties/C20.v by the coordinator."""
import json
import os
import vlib
from checks import c04

THEOREMS = {"Properties.C20": ["C20_l1a_bound", "C20_capacity_zero_unbounded", "C20_hot_bound_after_insert",
                               "C20_hot_bound_api", "C20_hot_bound_orphans_refuted", "C20_evicted_still_readable", "C20_qcache_bound",
                               "C20_nonvacuous"]}
PINS = {"Properties.C20": {
    "_preamble": c04.PRE,
    "C20_l1a_bound": "forall (digest : vec -> dgst) (valid : vec -> bool), (forall a b : vec, digest a = digest b -> a = b) -> forall (c : config) (docs : list (N * vec * meta)) (ops : list op), 1 <= cap_a c -> 1 <= cap_b c -> length (l1a (run digest valid c (init docs) ops)) <= cap_a c /\\ length (l1b (run digest valid c (init docs) ops)) <= cap_b c",
    "C20_hot_bound_after_insert": "forall (digest : vec -> dgst) (valid : vec -> bool) (c : config) (s : state) (id : N) (v : vec) (m : meta), 1 <= hard c -> no_orphan s -> length (hot (fst (step digest valid c s (OInsert id v m)))) <= hard c",
    "C20_hot_bound_api": "forall (digest : vec -> dgst) (valid : vec -> bool), (forall a b : vec, digest a = digest b -> a = b) -> forall (c : config) (docs : list (N * vec * meta)) (ops : list op) (s : state) (id : N) (v : vec) (m : meta), 1 <= hard c -> run_guarded digest valid c (init docs) ops = Some s -> length (hot (fst (step digest valid c s (OInsert id v m)))) <= hard c",
}}


def qcache_stage(ctx):
    """Query-result cache bound on the real QueryHashCache: the C07 driver's cache-operation stream
    (seeded op sequences with len() observed after every step, capacities {1,2,4,12}); its direct oracle
    'len exceeds capacity' decides C20's clause; the correspondence of the same stream with Model/QCache.v
    (to which C20_qcache_bound applies) is evaluated by the C07 check."""
    ok, log = vlib.cargo_build(["c07"])
    if not ok:
        ctx.violation({"property": "C20", "kind": "harness-build-failed", "log_tail": log[-2000:]}, no_input=True)
        return
    out = os.path.join(vlib.CACHE, "run", "C20q")
    os.makedirs(out, exist_ok=True)
    n = 400 if ctx.tier == "quick" else 4000
    rc, o = vlib.sh([vlib.bin_path("c07"), "--out", out, "--n", str(n)], env={"VERIF_SEED": str(ctx.seed + 20)}, timeout=2400)
    ctx.log("driver_c07_for_c20.log", o)
    try:
        summ = json.load(open(os.path.join(out, "summary.json")))
    except Exception:
        ctx.violation({"property": "C20", "kind": "harness-crashed", "rc": rc, "log_tail": o[-2000:]}, no_input=True)
        return
    a = summ.get("A", {})
    h = a.get("histogram", {})
    ctx.cov["query_cache_bound"] = {"op_sequences": a.get("cases"), "len_observations": h.get("len"),
                                    "evicting_inserts": h.get("insert_evicting"), "invalidations_removing": (h.get("invalidate_doc_removing", 0) or 0) + (h.get("invalidate_for_insert_removing", 0) or 0),
                                    "oracle_failures": len(a.get("oracle_failures", []))}
    for f in a.get("oracle_failures", []):
        if "exceeds capacity" in str(f.get("why", "")):
            ctx.violation({"property": "C20", "kind": "oracle:query-cache-bound", "why": f.get("why"), "case": f.get("case"),
                           "replay_cmd": "./check C07 --replay <this file> (stream A case)"})
            return


def run(ctx):
    qcache_stage(ctx)
    if ctx.violations:
        return
    c04.drive(ctx, {
        "prop": "C20",
        "targets": ["Properties/C20.vo"],
        "theorems": THEOREMS,
        "pins": PINS,
        "kinds": ["l1-bound", "hot-bound", "read-mismatch", "cold-diverged", "harness-observation"],
        "nontrivial_key": "nontrivial_c20",
        "rule": "same seeded histories as C04 (public TieredEngine API + harness pokes; strategies LRU / learned / learned+semantic / A-B; capacities {1,2,8} per sub-cache; hard limit {1,2,4}; soft {1,2,3,100}); after EVERY op: each L1a sub-cache size (CacheStrategy::size, cross-checked with peek_cached over the id pool and TieredEngine::cache_size) <= its capacity, HotTier::len (cross-checked with stats().hot_tier_size) <= hard limit whenever an insert returns in a history without mirror pokes, every read equal to the shadow map of successful writes (evicted / drained documents stay readable), and the sizes are compared with the model inside coqc as part of the full-state correspondence. A history is non-trivial when it is distinct and contains an LRU eviction (an id left a sub-cache while another entered) or an emergency drain at the hard limit",
    })
