"""C02 — restart is lossless (DESIGN.md §3 C02, §3.2 Backend.Inv)."""
import json
import os
import shutil
import vlib

THEOREMS = {"Properties.C02": ["C02_restart_lossless", "C02_no_resurrection", "C02_delete_absent",
                               "C02_seq_monotone", "C02_restart_chain", "C02_invariant",
                               "C02_effects_exact", "C02_rejected_insert_harmless", "C02_nonvacuous"]}
PINS = {"Properties.C02": {
    "_preamble": "From Coq Require Import List NArith ZArith Bool. From Kyro Require Import Model.Amap Model.Backend Proofs.BackendProofs. Open Scope N_scope.",
    "C02_restart_lossless": "forall (c : cfg) (ops : list op), wf_cfg c = true -> norm_ok c -> let s := run c ops in exists s', recover c Strict (st_disk s) = Ok s' /\\ st_store s' = st_store s",
    "C02_restart_chain": "forall (c : cfg) (ops : list op) (n : nat), wf_cfg c = true -> norm_ok c -> st_store (run c (ops ++ repeat ORestart n)) = st_store (run c ops) /\\ exists s', recover c Strict (st_disk (run c (ops ++ repeat ORestart n))) = Ok s' /\\ st_store s' = st_store (run c ops)",
    "C02_no_resurrection": "forall (c : cfg) (ops : list op) (id : N), wf_cfg c = true -> norm_ok c -> let s := run c ops in exists s', recover c Strict (st_disk s) = Ok s' /\\ get (st_store s') id = get (st_store s) id",
    "C02_effects_exact": "forall (c : cfg) (s : state) (o : op) s' out effs, step c s o = (s', out, effs) -> st_disk s' = apply_effs (st_disk s) effs",
}}

RULE = ("seeded histories (4..38 ops + 2 trailing restarts) over insert/overwrite, delete, batch_delete with duplicates and "
        "absent ids, update_metadata merge|replace, create_snapshot, restart on the real HnswBackend (persistence, "
        "FsyncPolicy::Never) x grid metric{euclidean,cosine,innerproduct} x dim{1,3,8,17} x snapshot_interval{0,1,2,5,1000} "
        "x max_wal_size{1 (rotate after every append), 1 frame, 3 frames, 3 frames+1, disabled, 1GiB} x capacity{2,4,64}; "
        "id pool 4-8, vector pool of 19 per dimension (duplicates, near-duplicates, axis, tiny/huge norm, pre-normalised, "
        "in/out of tolerance, zero, sub-epsilon, wrong dimension, NaN, infinity, overflowing), metadata over 3 keys x 6 values; every outcome and, at "
        "restarts / every 4th op / the end, the census (exact f32 bits, sorted metadata) and the manifest shape are compared "
        "with Model/Backend.v inside coqc; a case is non-trivial when it is distinct and contains a successful restart after "
        "an overwrite or delete of a version that was logged before an earlier manifest change (snapshot, rotation, "
        "compaction or restart), i.e. the change straddles a snapshot/segment boundary")


def _parse_res(out):
    """-> (count, [(case id, op index)]) or None"""
    tags = vlib.parse_tagged(out)
    if "res" not in tags:
        return None
    body = tags["res"]
    cut = body.rfind(": N * list")
    if cut >= 0:
        body = body[:cut]
    nums = vlib.parse_numbers(body)
    if not nums:
        return None
    rest = nums[1:]
    return nums[0], [(rest[i], rest[i + 1]) for i in range(0, len(rest) - 1, 2)]


def _run_driver(ctx, out, n, seed, extra=(), timeout=2400):
    shutil.rmtree(out, ignore_errors=True)
    os.makedirs(out, exist_ok=True)
    args = [vlib.bin_path("c02"), "--out", out, "--n", str(n)] + list(extra)
    rc, o = vlib.sh(args, env={"VERIF_SEED": str(seed)}, timeout=timeout)
    summ = None
    try:
        summ = json.load(open(os.path.join(out, "summary.json")))
    except Exception:
        pass
    return rc, o, summ


def run(ctx):
    n = 300 if ctx.tier == "quick" else 6000
    ctx.trusted += [
        "ASSUMPTION norm_ok (explicit premise of every C02 theorem): normalize_in_place_if_needed on f32 bit patterns preserves the length and is bitwise idempotent; measured on every run through hook H5 (verif_normalize_in_place_if_needed) on every vector used, and end-to-end by exact bit comparison insert -> fetch -> restart -> fetch",
        "no premise on the operations: since /repo commit ca4513e insert pre-flights the index acceptance checks before the WAL append (former defect #1); the model's c_accepts predicate (all components finite; normalised norm_sq in [0.98,1.02] for cosine/inner product) is tied by the correspondence on NaN / infinite / overflowing pool vectors; vectors within 1.5% of the tolerance edge are kept out of the histories (SIMD summation order)",
        "Model/Backend.v is hand-written from hnsw_backend.rs / persistence.rs; its tie to the code is the kernel-evaluated correspondence of this check (outcomes, censuses, manifest shapes); not modelled: legacy seq_no=0 entries and timestamps, the HNSW graph, check_disk_space, WalErrorHandler retries/rollback, non-empty initial documents, Periodic(ms>0) timing",
        "file ids: the code uses the microsecond clock, the model the successor of the largest id in the directory (only their order is used); kill model of the file system (fsync effects are no-ops) - power loss is C01",
        "harness c02: error classification by message substrings ('dimension mismatch', 'norm is zero', 'index full'), metadata canonicalisation (sorted by key bytes), bincode frame size formula 52+4*dim+sum(16+|k|+|v|) checked only through rotation points (manifest shapes)",
    ]
    proofs_ok = ctx.proof_phase(["Properties/C02.vo"], THEOREMS, pins=PINS)

    ok, log = vlib.cargo_build(["c02"])
    ctx.log("cargo.log", log)
    if not ok:
        ctx.say("harness build failed")
        ctx.violation({"property": "C02", "kind": "harness-build-failed", "log_tail": log[-3000:],
                       "unchecked": "correspondence Model/Backend.v vs engine/src/hnsw_backend.rs + persistence.rs"}, no_input=True)
        return
    out = os.path.join(vlib.CACHE, "run", "C02")
    extra = ["--replay", ctx.replay, "--shrink"] if ctx.replay else []
    rc, o, summ = _run_driver(ctx, out, n, ctx.seed, extra)
    ctx.log("harness.log", o)
    if rc != 0 or summ is None:
        ctx.violation({"property": "C02", "kind": "harness-crashed", "rc": rc, "log_tail": o[-3000:]}, no_input=True)
        return
    allc = json.load(open(os.path.join(out, "all_cases.json")))
    shards = [open(os.path.join(out, "cases_%d.v" % i)).read() for i in range(summ["shards"])]
    res = vlib.coq_eval("C02", shards)
    bad, evaluated, coq_err = [], 0, []
    for i, (rc, o) in enumerate(res):
        pr = _parse_res(o) if rc == 0 else None
        if pr is None:
            coq_err.append({"shard": i, "rc": rc, "out": o[-1500:]})
            continue
        evaluated += pr[0]
        bad += pr[1]
    ctx.cov.update({
        "evaluations": summ["cases"],
        "distinct_nontrivial": summ["nontrivial"],
        "rule": RULE,
        "samples": summ["samples"][:2],
        "histogram": summ["histogram"],
        "operations_run": summ["ops"],
        "operations_succeeded": summ["ops_ok"],
        "traces_validated_against_impl": evaluated,
        "model_disagreements": len(bad),
        "oracle_failures": len(summ["oracle_failures"]),
        "norm_idempotence_vectors_checked": summ["norm_idem_checked"],
        "norm_idempotence_failures": len(summ["norm_idem_failures"]),
        "corpus_cases": summ.get("from_corpus", 0),
    })
    # --- decide
    if summ["oracle_failures"]:
        f = summ["oracle_failures"][0]
        sh = summ.get("shrunk") or {}
        ctx.violation({"property": "C02", "kind": "oracle", "why": sh.get("why") or f["why"],
                       "case": sh.get("case") or f["case"], "outcomes": sh.get("outcomes"),
                       "original_why": f["why"], "original_ops": len(f["case"]["ops"]),
                       "replay_cmd": "./check C02 --replay <this file>"})
        return
    broken = []
    if not proofs_ok:
        broken.append({"kind": "proof-obligations", "failed": ctx.failed_obligations})
    if coq_err:
        broken.append({"kind": "cases-evaluation-error", "detail": coq_err[:2]})
    if summ["norm_idem_failures"]:
        broken.append({"kind": "assumption-norm_ok-measured-false", "detail": summ["norm_idem_failures"][:3]})
    if bad:
        cid, opi = bad[0]
        broken.append({"kind": "correspondence", "disagreements": [{"case": c, "first_op": k} for c, k in bad[:20]],
                       "first_case": allc[cid] if cid < len(allc) else None, "first_op_index": opi})
    if not broken:
        return
    # search for a concrete failing input: more seeds, longer histories, oracle only
    ctx.say("proof/correspondence broken; widening the oracle search")
    found = None
    budget = 0
    for k, (nn, ml) in enumerate([(1500, 38), (1500, 90)]):
        rc, o, s2 = _run_driver(ctx, out + "_search", nn, ctx.seed + 7919 * (k + 1), ["--maxlen", str(ml)], timeout=1500)
        budget += nn
        if s2 and s2["oracle_failures"]:
            found = s2
            break
    shutil.rmtree(out + "_search", ignore_errors=True)
    if found:
        f = found["oracle_failures"][0]
        sh = found.get("shrunk") or {}
        ctx.violation({"property": "C02", "kind": "oracle", "why": sh.get("why") or f["why"],
                       "case": sh.get("case") or f["case"], "outcomes": sh.get("outcomes"), "broken": broken,
                       "replay_cmd": "./check C02 --replay <this file>"})
    else:
        ctx.violation({"property": "C02", "kind": "no-failing-input-found", "broken": broken,
                       "note": "the model and the implementation disagree, a theorem no longer checks or the measured assumption fails, but no history violating 'census after restart == census before restart == collection defined by the successful operations' was found in %d further seeded histories" % budget},
                      no_input=True)
