"""C03 — a write that reports failure changes nothing, now or after restart (DESIGN.md §3 C03).

Three layers, every run:
  1. proofs over Model/WalWriter.v (byte-level WalWriter with rollback / poisoning / retry /
     classification / breaker on top of the byte-level reader model; thin engine layer), for every
     fault oracle;
  2. writer-level correspondence: the real WalWriter under seeded fsshim faults; the shim's log of what
     every system call returned becomes the model's oracle and the comparison (result class, file
     bytes, counters, breaker, sequence of system calls, reader view) is evaluated inside coqc;
  3. the direct property oracle on the real engine (history x failing position x {invalid input class |
     storage fault}) and on TieredEngine::bulk_load_cold_tier with invalid items.
"""
import json
import os
import vlib
import perscheck

KNOWN = "C03-rollback-failed-after-complete-frame"

THEOREMS = {"Properties.C03": [
    "C03_wal_failure_atomic", "C03_wal_failure_prefix", "C03_ack_durable", "C03_reachable_inv",
    "C03_torn_tail_reads_as_complete_frames", "C03_no_ack_after_poison",
    "C03_invalid_input_no_effect", "C03_engine_failure_atomic", "C03_engine_history", "C03_others_untouched",
    "C03_complete_frame_leftover_refuted", "C03_complete_frame_leftover_batch_refuted",
    "C03_prefix_model_refuted", "C03_nonvacuous_short_enospc_failed_truncate",
    "C03_nonvacuous_retry_then_ack_and_breaker", "C03_premises_satisfiable"],
    "Properties.C03seg": [
    "C03_seg_appended_stays_recoverable", "C03_seg_snapshot_covers_only_captured", "C03_seg_writer_on_newest_listed",
    "C03_seg_listed_segments_exist", "C03_seg_step_preserves_invariant", "C03_seg_old_rotation_refuted", "C03_seg_nonvacuous"]}

SEG_PRE = "From Coq Require Import List NArith Bool. From Kyro Require Import Model.Segments Proofs.SegmentsProofs. Import ListNotations. Open Scope N_scope."
PINS = {"Properties.C03seg": {
    "_preamble": SEG_PRE,
    "C03_seg_appended_stays_recoverable": "forall ms s', mrun init ms = Some s' -> forall n, In n (log s') -> recoverable s' n = true",
    "C03_seg_writer_on_newest_listed": "forall ms s' a, mrun init ms = Some s' -> active s' = Some a -> lastN (man s') = Some a /\\ memN a (files s') = true",
    "C03_seg_listed_segments_exist": "forall ms s', mrun init ms = Some s' -> forallb (fun f => memN f (files s')) (man s') = true",
    "C03_seg_snapshot_covers_only_captured": "forall ms s' n, mrun init ms = Some s' -> In n (log s') -> n <= snap s' -> In n (captured s')",
}, "Properties.C03": {
    "_preamble": "From Coq Require Import List NArith Bool. From Kyro Require Import Model.WalBytes Proofs.WalBytesProofs Model.WalWriter Proofs.WalWriterProofs. Import ListNotations. Open Scope N_scope.",
    "C03_wal_failure_atomic": "forall (crc : bytes -> N) (pol : policy) (deser_ok : bytes -> bool), (forall p, crc p < 4294967296) -> forall (st : wstate) (es : list bytes) (op : wop) (orc : oracle) st' r orc', Inv crc deser_ok st es -> Forall (wfp deser_ok) (wpayloads op) -> wstep crc pol st op orc = (st', r, orc') -> is_failed r = true -> known_c03 crc pol st (wpayloads op) orc = false -> read_all_strict crc deser_ok (w_file (s_w st')) = read_all_strict crc deser_ok (w_file (s_w st)) /\\ read_all_strict crc deser_ok (w_file (s_w st)) = RdOk es /\\ Inv crc deser_ok st' es",
    "C03_no_ack_after_poison": "forall (crc : bytes -> N) (pol : policy) (ops : list wop) (st : wstate) (orc : oracle) st' rs orc', w_poisoned (s_w st) = true -> wrun crc pol st ops orc = (st', rs, orc') -> Forall (fun r => is_failed r = true) rs /\\ s_w st' = s_w st",
    "C03_invalid_input_no_effect": "forall (crc : bytes -> N) (pol : policy) (st : estate) (id : N) (c : icls) (body : bytes) (orc : oracle), c <> IValid -> estep crc pol st (OInsert id c body) orc = (st, EFail, orc)",
}}


def describe(f):
    if f.get("stream") == "writer":
        p = f.get("wplan", {})
        return "writer plan %s: %s" % (p.get("kind", "?"), f.get("why", ""))
    if f.get("stream") == "bulk":
        return "bulk plan %s: %s" % (f.get("bplan", {}).get("kind", "?"), f.get("why", ""))
    p = f.get("plan", {})
    return "engine plan fault=%s at op %s: %s" % (p.get("fault", ""), p.get("fault_at"), f.get("why", ""))


def eval_shards(ctx, out, tag):
    shards = []
    i = 0
    while os.path.exists(os.path.join(out, "cases_%d.v" % i)):
        shards.append(open(os.path.join(out, "cases_%d.v" % i)).read())
        i += 1
    res = vlib.coq_eval(tag, shards)
    bad, known, evaluated, coq_err = [], [], 0, []
    for k, (rc, o) in enumerate(res):
        tags = vlib.parse_tagged(o)
        if rc != 0 or "bad" not in tags or "count" not in tags or "known" not in tags:
            coq_err.append({"shard": k, "rc": rc, "out": o[-1200:]})
            continue
        bad += vlib.parse_numbers(tags["bad"].split(":")[0])
        known += vlib.parse_numbers(tags["known"].split(":")[0])
        evaluated += vlib.parse_numbers(tags["count"].split(":")[0])[0]
    return bad, known, evaluated, coq_err


def eval_seg_shards(ctx, out, tag):
    shards = []
    i = 0
    while os.path.exists(os.path.join(out, "segcases_%d.v" % i)):
        shards.append(open(os.path.join(out, "segcases_%d.v" % i)).read())
        i += 1
    res = vlib.coq_eval(tag, shards)
    bad, badop, evaluated, coq_err = [], [], 0, []
    for k, (rc, o) in enumerate(res):
        tags = vlib.parse_tagged(o)
        if rc != 0 or "segbad" not in tags or "segcount" not in tags:
            coq_err.append({"shard": k, "rc": rc, "out": o[-1200:]})
            continue
        bad += vlib.parse_numbers(tags["segbad"].split(":")[0])
        badop += vlib.parse_numbers(tags.get("segbadop", "").split(":")[0])
        evaluated += vlib.parse_numbers(tags["segcount"].split(":")[0])[0]
    return bad, badop, evaluated, coq_err


def tighten(fails, model_known):
    """A writer-level failure keeps the recorded class only if the MODEL, run on the oracle translated
    from the shim log, also places that plan in the class (known_c03 evaluated inside coqc)."""
    for f in fails:
        if f.get("stream") == "writer" and f.get("class") == KNOWN and f.get("plan_index") not in model_known:
            f["class"] = None
            f["why"] += " [harness classified it as the recorded class but the model's known_c03 does not]"
    return fails


def run(ctx):
    quick = ctx.tier == "quick"
    n, wn, bn = (150, 240, 40) if quick else (900, 0, 200)
    sh, scap = (5, 60) if quick else (40, 150)
    ctx.trusted += [
        "Model/WalWriter.v is a hand-written byte-level model of WalWriter::{append, append_batch, write_entry, perform_fsync, rollback_to_offset, rollback_to_stable_state, ensure_not_poisoned}, WalErrorHandler::{write_with_retry, classify_error}, the Closed/Open part of CircuitBreaker and the libstd loops underneath (write_all, cvt_r); it is tied to the real writer on every run by correspondence under injected faults, compared inside coqc: result class, file bytes, counters, breaker state, exact sequence of system calls, oracle consumed exactly",
        "premises of the theorems: crc p < 2^32 (met by the executable CRC-32, crc32m_lt) and, for every payload logged, 0 < size <= MAX_WAL_ENTRY_BYTES and bincode-decodable (wfp)",
        "shims/fsshim.c (LD_PRELOAD): injects the faults and logs what each write/fsync/fdatasync/ftruncate on the segment returned; the log is the model's fault oracle; lseek is not a fault point",
        "not modelled: circuit-breaker timed transitions (HalfOpen after 60 s, failure window expiry), FsyncPolicy::Periodic(ms>0), back-off sleeps, check_disk_space, MANIFEST existence test, segment rotation and snapshots at the engine layer of the model (covered by the direct oracle on the real engine, which rotates and snapshots); input validity is a class tag in the model (float arithmetic of the pre-flight is exercised on the real engine only)",
        "engine layer of the model: payload = bincode(WalEntry) whose first 12 bytes are the op variant (u32 LE) and doc_id (u64 LE) — checked on every observed payload; the live engine applies an entry exactly as recovery replays it (C02's subject)",
        "direct oracle streams: engine plans run the real HnswBackend (start-up decision replicated from kyrodb_server main), bulk plans run TieredEngine::bulk_load_cold_tier; drain repair is not reachable through the public API without an orphaned hot-tier mirror and is not driven",
    ]
    ctx.trusted += [
        "Model/Segments.v is a hand-written segment-level model of rotate_wal_if_needed, create_snapshot + compact_old_wal_segments, the create-push-save tail of with_persistence / recover and the three caller-visible outcomes of Manifest::save; it is tied to the real HnswBackend on every run: for rotation/snapshot-heavy histories EVERY single-fault position (n-th write / fsync / fdatasync / rename / open / unlink of every operation, capped per history by a seeded sample) is run under the fsshim, the effect log of each operation is translated into the model's micro-steps (harness/p/c03/src/seg.rs, trusted) and coqc compares the model state with the observed on-disk MANIFEST, segment files, their sequence numbers (engine's own WalReader) and the segment the live writer holds open (/proc/self/fd) after every operation",
        "segment model: appends are taken as observed (what a failing append leaves in the file is Model/WalWriter.v's subject); an append whose segment is compacted away within the same operation is not visible to the comparison; failures of reads (Manifest::load, WalReader) are outside the modelled fault class",
    ]
    proofs_ok = ctx.proof_phase(["Properties/C03.vo", "Properties/C03seg.vo"], THEOREMS, pins=PINS)
    ok, log = vlib.cargo_build(["c03"])
    ctx.log("cargo.log", log)
    if not ok:
        ctx.violation({"property": "C03", "kind": "harness-build-failed", "log_tail": log[-3000:],
                       "unchecked": "correspondence Model/WalWriter.v vs engine/src/persistence.rs; direct oracle"}, no_input=True)
        return
    args = ["--n", str(n), "--bn", str(bn), "--sh", str(sh), "--scap", str(scap)] + (["--wn", str(wn)] if quick else [])
    summ, fails = perscheck.run_driver(ctx, "c03", args)
    if summ is None:
        return
    out = os.path.join(vlib.CACHE, "run", "C03")
    bad, model_known, evaluated, coq_err = eval_shards(ctx, out, "C03")
    sbad, sbadop, sevaluated, scoq_err = eval_seg_shards(ctx, out, "C03seg")
    coq_err += scoq_err
    fails = tighten(fails, set(model_known))
    harness_known = {f["plan_index"] for f in fails if f.get("stream") == "writer" and f.get("class") == KNOWN}
    evaluations = summ["plans"] + summ["writer_plans"] + summ["bulk_plans"] + summ.get("segment_plans_run", 0)
    ctx.cov.update({
        "evaluations": evaluations,
        "distinct_nontrivial": summ["distinct_nontrivial"],
        "rule": "three seeded streams. (1) engine plans = history (<= 9 ops over 5 ids, rotation/snapshot/capacity knobs from boundary sets) x failing position x {invalid input class (NaN, inf, wrong dimension +-1, overflowing, zero/tiny norm, index full) | fsshim fault spec: n-th write/fsync/fdatasync/ftruncate/rename/open x errno in {ENOSPC,EIO,EDQUOT,EINTR,EACCES} x partial length, persistent faults outliving the retries, double faults in the rollback; every 9th plan pairs a late failure (fsync after a complete frame / second write of a batch) with a rollback fault}, each in its own process, oracle = live census and census after restart equal the specification of the acknowledged operations. (2) writer plans = fsync policy x call shape (single, batch of 2-3) x fault grid (write 1-3 x partial {none,0,1,5,17} | sync | persistent) x errno x {no rollback fault | ftruncate fault | rollback-fdatasync fault} + breaker plans, real WalWriter vs model inside coqc. (3) bulk_load_cold_tier with invalid items over existing ids. A plan is non-trivial when an operation / call / item actually FAILED in it; distinct = distinct (operations, fault, outcome classes) for engine plans, distinct (policy, translated oracle, result codes) for writer plans, distinct (config, items) for bulk plans — counted by the driver",
        "samples": summ.get("samples", [])[:2],
        "histogram": {"engine_plan_kinds": summ["plan_kinds"], "engine_outcomes": summ["outcomes"],
                      "errno_in_engine_plans": summ["errno_in_engine_plans"],
                      "writer_plan_kinds": summ["writer_plan_kinds"], "writer_results": summ["writer_results"],
                      "writer_injected_errors_kind:errno": summ["writer_injected_errors"],
                      "bulk_invalid_items": summ["bulk_invalid_items"]},
        "engine_plans": summ["plans"], "engine_plans_with_a_failed_operation": summ["plans_with_a_failed_operation"],
        "engine_fault_plans_that_reached_io": summ["fault_plans_that_reached_io"],
        "writer_plans": summ["writer_plans"], "writer_plans_with_a_failed_call": summ["writer_plans_with_a_failed_call"],
        "writer_syscalls_translated_into_oracle": summ["writer_syscalls_translated"],
        "bulk_plans": summ["bulk_plans"], "bulk_plans_with_a_failed_item": summ["bulk_plans_with_a_failed_item"],
        "segment_plans": summ.get("segment_plans", 0), "segment_plans_evaluated_in_coqc": sevaluated,
        "segment_model_disagreements": len(sbad), "segment_effects_translated": summ.get("segment_effects_translated", 0),
        "segment_micro_steps": summ.get("segment_micro_steps", {}), "segment_plan_kinds": summ.get("segment_plan_kinds", {}),
        "traces_validated_against_impl": evaluated + sevaluated, "model_disagreements": len(bad) + len(sbad),
        "plans_in_recorded_class_by_model": len(model_known), "plans_in_recorded_class_by_harness": len(harness_known),
        "oracle_failures": len(fails),
    })
    unknown = perscheck.report_failures(ctx, fails, describe)
    if unknown:
        return
    broken = []
    if not proofs_ok:
        broken.append({"kind": "proof-obligations", "failed": ctx.failed_obligations})
    if coq_err:
        broken.append({"kind": "cases-evaluation-error", "detail": coq_err[:2]})
    if bad:
        allc = {}
        try:
            allc = {c["id"]: c["wplan"] for c in json.load(open(os.path.join(out, "all_cases.json")))}
        except Exception:
            pass
        broken.append({"kind": "writer-correspondence", "disagreeing_plan_ids": bad[:20],
                       "first_plan": {"wplan": allc.get(bad[0])}})
    if sbad:
        allc = {}
        try:
            allc = {c["id"]: c["splan"] for c in json.load(open(os.path.join(out, "seg_cases.json")))}
        except Exception:
            pass
        broken.append({"kind": "segment-correspondence", "disagreeing_plan_ids": sbad[:20], "first_differing_operation_index_plus_one": sbadop[:20],
                       "note": "Model/Segments.v and the real directory differ after this operation (index 0 = the initial start)",
                       "first_plan": {"splan": allc.get(sbad[0])}})
    if sevaluated == 0 and not scoq_err and not ctx.replay:
        broken.append({"kind": "no-segment-plan-evaluated"})
    if set(model_known) - harness_known:
        broken.append({"kind": "recorded-class-mismatch", "note": "the model places these writer plans in the recorded class but the real reader's view did not change", "plan_ids": sorted(set(model_known) - harness_known)[:20]})
    if evaluated == 0 and not coq_err and not ctx.replay:
        broken.append({"kind": "no-writer-plan-evaluated"})
    if broken:
        ctx.say("proof/correspondence broken; widening the search (more engine plans, full writer fault grid)")
        saved = ctx.tier
        ctx.tier = "thorough"
        try:
            summ2, fails2 = perscheck.run_driver(ctx, "c03", ["--n", "600", "--bn", "120"], timeout=3000)
        finally:
            ctx.tier = saved
        if fails2 is not None:
            bad2, known2, ev2, err2 = eval_shards(ctx, out, "C03w")
            fails2 = tighten(fails2, set(known2))
            ctx.cov["widened_search"] = {"engine_plans": summ2["plans"], "writer_plans": summ2["writer_plans"], "bulk_plans": summ2["bulk_plans"],
                                         "oracle_failures": len(fails2), "model_disagreements": len(bad2)}
            if perscheck.report_failures(ctx, fails2, describe):
                return
        ctx.violation({"property": "C03", "kind": "no-failing-input-found", "broken": broken,
                       "note": "a theorem no longer checks, or the writer model and the real WalWriter disagree under injected faults, but no plan outside the recorded class was found in which a failed operation changes the live collection, the collection after restart or what the strict reader returns (widened to the full writer fault grid and 600 engine plans)"},
                      no_input=True)
