"""C17 — unsafe index and SIMD code stays in bounds (DESIGN.md §3 C17; PARTIAL).

regenerate coq/gen/{Simd,Packed,Guards}_gen.v from /repo (harness/p/xl17, fails closed) -> proofs over the
regenerated models + the hand model of the search loops -> driver c17 on the real code (H4 asserts active,
every SIMD kernel forced in turn on slices that end at a guard page, all lens) -> decide with the VIOLATION
protocol.  ASan / guard pages / H4 asserts are the search for a failing input, never the proof."""
import json
import os
import re
import shutil
import vlib

THEOREMS = {"Properties.C17": [
    "C17_simd_in_bounds", "C17_simd_local_stores", "C17_simd_dispatch",
    "C17_packed_layout", "C17_packed_append", "C17_packed_in_bounds", "C17_packed_checked_twin", "C17_visited_bitset",
    "C17_search_guard", "C17_insert_search_guard", "C17_neighbor_selection_guard", "C17_search_in_bounds",
    "C17_guards_complete", "C17_nonvacuous_layout", "C17_nonvacuous_search", "C17_nonvacuous_simd"]}
PINS = {"Properties.C17": {
    "_preamble": "From Coq Require Import NArith List Bool String. From Kyro Require Import Model.Strided Model.PackedBase Model.Packed gen.Simd_gen gen.Packed_gen gen.Guards_gen Proofs.C17Proofs. Import ListNotations. Open Scope N_scope.",
    "C17_simd_in_bounds": "forall kernel len, In kernel Simd_gen.kernels -> Forall (fun '(o, w) => o + w <= len) (accesses kernel len)",
    "C17_packed_in_bounds": "forall s n rd nd d idx, pl0_wf s n -> d < n -> idx < PackedLevel0_cap s -> "
        "Forall (fun a => pacc_ok a = true) (m_accs (PackedLevel0_count_unchecked s rd nd d)) /\\ "
        "Forall (fun a => pacc_ok a = true) (m_accs (PackedLevel0_neighbor_unchecked s rd nd d idx)) /\\ "
        "Forall (fun a => pacc_ok a = true) (m_accs (PackedLevel0_vector_at_unchecked s rd nd d)) /\\ "
        "In (mk_pacc true arr_PackedLevel0_data (d * PackedLevel0_record_words s + PackedLevel0_vector_offset_words s) (PackedLevel0_dimension s) (PackedLevel0_data_len s)) (m_accs (PackedLevel0_vector_at_unchecked s rd nd d)) /\\ "
        "Forall (fun a => pacc_ok a = true) (m_accs (PackedLevel0_record_ptr s rd nd d))",
    "C17_visited_bitset": "forall s rd nd nc t d, d < nc -> d < 4294967296 -> let s' := m_state (FlatSearchScratch_prepare s rd nd nc t) in "
        "Forall (fun a => pacc_ok a = true) (m_accs (FlatSearchScratch_mark_if_unvisited_unchecked s' rd nd d)) /\\ m_state (FlatSearchScratch_mark_if_unvisited_unchecked s' rd nd d) = s'",
    "C17_search_guard": "forall w o fuel layers e0, 0 < w_nc w -> Forall (fun e => ev_okb w e = true) (search_fp32 w o fuel layers e0)",
    "C17_guards_complete": "Guards_gen.all_sites_guarded = true /\\ covers Guards_gen.site_pairs model_sites = true /\\ covers model_sites Guards_gen.site_pairs = true /\\ "
        "Guards_gen.len_invariant_structure_ok = true /\\ Guards_gen.dimension_guards_ok = true",
}}
GEN_DIR = os.path.join(vlib.CACHE, "gen")
ASAN_TARGET = os.path.join(vlib.CACHE, "target-asan")
ASAN_BIN = os.path.join(ASAN_TARGET, "x86_64-unknown-linux-gnu", "debug", "c17")


def regenerate(ctx):
    """Build xl17 (+ the driver in the same cargo invocation) and run it. Returns (ok, reports, text)."""
    ok, log = vlib.cargo_build(["xl17", "c17"])
    ctx.both_built = ok
    if not ok:
        ok2, log2 = vlib.cargo_build(["xl17"])
        log += "\n--- xl17 alone ---\n" + log2
        ok = ok2
    ctx.log("cargo_xl17.log", log)
    if not ok:
        return False, {}, "xl17 build failed:\n" + log[-2000:]
    with vlib.FileLock("regen-c17"):
        rc, out = vlib.sh([vlib.bin_path("xl17"), "all", "--repo", vlib.REPO, "--out", os.path.join(vlib.COQ, "gen"),
                           "--report-dir", GEN_DIR], timeout=180)
    ctx.log("xl17.log", out)
    reps = {}
    for name in ("Simd_gen", "Packed_gen", "Guards_gen"):
        try:
            reps[name] = json.load(open(os.path.join(GEN_DIR, name + ".json")))
        except Exception:
            reps[name] = None
    good = rc == 0 and all(r and r.get("ok") is True for r in reps.values())
    return good, reps, out


SIMD_DIAG = r"""
From Coq Require Import NArith List Bool String.
From Kyro Require Import Model.Strided gen.Simd_gen.
Import ListNotations.
Open Scope N_scope.
Definition bad_lens (f : N -> list access) : list N :=
  filter (fun len => negb (forallb (in_boundsb len) (f len))) (map N.of_nat (seq 0 301)).
Definition first_bad (f : N -> list access) : option (N * list access) :=
  match bad_lens f with [] => None | len :: _ => Some (len, filter (fun a => negb (in_boundsb len a)) (f len)) end.
Goal True. idtac "@@simd_model_bad". Abort.
Eval vm_compute in (map (fun k => (fst k, first_bad (snd k))) kernels).
Goal True. idtac "@@simd_local_bad". Abort.
Eval vm_compute in (map (fun k => (fst k, forallb local_ok (snd k 64))) local_stores).
Goal True. idtac "@@end". Abort.
"""

PACKED_DIAG = r"""
From Coq Require Import NArith List Bool String.
From Kyro Require Import Model.Strided Model.PackedBase gen.Packed_gen.
Import ListNotations.
Open Scope N_scope.
Definition rd0 (a i : N) : N := 4294967295.
Definition nd0 (_ : N) : bool := false.
Fixpoint pushn (k : nat) (s : PackedLevel0) : PackedLevel0 :=
  match k with O => s | S k' => pushn k' (m_state (PackedLevel0_push_node s rd0 nd0 (PackedLevel0_dimension s))) end.
Definition okl (l : list pacc) : bool := forallb pacc_ok l.
Definition probe (cap dim : N) (n : nat) : list (N * N * N * N * N) :=
  let s := pushn n (PackedLevel0_new cap dim) in
  flat_map (fun d => flat_map (fun idx =>
    if okl (m_accs (PackedLevel0_count_unchecked s rd0 nd0 d)) && okl (m_accs (PackedLevel0_neighbor_unchecked s rd0 nd0 d idx))
       && okl (m_accs (PackedLevel0_vector_at_unchecked s rd0 nd0 d)) && okl (m_accs (PackedLevel0_record_ptr s rd0 nd0 d))
       && okl (m_accs (PackedLevel0_push_node s rd0 nd0 dim))
    then [] else [(cap, dim, N.of_nat n, d, idx)])
    (map N.of_nat (seq 0 (N.to_nat (PackedLevel0_cap s))))) (map N.of_nat (seq 0 n)).
Goal True. idtac "@@packed_model_bad". Abort.
Eval vm_compute in (firstn 3 (flat_map (fun cap => flat_map (fun dim => flat_map (fun n => probe cap dim n) [1%nat; 2%nat; 5%nat])
                                                          [1; 3; 7; 15; 16; 17; 128]) [1; 2; 8; 14; 15; 16; 33; 128])).
Goal True. idtac "@@bitset_model_bad". Abort.
Eval vm_compute in (firstn 3 (flat_map (fun nc => flat_map (fun d =>
    let s := m_state (FlatSearchScratch_prepare FlatSearchScratch_default rd0 nd0 nc 16) in
    if okl (m_accs (FlatSearchScratch_mark_if_unvisited_unchecked s rd0 nd0 d)) then [] else [(nc, d)])
    (map N.of_nat (seq 0 (N.to_nat nc)))) [1; 2; 63; 64; 65; 127; 128; 129; 200])).
Goal True. idtac "@@end". Abort.
"""


def model_counterexamples(ctx):
    """Concrete failing points of the REGENERATED models (evaluated by coqc), used to direct the search."""
    res = {}
    rc, out = vlib.coq_script(SIMD_DIAG, "c17_simd_diag", timeout=300)
    ctx.log("diag_simd.log", out)
    tags = vlib.parse_tagged(out)
    simd_bad = []
    if "simd_model_bad" in tags:
        for m in re.finditer(r'\("(\w+)"(?:%string)?,\s*Some\s*\((\d+),\s*\[([^\]]*)\]', tags["simd_model_bad"]):
            simd_bad.append({"kernel": m.group(1), "len": int(m.group(2)), "out_of_bounds_accesses_offset_width": m.group(3).strip()[:200]})
        res["simd_model_evaluated"] = True
    else:
        res["simd_model_evaluated"] = False
        res["simd_diag_error"] = out[-600:]
    res["simd"] = simd_bad
    if "simd_local_bad" in tags:
        res["simd_local_arrays_bad"] = re.findall(r'\("(\w+)"(?:%string)?,\s*false\)', tags["simd_local_bad"])
    rc, out = vlib.coq_script(PACKED_DIAG, "c17_packed_diag", timeout=300)
    ctx.log("diag_packed.log", out)
    tags = vlib.parse_tagged(out)
    if "packed_model_bad" in tags:
        res["packed_model_evaluated"] = True
        res["packed"] = [dict(zip(("cap", "dimension", "nodes", "dense_id", "idx"), map(int, t)))
                         for t in re.findall(r"\((\d+),\s*(\d+),\s*(\d+),\s*(\d+),\s*(\d+)\)", tags["packed_model_bad"])]
        res["bitset"] = [dict(zip(("node_count", "dense_id"), map(int, t)))
                         for t in re.findall(r"\((\d+),\s*(\d+)\)", tags.get("bitset_model_bad", ""))]
    else:
        res["packed_model_evaluated"] = False
        res["packed_diag_error"] = out[-600:]
    return res


def run_driver(ctx, out, n, seed, part="all", replay=None, binary=None, timeout=1500, env_extra=None):
    shutil.rmtree(out, ignore_errors=True)
    os.makedirs(out, exist_ok=True)
    args = [binary or vlib.bin_path("c17"), "--out", out, "--n", str(n), "--part", part]
    if replay:
        args += ["--replay", replay]
    env = {"VERIF_SEED": str(seed)}
    if env_extra:
        env.update(env_extra)
    rc, o = vlib.sh(args, env=env, timeout=timeout)
    summ = None
    try:
        summ = json.load(open(os.path.join(out, "summary.json")))
    except Exception:
        pass
    return rc, o, summ


def asan_build(ctx):
    """Thorough tier only: the driver rebuilt with AddressSanitizer on nightly (build-std, offline)."""
    cmd = ("cd %s && RUSTFLAGS='--cfg kyrodb_verif -Zsanitizer=address' cargo +nightly build -Zbuild-std "
           "--target x86_64-unknown-linux-gnu --offline -p kvh-c17 --target-dir %s" % (vlib.HARNESS, ASAN_TARGET))
    with vlib.FileLock("cargo-asan"):
        rc, out = vlib.sh(cmd, timeout=1800)
    ctx.log("cargo_asan.log", out)
    return rc == 0 and os.path.exists(ASAN_BIN), out


def run(ctx):
    n = 300 if ctx.tier == "quick" else 4000
    ctx.trusted += [
        "harness/p/xl17 (syn 2 parser + three extractors): simd — loop bounds, strides and pointer-offset expressions of every unsafe fn of simd.rs (fails closed on any pointer arithmetic, memory intrinsic or control flow outside its patterns, and on any unsafe fn it did not translate); packed — every method of PackedLevel0 / LayerAdjacency / FlatSearchScratch as a function over scalar fields and Vec lengths returning its accesses (fails closed on unknown statements touching a tracked Vec; untranslated methods must be provably length-preserving safe code); guards — dominating-guard search for every argument of every call of an unsafe fn in ann_backend.rs (none found => exit 2 and GNone in Guards_gen.v)",
        "usize arithmetic in the regenerated models is unbounded N except subtraction (wrapping) and saturating_*/as-casts; every modelled offset is proved <= the array length, so no modelled offset computation overflowed",
        "the *_entry wrappers pass a.len() as `len` (checked by the extractor) and only debug_assert a.len()==b.len(): equal slice lengths are established by the callers — query.len()==dimension before search_with_cancel, embedding.len()==flat.dimension before the first distance of an insert, stored vectors always `dimension` words — checked structurally by the extractor (Guards_gen.dimension_guards_ok), not proved",
        "Model/Packed.v is a hand model of the search loops (oracle = heap order, float distances, cancellation, contents of the bounds-checked upper-layer lists); it is tied to the source by (i) reading counts/neighbour ids through the REGENERATED accessors over an arbitrary array, (ii) Guards_gen: every unsafe call site has a recognised dominating guard and the set of (function, callee) pairs equals the set the model covers, (iii) the H4 precondition asserts running inside the real loops in the driver",
        "FlatGraph::len() (dense_to_origin.len()) <= level0.len(): level0.push_node precedes the only dense_to_origin.push with no exit between, new_single is the only constructor (checked structurally, Guards_gen.len_invariant_structure_ok); H4 asserts re-check it at run time",
        "NOT covered by any theorem: use-after-free, aliasing / re-entrancy of the thread-local FLAT_SEARCH_SCRATCH, data races between concurrent readers and a writer (RwLock discipline), alignment, validity of the values read, the aarch64 NEON kernels on real hardware (translated and proved, not run: the host is x86_64), `ptr.add` of the prefetch lookahead past the last record (pointer arithmetic only, no access)",
        "driver harness/p/c17: compiles the CURRENT text of simd.rs into itself (build.rs) to force every kernel; the engine's own compiled kernels run only through the dispatch the CPU selects (AVX-512 on this host)",
    ]
    broken = []
    # ---- 1. regenerate the models from /repo
    gen_ok, reps, gen_out = regenerate(ctx)
    last = [l for l in gen_out.strip().split("\n") if l.strip()]
    ctx.say("xl17: %s" % (" | ".join(l.strip()[:140] for l in last[-3:]) if last else "no output"))
    if not gen_ok:
        detail = {k: ({"line": v.get("line"), "construct": v.get("construct"), "message": v.get("message"), "none_found": v.get("none_found"),
                       "len_invariant": v.get("len_invariant"), "dimension": {k2: v2 for k2, v2 in (v.get("dimension") or {}).items() if k2 != "kernel_call_sites"},
                       "dispatch_ok": v.get("dispatch_ok")} if v and v.get("ok") is not True else "ok") for k, v in reps.items()}
        broken.append({"kind": "translator-failed-closed", "detail": detail, "output_tail": gen_out[-1500:],
                       "unchecked": "a model could not be regenerated from the current source (or a call site of an unchecked accessor has no recognisable guard); theorems over that model were last proved on a stale file"})
    # ---- 2. proofs over the regenerated models
    proofs_ok = ctx.proof_phase(["Properties/C17.vo"], THEOREMS, pins=PINS)
    ctx.say("proof phase: %d/%d obligations" % (ctx.discharged, ctx.obligations))
    if not proofs_ok:
        broken.append({"kind": "proof-obligations", "failed": ctx.failed_obligations})

    # ---- 3. the real code
    if getattr(ctx, "both_built", False):
        ok, log = True, "built together with xl17 (see cargo_xl17.log)"
    else:
        ok, log = vlib.cargo_build(["c17"])
    ctx.log("cargo.log", log)
    if not ok:
        ctx.say("harness build failed")
        ctx.violation({"property": "C17", "kind": "harness-build-failed", "log_tail": log[-3000:], "broken": broken,
                       "unchecked": "H4-assert / guard-page sweep on the real code"}, no_input=True)
        return
    out = os.path.join(vlib.CACHE, "run", "C17", "main")
    replay_case = None
    if ctx.replay:
        try:
            rj = json.load(open(ctx.replay))
            c = rj.get("case", rj)
            if isinstance(c, dict) and ("ops" in c or "kernel" in c or "family" in c):
                replay_case = c
        except Exception:
            pass
        if replay_case is None:
            ctx.notes.append("replay file holds no driver case (a no-failing-input replay): running the full check")
    rc, o, summ = run_driver(ctx, out, n, ctx.seed, replay=ctx.replay if replay_case is not None else None)
    ctx.log("harness.log", o)
    if rc != 0 or summ is None or summ.get("driver_broken"):
        ctx.violation({"property": "C17", "kind": "harness-crashed", "rc": rc, "driver_broken": (summ or {}).get("driver_broken"),
                       "log_tail": o[-3000:], "broken": broken}, no_input=True)
        return
    ctx.say(o.strip().split("\n")[-1][:300])

    asan = "not run (quick tier)"
    asan_fail = []
    if ctx.tier == "thorough" and replay_case is None:
        built = os.path.exists(ASAN_BIN)
        if not built:
            built, alog = asan_build(ctx)
        if built:
            arc, ao, asumm = run_driver(ctx, out + "_asan", 200, ctx.seed + 1, binary=ASAN_BIN, timeout=3000,
                                        env_extra={"ASAN_OPTIONS": "detect_leaks=0:abort_on_error=1"})
            ctx.log("harness_asan.log", ao)
            if asumm is not None:
                asan = {"cases": asumm.get("cases"), "simd_calls": asumm.get("simd_calls"), "oracle_failures": len(asumm.get("oracle_failures", []))}
                asan_fail = asumm.get("oracle_failures", [])
            else:
                asan = "AddressSanitizer build ran but produced no summary (rc %s): %s" % (arc, ao[-300:])
        else:
            asan = "AddressSanitizer build (nightly, -Zbuild-std, offline) did not complete within 30 min on this host; thorough = more seeds + guard pages"

    sk = reps.get("Simd_gen") or {}
    pk = reps.get("Packed_gen") or {}
    gk = reps.get("Guards_gen") or {}
    n_k, n_m, n_s = sk.get("kernel_count") or 0, pk.get("methods_translated") or 0, gk.get("site_count") or 0
    ctx.cov.update({
        "evaluations": summ["cases"] + summ.get("simd_calls", 0),
        "distinct_nontrivial": summ["nontrivial"],
        "rule": "index family: seeded boundary-biased op sequences on HnswVectorIndex / HnswBackend (dimension 1..130 biased to 1,3,7,8,9,15,16,17,31,32,33,63,64,65,127,128,129; M 1..64; capacity 1..4096 mostly small; k/ef 1..10_000(+1); duplicate vectors and ids, wrong dimensions, inserts beyond capacity, batches below and above the sequential threshold, deletes + compaction rebuilds, pre-cancelled flag, two indexes of very different size alternating on one thread so the thread-local scratch is reused with a smaller node count) with the H4 precondition asserts active — a case is non-trivial when it is distinct and a search ran on a graph of >= 2 nodes (the unchecked accessors executed); "
                "simd family: every *_entry kernel of simd.rs (scalar, SSE2, AVX2, AVX-512; compiled from the current source text) x every len 0..130 and 255..257, 511..513, 1023..1025 x three placements (slice ends at the end of an exactly-sized heap block; ends at a PROT_NONE guard page; starts right after one), result compared exactly (dyadic inputs) with an f64 reference — a (kernel, len) pair is non-trivial when len is not a multiple of the lane width; plus the engine's own dispatch for every dimension 1..130 with the query ending at a guard page",
        "samples": summ.get("samples", [])[:2],
        "histogram": {k: v for k, v in list(summ.get("histogram", {}).items()) if not k.startswith("dim:")} | {"dims_distinct": len([k for k in summ.get("histogram", {}) if k.startswith("dim:")])},
        "index_cases": summ["cases"], "index_cases_nontrivial": summ.get("nontrivial_index_cases"),
        "simd_calls": summ.get("simd_calls"), "simd_kernels_forced": summ.get("simd_kernels"), "simd_lens": summ.get("simd_lens"),
        "simd_pairs_nontrivial": summ.get("nontrivial_simd_pairs"),
        "h4_asserts_active": summ.get("h4_active"),
        "oracle_failures": len(summ.get("oracle_failures", [])),
        "other_panics": summ.get("other_panic_count", 0),
        "translation_programs": n_k + n_m + n_s,
        "translator": ({"simd_kernels": n_k, "simd_access_sites": sk.get("accesses_total"), "kernel_names": [k["name"] for k in sk.get("kernels", [])],
                        "dispatch_tables_checked": len(sk.get("dispatch", [])),
                        "packed_methods": n_m, "packed_access_sites": pk.get("accesses_total"),
                        "packed_methods_accepted_untranslated": [s["name"] + "::" + m["name"] for s in pk.get("structs", []) for m in s["methods"] if not m["translated"]],
                        "guarded_arguments": n_s, "unsafe_fns": gk.get("unsafe_fns"),
                        "guard_kinds": {k: sum(1 for s in gk.get("sites", []) if s["guard"] == k) for k in sorted({s["guard"] for s in gk.get("sites", [])})},
                        "len_invariant": gk.get("len_invariant"), "dimension_guards": {k: v for k, v in (gk.get("dimension") or {}).items() if k != "kernel_call_sites"}}
                       if gen_ok else {"failed_closed": True}),
        "address_sanitizer": asan,
    })
    if summ.get("other_panics"):
        ctx.notes.append("panics that are not bounds/H4 failures were seen (reported, not failed): %s" % json.dumps(summ["other_panics"][:2])[:600])
    if summ.get("simd", {}).get("unknown_entries"):
        broken.append({"kind": "driver-kernel-table-incomplete", "detail": summ["simd"]["unknown_entries"]})

    # ---- 4. decide
    fails = summ.get("oracle_failures", []) or asan_fail
    if fails:
        f = fails[0]
        ctx.violation({"property": "C17", "kind": "oracle", "why": f.get("why") or f.get("kind"), "failure": {k: v for k, v in f.items() if k != "case"},
                       "case": f.get("case"), "broken": broken, "under_address_sanitizer": bool(asan_fail) and not summ.get("oracle_failures"),
                       "replay_cmd": "./check C17 --replay <this file>"})
        return
    if replay_case is not None and not broken:
        return
    if broken:
        # search: (a) where do the regenerated MODELS go out of bounds (evaluated by coqc) — directs the search and is
        # reported either way; (b) a wider, differently seeded sweep of the real code (all kernels x all lens with guard
        # pages again + 10x the index sequences with the H4 asserts)
        ctx.say("something no longer checks (%s); searching for a concrete failing input" % ", ".join(b["kind"] for b in broken))
        mc = model_counterexamples(ctx)
        found = []
        for i, (nn, seed) in enumerate(((3000, ctx.seed + 7919), (3000, ctx.seed + 104729))):
            rc2, o2, s2 = run_driver(ctx, out + "_search%d" % i, nn, seed)
            ctx.log("harness_search%d.log" % i, o2)
            if s2 and s2.get("oracle_failures"):
                found = s2["oracle_failures"]
                break
        if found:
            f = found[0]
            ctx.violation({"property": "C17", "kind": "oracle", "why": f.get("why") or f.get("kind"), "failure": {k: v for k, v in f.items() if k != "case"},
                           "case": f.get("case"), "broken": broken, "model_counterexamples": mc, "replay_cmd": "./check C17 --replay <this file>"})
        else:
            ctx.violation({"property": "C17", "kind": "no-failing-input-found", "broken": broken, "theorems": THEOREMS["Properties.C17"],
                           "model_counterexamples": mc,
                           "searched": "%d + 6000 seeded index sequences with the H4 asserts active and 3 x %s kernel/len/placement evaluations with guard pages on the real code" % (summ["cases"], summ.get("simd_calls")),
                           "note": "the translator failed closed, a theorem over a regenerated model no longer checks, or a call site of an unchecked accessor has no recognisable guard — but no out-of-bounds precondition failure, fault or wrong kernel result was observed on the real code (model_counterexamples lists where the regenerated model itself leaves the array, if it does)"},
                          no_input=True)
