"""C10 — tenants are isolated end to end (DESIGN.md §3 C10).

Proof phase: Properties/C10.vo (noninterference by unwinding on Model/Server.v, Search containment,
reserved keys, refusal of unauthenticated calls, the two count witnesses).
Tie: harness/p/c10 drives the REAL kyrodb_server binary (harness/p/srv) with seeded multi-tenant scripts;
every response is canonicalised and (i) checked against Model/Server.v inside coqc (vm_compute),
(ii) checked by the direct oracles: refusals, reserved keys, Search containment against a census, and
the same script with tenant B's calls removed against a fresh server (A's answers must not change).
Known input classes (classified by the driver on the specific difference, never by property id):
  C10-search-count-depends-on-other-tenants   Search/BulkSearch hit list / total_found of A changes with B's documents
  C10-flush-count-is-process-wide             FlushHotTier.documents_flushed of A changes with B's writes
"""
import json
import os
import vlib
from checks import _translator

THEOREMS = {"Properties.C10gen": ["C10_generated_tenant_ids_match_model", "C10_generated_tenant_ids_round_trip",
                                  "C10_generated_range_check", "C10gen_nonvacuous"],
            "Properties.C10": ["C10_noninterference", "C10_tenant_index_stable_across_restart", "C10_tenant_index_dedup", "C10_other_tenant_step_invisible",
                               "C10_search_containment", "C10_bulk_search_containment",
                               "C10_search_count_refuted", "C10_flush_count_refuted",
                               "C10_reserved_keys", "C10_unauthenticated_refused", "C10_nonvacuous"]}
PINS = {"Properties.C10": {
    "_preamble": "From Coq Require Import List NArith ZArith Bool String. From Kyro Require Import Model.Server Proofs.ServerProofs Proofs.ServerNI Proofs.TenantMapProofs. Open Scope N_scope.",
    "C10_noninterference": "forall (idx_str : N -> str) (score : Z -> Z), (forall a b, idx_str a = idx_str b -> a = b) -> forall (cfg : config) (A B : N) (cs : list call), (forall k ki, nget (c_keys cfg) k = Some ki -> k_tenant ki = A -> k_admin ki = false) -> A <> B -> responses_of cfg A cs (run idx_str score cfg cs) = responses_of cfg A (remove_tenant cfg B cs) (run idx_str score cfg (remove_tenant cfg B cs))",
    "C10_tenant_index_stable_across_restart": "forall (first_keys : list str) (later : list (list str)), let m0 := tmap_create first_keys in let m := fold_left tmap_ensure_all later m0 in tm_ok m /\\ (forall t i, tm_get m0 t = Some i -> tm_get m t = Some i) /\\ (forall t, tm_get m t = None -> tm_get (tmap_ensure m t) t = Some (tlen m) /\\ (forall t' i, tm_get m t' = Some i -> i <> tlen m /\\ tm_get (tmap_ensure m t) t' = Some i))",
    "C10_unauthenticated_refused": "forall idx_str score cfg s c, (c_key c = None \\/ (exists k, c_key c = Some k /\\ nget (c_keys cfg) k = None) \\/ (exists k ki, c_key c = Some k /\\ nget (c_keys cfg) k = Some ki /\\ k_enabled ki = false)) -> step idx_str score cfg s c = (s, Err (if is_http (c_req c) then Http401 else Unauthenticated))",
},
    "Properties.C10gen": {
    "_preamble": "From Coq Require Import NArith Bool. From Kyro Require Import Model.Server gen.TenantId_gen Proofs.TenantIdGenProofs. Open Scope N_scope.",
    "C10_generated_tenant_ids_match_model": "forall t l g, t < 4294967296 -> g < 18446744073709551616 -> TenantId_gen.to_global_doc_id t l = Server.to_global_doc_id t l /\\ TenantId_gen.is_tenant_doc_id t g = Server.is_tenant_doc_id t g /\\ TenantId_gen.to_local_doc_id g = Server.to_local_doc_id g",
    "C10_generated_tenant_ids_round_trip": "forall t l g, t < 4294967296 -> l < 4294967296 -> TenantId_gen.to_global_doc_id t l = Some g -> TenantId_gen.to_local_doc_id g = l /\\ (forall t', t' < 4294967296 -> TenantId_gen.is_tenant_doc_id t' g = (t =? t')) /\\ g < 18446744073709551616",
}}
KNOWN_IDS = ["C10-search-count-depends-on-other-tenants", "C10-flush-count-is-process-wide"]


def _run_driver(ctx, out, n, seed, threads=6, replay=None):
    os.makedirs(out, exist_ok=True)
    for f in os.listdir(out):
        p = os.path.join(out, f)
        if os.path.isfile(p):
            os.remove(p)
    args = [vlib.bin_path("c10"), "--out", out, "--n", str(n), "--threads", str(threads)]
    if replay:
        args += ["--replay", replay]
    rc, o = vlib.sh(args, env={"VERIF_SEED": str(seed)}, timeout=3000)
    return rc, o


def _coq(prop_tag, out, summ):
    shards = [open(os.path.join(out, "cases_%d.v" % i)).read() for i in range(summ["shards"])]
    res = vlib.coq_eval(prop_tag, shards, timeout=1500)
    bad, calls, cases, errs = [], 0, 0, []
    for i, (rc, o) in enumerate(res):
        tags = vlib.parse_tagged(o)
        if rc != 0 or "bad" not in tags or "count" not in tags or "calls" not in tags:
            errs.append({"shard": i, "rc": rc, "out": o[-1200:]})
            continue
        nums = vlib.parse_numbers(tags["bad"].split(":")[0])
        bad += list(zip(nums[0::2], nums[1::2]))
        cases += vlib.parse_numbers(tags["count"].split(":")[0])[0]
        calls += vlib.parse_numbers(tags["calls"].split(":")[0])[0]
    return bad, cases, calls, errs


def run(ctx):
    n = 48 if ctx.tier == "quick" else 600
    ctx.trusted += [
        "harness/p/srv + harness/p/c10: server driver, generators, canonicalisers (f32 bits -> grid coordinates, sorted metadata, status classes), the per-call `exact` flag that says where the two-tier k-NN is expected to be exact (outside it only soundness of Search answers is checked against the model)",
        "score table: f32 bits of 1/(1+sqrt(d)) computed by the harness with the same IEEE operations; the model treats the score as an uninterpreted function",
        "Section hypothesis of the noninterference theorem: u32::to_string is injective (idx_str); premise: tenant A's keys are not admin keys",
        "modelled, not verified: tonic/prost decoding, the interceptor plumbing, rate limiting, timing channels, tier/search_path enums, hot tier / HNSW / query cache internals (Search is specified as exact global top-search_k then tenant filter)",
    ]
    ctx.trusted.append("harness/p/translator target tenant_id_mapper (syn parser + typed Rust-subset -> Gallina translator, fails closed): u32/u64 as N, `<<` with explicit mod 2^64, narrowing casts as mod 2^32, Result<u64, Status> as option N")
    # regenerate coq/gen/TenantId_gen.v from kyrodb_server.rs (fails closed); Properties/C10gen.v ties it to Model/Server.v
    gen = _translator.regen(ctx, "tenant_id_mapper", "TenantId_gen")
    proofs_ok = ctx.proof_phase(["Properties/C10.vo", "Properties/C10gen.vo"], THEOREMS, pins=PINS)
    gen_broken = []
    if gen["broken"]:
        gen_broken.append(gen["broken"])
    elif _translator.stale_vo("TenantId_gen"):
        gen_broken.append({"kind": "generated-model-did-not-compile", "file": "coq/gen/TenantId_gen.v"})

    ok, log, server_bin = vlib.server_build()
    ctx.log("server_build.log", log)
    if not ok or not os.path.exists(server_bin):
        ctx.violation({"property": "C10", "kind": "server-build-failed", "log_tail": log[-3000:],
                       "unchecked": "everything observed on the real binary"}, no_input=True)
        return
    ok, log = vlib.cargo_build(["c10"])
    ctx.log("cargo.log", log)
    if not ok:
        ctx.say("harness build failed")
        ctx.violation({"property": "C10", "kind": "harness-build-failed", "log_tail": log[-3000:],
                       "unchecked": "correspondence Model/Server.v vs engine/src/bin/kyrodb_server.rs"}, no_input=True)
        return
    out = os.path.join(vlib.CACHE, "run", "C10", "out")
    rc, o = _run_driver(ctx, out, n, ctx.seed, replay=ctx.replay)
    ctx.log("harness.log", o)
    if rc != 0 or not os.path.exists(os.path.join(out, "summary.json")):
        ctx.violation({"property": "C10", "kind": "harness-crashed", "rc": rc, "log_tail": o[-3000:]}, no_input=True)
        return
    summ = json.load(open(os.path.join(out, "summary.json")))
    allc = json.load(open(os.path.join(out, "all_cases.json")))
    bad, cases, calls, coq_err = _coq("C10", out, summ)
    known_by_class = {}
    for k in summ["known_class_hits"]:
        known_by_class.setdefault(k["class"], []).append(k)
    ctx.cov.update({
        "evaluations": summ["rpcs"],
        "distinct_nontrivial": summ["nontrivial"],
        "rule": "evaluations = RPCs sent to real server processes (each script runs twice: complete, and with one tenant's calls removed, on fresh servers); a script is non-trivial when it is distinct after canonicalisation and a tenant reads/searches/deletes a local id (or scans) that two tenants have written (colliding ids exercised); scripts: 2-3 tenants, local ids 1..8 shared, 10 shared vectors on the 1/8 grid, namespaces {'',n1,n2}, spoofed __tenant_idx__/__tenant_id__/__namespace__ keys in client metadata, NOT/OR/AND/IN filters incl. filters on reserved keys, missing / wrong / disabled API keys, wrong dimensions; adversarial out-of-range local ids (2^32, 2^32|l, (j<<32)|l for every tenant index j and colliding l, u64::MAX, 0) in every RPC kind incl. BulkLoadHnsw/BulkInsert items (directed attack scripts: one tenant aims all RPC kinds at the other tenants' id ranges, then every tenant takes a census); tenant acme always has TWO enabled API keys (key rotation) and is also called through the second one; a quarter of the scripts stop the server, append a brand-new tenant to the key file, restart on the same data dir and let the new tenant probe colliding ids before writing (model: TenantIdMapper::load_or_create / ensure_tenant index assignment and restart_state, evaluated in coqc); extra direct oracle: a tenant that has written nothing sees nothing",
        "scripts": summ["scripts_run"], "server_processes": summ["server_runs"],
        "samples": summ["samples"][:2],
        "histogram": summ["histogram"],
        "model_cases_evaluated_in_coq": cases, "model_calls_evaluated_in_coq": calls,
        "model_disagreements": len(bad),
        "oracle_failures": len(summ["oracle_failures"]),
        "known_class_differences": {k: len(v) for k, v in known_by_class.items()},
        "avg_server_startup_s": round(summ["avg_server_startup_s"], 3),
    })
    ctx.notes.append("observation (outside the property's RPC list, not judged): CreateSnapshot and the Metrics RPC are callable by any tenant and return process-wide document counts (and the server-side snapshot path)")
    ctx.notes.append("BulkSearch streams contain only valid requests: one invalid request makes the server answer the whole stream with a single INVALID_ARGUMENT (reported to C15)")

    # ---- decide
    if summ["run_errors"]:
        ctx.violation({"property": "C10", "kind": "server-did-not-start", "detail": summ["run_errors"][:3]}, no_input=True)
        return
    for f in summ["oracle_failures"][:1]:
        ctx.violation({"property": "C10", "kind": "oracle", "why": f["why"], "call_index": f.get("call_index"),
                       "victim": f.get("victim", 0), "removed": f.get("removed", 1), "case": f["case"],
                       "replay_cmd": "./check C10 --replay <this file>"})
    if summ["oracle_failures"]:
        return
    for cls, hits in sorted(known_by_class.items()):
        h = hits[0]
        detail = "%d occurrence(s) this run; e.g. script %s call %s: with other tenant %s / without %s" % (
            len(hits), h["id"], h["call_index"], json.dumps(h["with_other_tenant"])[:160], json.dumps(h["without_other_tenant"])[:160])
        f = ctx.classify_known(cls) if cls in KNOWN_IDS else None
        if f:
            ctx.known_hit(f, detail)
        else:
            ctx.violation({"property": "C10", "kind": "oracle", "class": cls,
                           "why": "tenant %s's %s answer depends on tenant %s's calls" % (h["victim"], "Search" if "search" in cls else "FlushHotTier", h["removed"]),
                           "call_index": h["call_index"], "with_other_tenant": h["with_other_tenant"],
                           "without_other_tenant": h["without_other_tenant"],
                           "victim": {"acme": 0, "bolt": 1, "cato": 2, "dax": 3}.get(h["victim"], 0),
                           "removed": {"acme": 0, "bolt": 1, "cato": 2, "dax": 3}.get(h["removed"], 1),
                           "case": h["case"], "replay_cmd": "./check C10 --replay <this file>"})
    broken = list(gen_broken)
    if not proofs_ok:
        broken.append({"kind": "proof-obligations", "failed": ctx.failed_obligations})
    if coq_err:
        broken.append({"kind": "cases-evaluation-error", "detail": coq_err[:2]})
    if bad:
        ci = summ["case_index"]
        first = bad[0]
        which = ci[first[0]] if first[0] < len(ci) else {}
        sc = next((c for c in allc if c["id"] == which.get("script")), None)
        broken.append({"kind": "correspondence", "disagreeing": [{"case": ci[b[0]] if b[0] < len(ci) else b[0], "call_index": b[1]} for b in bad[:10]],
                       "first_case": None if sc is None else (sc["case"] if which.get("run") == "full" else sc["reduced_case"]),
                       "first_case_observations": None if sc is None else (sc["full"] if which.get("run") == "full" else sc["reduced"])[:6000]})
    if broken:
        ctx.say("proof/correspondence broken; widening the oracle search")
        out2 = out + "_search"
        rc, o = _run_driver(ctx, out2, 400, ctx.seed + 7919)
        found = []
        try:
            s2 = json.load(open(os.path.join(out2, "summary.json")))
            found = s2["oracle_failures"]
            if not found:
                found = [dict(k, why="answer depends on another tenant's calls (%s)" % k["class"]) for k in s2["known_class_hits"]
                         if k["class"] not in KNOWN_IDS or not ctx.classify_known(k["class"])]
        except Exception:
            pass
        if found:
            f = found[0]
            ctx.violation({"property": "C10", "kind": "oracle", "why": f["why"], "call_index": f.get("call_index"),
                           "case": f["case"], "broken": broken})
        else:
            ctx.violation({"property": "C10", "kind": "no-failing-input-found", "broken": broken,
                           "note": "the model and the real server disagree, or a theorem no longer checks, but no script violating the isolation oracles was found in the widened search (400 more scripts)"},
                          no_input=True)
