"""C08 — no interleaving of concurrent API calls can deadlock (DESIGN.md §3 C08).

Pipeline of one run:
  1. build the driver in /verif/harness-locks (engine + recording copies of parking_lot / lock_api);
  2. `c08 trace`: every operation of the API catalogue, alone, in many engine states, recorder on;
  3. traces -> lock programs over lock CLASSES (struct field holding the lock) -> coq/gen/LockProgs_gen.v;
  4. static analysis here (held-before graph, hazards, cycles) — only to explain and to steer; the
     verdict is Coq's: coq/gen/LockInstance_gen.v proves `deadlock_free_family` for the recorded programs
     with the rank computed in Coq (`topo_rank`), by vm_compute + the general theorem;
  5. for every cycle: a stuck schedule of the model (checked by Coq) and a DIRECTED schedule on the real
     engine (gate table of the recorder, watchdog, child process) — a confirmed hang is the replay.
"""
import collections
import json
import os
import re
import shutil
import vlib

LOCKS_WS = os.path.join(vlib.VERIF, "harness-locks")
LOCKS_TARGET = os.path.join(vlib.CACHE, "target-locks")
BIN = os.path.join(LOCKS_TARGET, "debug", "c08")
RUN = os.path.join(vlib.CACHE, "run", "C08")
GEN_PROGS = os.path.join(vlib.COQ, "gen", "LockProgs_gen.v")
GEN_INST = os.path.join(vlib.COQ, "gen", "LockInstance_gen.v")

KNOWN_ID = "C08-hot-tier-stats-documents-inversion"

THEOREMS = {"Properties.C08": ["deadlock_free_of_rank", "C08_family_of_check", "C08_completes",
                               "C08_example_ok", "C08_inversion_rejected", "C08_inversion_no_rank",
                               "C08_inversion_deadlocks", "C08_writer_preference_deadlocks"]}
PINS = {"Properties.C08": {
    "_preamble": "From Coq Require Import List NArith. From Kyro Require Import Model.Locks.",
    "deadlock_free_of_rank": "forall (rank : lock -> nat) (progs : list prog), Forall well_bracketed progs -> Forall (rank_increasing rank) progs -> forall sched st, exec progs sched = Some st -> all_done st = false -> exists tid st', thread_step st tid = Some st'",
    "C08_family_of_check": "forall (rank : lock -> nat) (calls : list prog), all_ok rank calls = true -> deadlock_free_family calls",
    "C08_completes": "forall (rank : lock -> nat) (ps : list prog), all_ok rank ps = true -> forall sched st, exec ps sched = Some st -> exists sched' st', run st sched' = Some st' /\\ all_done st' = true",
}}


# --------------------------------------------------------------------------------------------
# build + trace
# --------------------------------------------------------------------------------------------

def build_driver():
    with vlib.FileLock("cargo-locks"):
        os.makedirs(RUN, exist_ok=True)
        snapshot_sources()
        lock = os.path.join(LOCKS_WS, "Cargo.lock")
        if not os.path.exists(lock):
            shutil.copy(os.path.join(vlib.REPO, "Cargo.lock"), lock)
        rc, out = vlib.sh(["cargo", "build", "--offline", "-p", "kvl-c08"], cwd=LOCKS_WS, timeout=3000)
    return rc == 0, out


# --------------------------------------------------------------------------------------------
# lock classes from creation sites
# --------------------------------------------------------------------------------------------

_SRC = {}
SRC_SNAPSHOT = os.path.join(RUN, "src")


def snapshot_sources():
    """Recorded line numbers are mapped to fields/functions through the source text; keep the text
    that was compiled (a concurrent edit of /repo during the run must not skew the names)."""
    shutil.rmtree(SRC_SNAPSHOT, ignore_errors=True)
    shutil.copytree(os.path.join(vlib.REPO, "engine", "src"), SRC_SNAPSHOT)
    _SRC.clear()


def src_lines(path):
    if path not in _SRC:
        real = path
        pre = os.path.join(vlib.REPO, "engine", "src") + "/"
        if path.startswith(pre) and os.path.isdir(SRC_SNAPSHOT):
            real = os.path.join(SRC_SNAPSHOT, path[len(pre):])
        try:
            _SRC[path] = open(real, errors="replace").read().split("\n")
        except OSError:
            _SRC[path] = None
    return _SRC[path]


def enclosing(path, line, what):
    """Name of the innermost `impl X` / `fn x` whose header precedes `line` (1-based) with smaller indent."""
    lines = src_lines(path)
    if not lines:
        return None
    pat = {"impl": re.compile(r"^\s*(?:unsafe\s+)?impl(?:<[^{]*?>)?\s+(?:[\w:<>, ']+\s+for\s+)?(\w+)"),
           "fn": re.compile(r"^\s*(?:pub(?:\([^)]*\))?\s+)?(?:const\s+)?(?:async\s+)?(?:unsafe\s+)?fn\s+(\w+)")}[what]
    cur_indent = len(lines[line - 1]) - len(lines[line - 1].lstrip()) if 0 < line <= len(lines) else 0
    for i in range(min(line, len(lines)) - 1, -1, -1):
        m = pat.match(lines[i])
        if m:
            ind = len(lines[i]) - len(lines[i].lstrip())
            if ind < cur_indent or what == "impl":
                return m.group(1)
    return None


def class_of_site(created, first_site):
    """Class name of a lock from its creation site: `<file stem>::<Type>.<field>`; every creation site of
    one field is one class (so all instances of a field, in all objects, are one lock of the model)."""
    if created is None:
        f = first_site[0] if first_site else "?"
        return "%s::<creation-site-unknown>" % os.path.splitext(os.path.basename(f))[0]
    path, line, _col = created
    stem = os.path.splitext(os.path.basename(path))[0]
    if path.startswith("/rustc/") or "/library/core/" in path:
        # created through a function pointer (e.g. `.map(Mutex::new)`): group by the acquiring file
        f = first_site[0] if first_site else "?"
        return "%s::<created-via-fn-pointer>" % os.path.splitext(os.path.basename(f))[0]
    if not path.startswith("/repo/"):
        if "catalogue.rs" in path:
            lines = src_lines(os.path.join(LOCKS_WS, path)) or []
            fn = enclosing(os.path.join(LOCKS_WS, path), line, "fn") or "?"
            if fn == "new_logger":
                return "app::access_logger"
            return "harness::%s@%d" % (fn, line)
        return "%s@%d" % (path, line)
    lines = src_lines(path)
    field = None
    if lines and 0 < line <= len(lines):
        for i in range(line - 1, max(line - 5, -1), -1):
            m = re.match(r"^\s*(?:let\s+(?:mut\s+)?)?(\w+)\s*[:=][^:=]", lines[i])
            if m and m.group(1) not in ("Self", "Ok", "Some"):
                field = m.group(1)
                break
    ty = enclosing(path, line, "impl") or "?"
    if field is None:
        return "%s::%s@%d" % (stem, ty, line)
    return "%s::%s.%s" % (stem, ty, field)


# --------------------------------------------------------------------------------------------
# traces -> programs
# --------------------------------------------------------------------------------------------

MODE = {"Read": "Read", "ReadRecursive": "Read", "Upgradable": "Upgradable", "Write": "Write", "Mutex": "Mutex"}


def event_instrs(e):
    """Instructions of one completed event: list of (kind, lock, mode)."""
    op, m, ok = e["op"], MODE.get(e["mode"]), e["ok"]
    l = e["lock"]
    if op == "Acquire":
        return [("Acq", l, m)]
    if op in ("TryAcquire", "TimedAcquire"):
        return [("TryAcq", l, m)] if ok else []
    if op == "Release":
        return [("Rel", l, None)]
    if op in ("Upgrade", "TryUpgrade", "TimedUpgrade"):
        return [("Upgrade", l, None)] if ok else []
    if op in ("Downgrade", "DowngradeUpgradable"):
        return [("Downgrade", l, "Read")]
    if op == "DowngradeToUpgradable":
        return [("Downgrade", l, "Upgradable")]
    if op == "Bump":
        return [("Rel", l, None), ("Acq", l, m)]
    return []


def split_scenario(scn):
    """Returns a list of segments: dict(scenario, op, thread: 'main'|'bg', events: [completed events])."""
    name, main = scn["scenario"], scn["main_thread"]
    evs = scn["events"]
    segs = []
    # --- op windows from the main thread's markers
    windows = []            # (begin_seq, end_seq, opname)
    setup_end, teardown, prep = None, None, []
    cur, prep_begin = None, None
    for e in evs:
        if e["kind"] != "Marker":
            continue
        t = e["text"] or ""
        if t == "SETUP-END":
            setup_end = e["seq"]
        elif t == "TEARDOWN":
            teardown = e["seq"]
        elif t == "PREP-BEGIN":
            prep_begin = e["seq"]
        elif t == "PREP-END":
            prep.append((prep_begin, e["seq"]))
        elif t.startswith("BEGIN "):
            cur = (e["seq"], t[6:])
        elif t.startswith("END ") and cur:
            windows.append((cur[0], e["seq"], cur[1]))
            cur = None
    if setup_end is None:
        setup_end = -1
    if teardown is None:
        teardown = 1 << 62

    def window_of(seq):
        for b, en, opn in windows:
            if b <= seq <= en:
                return opn
        for b, en in prep:
            if b is not None and b <= seq <= en:
                return "(preparation)"
        return "(between operations)"

    per_thread = collections.defaultdict(list)
    for e in evs:
        if e["kind"] == "Marker" or e["phase"] != "Done":
            continue
        if not (setup_end < e["seq"] < teardown):
            continue
        per_thread[e["thread"]].append(e)
    # main thread: one segment per operation window
    for b, en, opn in windows:
        seg = [e for e in per_thread.get(main, []) if b < e["seq"] < en]
        segs.append({"scenario": name, "op": opn, "thread": "main", "events": seg})
    # background threads: balanced segments (cut whenever nothing is held).  A release of a lock taken
    # before the window opened is dropped; a segment still holding a lock when the window closes is
    # reported as truncated and not turned into a program (it is not an operation's complete program).
    for th, tevs in per_thread.items():
        if th == main:
            continue
        held, cur = collections.Counter(), []
        for e in tevs:
            ins = event_instrs(e)
            if any(k == "Rel" and held[l] <= 0 for k, l, _m in ins) and not any(k != "Rel" for k, _l, _m in ins):
                continue
            cur.append(e)
            for k, l, _m in ins:
                if k in ("Acq", "TryAcq"):
                    held[l] += 1
                elif k == "Rel":
                    held[l] -= 1
            if sum(held.values()) <= 0 and cur:
                segs.append({"scenario": name, "op": window_of(cur[0]["seq"]), "thread": "bg", "events": cur})
                held, cur = collections.Counter(), []
        if cur:
            segs.append({"scenario": name, "op": window_of(cur[0]["seq"]), "thread": "bg", "events": cur,
                         "truncated": True})
    return segs


class Analysis:
    def __init__(self, doc):
        self.doc = doc
        self.inst_class = {}          # (scenario, instance) -> class name
        self.class_sites = collections.defaultdict(set)
        self.segments = []
        for scn in doc["scenarios"]:
            first_site = {}
            created = {}
            for e in scn["events"]:
                if e["kind"] == "Marker":
                    continue
                k = e["lock"]
                if k not in created and e["created"]:
                    created[k] = tuple(e["created"])
                if k not in first_site and e["site"] and e["op"] != "Release":
                    first_site[k] = tuple(e["site"])
            for k in set(list(created) + list(first_site)):
                cn = class_of_site(created.get(k), first_site.get(k))
                self.inst_class[(scn["scenario"], k)] = cn
                if created.get(k):
                    self.class_sites[cn].add("%s:%d" % (created[k][0], created[k][1]))
            self.segments += split_scenario(scn)
        self.classes = sorted(set(self.inst_class.values()))
        self.cid = {c: i + 1 for i, c in enumerate(self.classes)}
        # programs
        self.shapes = {}              # tuple(instr) -> shape index
        self.shape_list = []          # [dict(instrs, uses: [(scenario, op, thread)], sample_events)]
        self.truncated = [s for s in self.segments if s.get("truncated")]
        self.segments = [s for s in self.segments if not s.get("truncated")]
        for seg in self.segments:
            instrs, evmap = [], []
            for e in seg["events"]:
                cn = self.inst_class.get((seg["scenario"], e["lock"]), "?")
                for k, _l, m in event_instrs(e):
                    instrs.append((k, self.cid.get(cn, 0), m))
                    evmap.append(e)
            seg["instrs"] = tuple(instrs)
            seg["evmap"] = evmap
            if not instrs:
                continue
            if seg["instrs"] not in self.shapes:
                self.shapes[seg["instrs"]] = len(self.shape_list)
                self.shape_list.append({"instrs": seg["instrs"], "uses": [], "seg": seg})
            sh = self.shape_list[self.shapes[seg["instrs"]]]
            sh["uses"].append((seg["scenario"], seg["op"], seg["thread"]))
            # prefer a main-thread segment as the representative (directed schedules need a callable op)
            if sh["seg"]["thread"] != "main" and seg["thread"] == "main":
                sh["seg"] = seg
        self.compute_graph()

    # ---- static analysis mirroring Model/Locks.v (edges, hazards)
    def compute_graph(self):
        self.edges = collections.defaultdict(list)    # (a, b) -> [dict(shape, idx_req, idx_held, ...)]
        self.hazards = []
        self.max_nesting = 0
        for si, sh in enumerate(self.shape_list):
            held = []                                  # [(lock, mode, instr index)]
            for ii, (k, l, m) in enumerate(sh["instrs"]):
                if k in ("Acq", "TryAcq"):
                    prev = [h for h in held if h[0] == l]
                    if prev:
                        hm = prev[0][1]
                        if hm == "Read" and m == "Read":
                            kind = "RecursiveRead"
                        elif hm in ("Read", "Upgradable") and m == "Write":
                            kind = "UpgradeHazard"
                        else:
                            kind = "Reacquire"
                        self.hazards.append({"kind": kind, "lock": l, "held_mode": hm, "requested_mode": m,
                                             "shape": si, "instr": ii})
                    if k == "Acq":
                        for h in held:
                            if h[0] != l:
                                self.edges[(h[0], l)].append({"shape": si, "held_at": h[2], "req_at": ii,
                                                              "held_mode": h[1], "req_mode": m})
                    held.insert(0, (l, m, ii))
                elif k == "Upgrade":
                    mine = [h for h in held if h[0] == l]
                    if not mine or mine[0][1] != "Upgradable":
                        self.hazards.append({"kind": "Unbalanced", "lock": l, "shape": si, "instr": ii})
                    for h in held:
                        if h[0] != l:
                            self.edges[(h[0], l)].append({"shape": si, "held_at": h[2], "req_at": ii,
                                                          "held_mode": h[1], "req_mode": "Write"})
                    held = [h for h in held if h[0] != l]
                    held.insert(0, (l, "Write", ii))
                elif k == "Downgrade":
                    mine = [h for h in held if h[0] == l]
                    if not mine:
                        self.hazards.append({"kind": "Unbalanced", "lock": l, "shape": si, "instr": ii})
                    at = mine[0][2] if mine else ii
                    held = [h for h in held if h[0] != l]
                    held.insert(0, (l, m, at))
                elif k == "Rel":
                    if not any(h[0] == l for h in held):
                        self.hazards.append({"kind": "Unbalanced", "lock": l, "shape": si, "instr": ii})
                    for j, h in enumerate(held):
                        if h[0] == l:
                            del held[j]
                            break
                self.max_nesting = max(self.max_nesting, len(held))
            if held:
                self.hazards.append({"kind": "Unbalanced", "lock": held[0][0], "shape": si, "instr": len(sh["instrs"])})

    def sccs(self, edges):
        nodes = sorted(set([a for a, _ in edges] + [b for _, b in edges]))
        adj = collections.defaultdict(list)
        for a, b in edges:
            adj[a].append(b)
        index, low, onst, st, out, cnt = {}, {}, set(), [], [], [0]

        def strong(v):
            index[v] = low[v] = cnt[0]
            cnt[0] += 1
            st.append(v)
            onst.add(v)
            for w in adj[v]:
                if w not in index:
                    strong(w)
                    low[v] = min(low[v], low[w])
                elif w in onst:
                    low[v] = min(low[v], index[w])
            if low[v] == index[v]:
                comp = []
                while True:
                    w = st.pop()
                    onst.discard(w)
                    comp.append(w)
                    if w == v:
                        break
                if len(comp) > 1:
                    out.append(sorted(comp))
        for v in nodes:
            if v not in index:
                strong(v)
        return out

    def site_of(self, shape, idx):
        e = self.shape_list[shape]["seg"]["evmap"][idx]
        return tuple(e["site"]) if e.get("site") else None

    def fn_of_site(self, site):
        if not site:
            return None
        return enclosing(site[0], site[1], "fn")

    def name(self, cid):
        return self.classes[cid - 1] if 0 < cid <= len(self.classes) else "?"


# --------------------------------------------------------------------------------------------
# Python mirror of Model/Locks.v semantics — only to FIND a stuck schedule; Coq re-checks it
# --------------------------------------------------------------------------------------------

def m_excl(m):
    return m in ("Write", "Mutex")


def model_step(progs, st, tid):
    pc, held, pend = st[tid]
    p = progs[tid]
    if pc >= len(p):
        return None
    k, l, m = p[pc]

    def wbit():
        for j, (pcj, hj, pj) in enumerate(st):
            if any(hl == l and real and m_excl(hm) for hl, hm, real in hj):
                return True
            if pj and pcj < len(progs[j]) and progs[j][pcj][0] in ("Acq", "Upgrade") and progs[j][pcj][1] == l:
                return True
        return False

    def some(pred):
        return any(hl == l and real and pred(hm) for (_pc, hj, _p) in st for hl, hm, real in hj)

    def avail(mode):
        if mode == "Read":
            return not wbit()
        if mode in ("Upgradable", "Write"):
            return not wbit() and not some(lambda x: x == "Upgradable")
        return not some(lambda x: True)

    readers = lambda: some(lambda x: x in ("Read", "Upgradable"))
    new = None
    if k == "Acq" and m == "Write":
        if pend:
            new = None if readers() else (pc + 1, ((l, "Write", True),) + held, False)
        else:
            new = (pc, held, True) if avail("Write") else None
    elif k == "Acq":
        new = (pc + 1, ((l, m, True),) + held, False) if avail(m) else None
    elif k == "TryAcq":
        ok = avail(m) and (m != "Write" or not readers())
        new = (pc + 1, ((l, m, ok),) + held, False)
    elif k == "Upgrade":
        mine = [h for h in held if h[0] == l]
        rest = tuple(h for h in held if h[0] != l) if mine else held
        if pend:
            new = None if readers() else (pc + 1, ((l, "Write", True),) + held, False)
        elif not mine:
            new = (pc + 1, held, False)
        elif mine[0][2]:
            new = (pc, _remove_first(held, l), True)
        else:
            new = (pc + 1, ((l, "Write", False),) + _remove_first(held, l), False)
    elif k == "Downgrade":
        mine = [h for h in held if h[0] == l]
        new = (pc + 1, ((l, m, mine[0][2]),) + _remove_first(held, l), False) if mine else (pc + 1, held, False)
    elif k == "Rel":
        new = (pc + 1, _remove_first(held, l), False)
    if new is None:
        return None
    return st[:tid] + (new,) + st[tid + 1:]


def _remove_first(held, l):
    out, done = [], False
    for h in held:
        if h[0] == l and not done:
            done = True
            continue
        out.append(h)
    return tuple(out)


def find_stuck(progs, limit=200000):
    """BFS over the model for a state where no thread can move and not all are done. Returns schedule."""
    init = tuple((0, (), False) for _ in progs)
    seen = {init: None}
    q = collections.deque([init])
    while q and len(seen) < limit:
        st = q.popleft()
        moved = False
        for tid in range(len(progs)):
            nx = model_step(progs, st, tid)
            if nx is None:
                continue
            moved = True
            if nx not in seen:
                seen[nx] = (st, tid)
                q.append(nx)
        if not moved and any(pc < len(progs[i]) for i, (pc, _h, _p) in enumerate(st)):
            sched = []
            cur = st
            while seen[cur] is not None:
                cur, tid = seen[cur]
                sched.append(tid)
            return list(reversed(sched))
    return None


# --------------------------------------------------------------------------------------------
# Coq generation
# --------------------------------------------------------------------------------------------

def coq_instr(i):
    k, l, m = i
    if k in ("Acq", "TryAcq", "Downgrade"):
        return "%s %d %s" % (k, l, m)
    return "%s %d" % (k, l)


def coq_prog(p):
    return "[" + "; ".join(coq_instr(i) for i in p) + "]"


def write_gen(an, excluded_edges, refutations):
    lines = ["(* GENERATED by checks/c08.py from the lock traces of the real engine (patched parking_lot).",
             "   Do not edit; rewritten on every run.  Lock classes:"]
    for c in an.classes:
        lines.append("     %3d  %s   (created at %s)" % (an.cid[c], c, ", ".join(sorted(an.class_sites.get(c, []))) or "?"))
    lines.append("*)")
    lines.append("From Coq Require Import List NArith.")
    lines.append("From Kyro Require Import Model.Locks.")
    lines.append("Import ListNotations.")
    lines.append("Open Scope N_scope.")
    lines.append("")
    lines.append("Definition progs : list prog := [")
    body = []
    for si, sh in enumerate(an.shape_list):
        u = sh["uses"][0]
        body.append("  (* %d: %s / %s%s; %d uses *)\n  %s" % (si, u[0], u[1], " [bg thread]" if u[2] == "bg" else "",
                                                             len(sh["uses"]), coq_prog(sh["instrs"])))
    lines.append(";\n".join(body))
    lines.append("].")
    vlib.write_if_changed(GEN_PROGS, "\n".join(lines) + "\n")

    il = ["(* GENERATED by checks/c08.py; rewritten on every run.  The per-run instance of C08: the lock",
          "   programs recorded from /repo's current engine satisfy the rank discipline for the rank computed",
          "   by Model.Locks.topo_rank (vm_compute), hence (general theorem) no set of client threads issuing",
          "   any sequences of these calls can deadlock. *)",
          "From Coq Require Import List NArith Bool.",
          "From Kyro Require Import Model.Locks Proofs.LocksProofs gen.LockProgs_gen.",
          "Import ListNotations.",
          "Open Scope N_scope.", ""]
    if not excluded_edges:
        il += ["Definition progs_ok : list prog := progs.", ""]
    else:
        il.append("(* Programs that contain one of these held-before edges are set aside (they are the subject of")
        il.append("   the refutation lemmas below); the theorem covers all the others. *)")
        il.append("Definition excluded_edges : list edge := [%s]." % "; ".join("(%d, %d)" % e for e in excluded_edges))
        il.append("Definition has_excluded (p : prog) : bool :=")
        il.append("  existsb (fun e => emem e (prog_edges [] p [])) excluded_edges.")
        il.append("Definition progs_ok : list prog := filter (fun p => negb (has_excluded p)) progs.")
        il.append("Definition progs_excluded : list prog := filter has_excluded progs.")
        il.append("")
    il += ["Example C08_instance_lock_order_ok : lock_order_ok progs_ok = true.",
           "Proof. vm_compute. reflexivity. Qed.", "",
           "Theorem C08_instance : deadlock_free_family progs_ok.",
           "Proof.",
           "  apply deadlock_free_family_of_check with (rank := topo_rank progs_ok).",
           "  vm_compute. reflexivity.",
           "Qed.", "",
           ]
    il.append("Goal True. idtac \"@@counts\". Abort.")
    il.append("Eval vm_compute in (length progs, length progs_ok).")
    il.append("Goal True. idtac \"@@whole_set_ok\". Abort.")
    il.append("Eval vm_compute in (lock_order_ok progs).")
    il.append("Goal True. idtac \"@@rank\". Abort.")
    il.append("Eval vm_compute in (fst (topo (edges progs_ok))).")
    il.append("Goal True. idtac \"@@end\". Abort.")
    il.append("")
    for i, r in enumerate(refutations):
        il.append("(* cycle %d: %s *)" % (i, r["comment"]))
        il.append("Definition refuted_%d : list prog := [%s]." % (i, "; ".join(coq_prog(p) for p in r["progs"])))
        il.append("Example C08_refuted_%d_in_progs : forallb (fun p => existsb (fun q => if list_eq_dec instr_eq_dec p q then true else false) progs) refuted_%d = true." % (i, i))
        il.append("Proof. vm_compute. reflexivity. Qed.")
        il.append("Example C08_refuted_%d : exists sched st, exec refuted_%d sched = Some st /\\ deadlocked st = true." % (i, i))
        il.append("Proof.")
        il.append("  exists [%s]%%nat, (match exec refuted_%d [%s]%%nat with Some s => s | None => [] end)."
                  % ("; ".join(str(x) for x in r["sched"]), i, "; ".join(str(x) for x in r["sched"])))
        il.append("  vm_compute. split; reflexivity.")
        il.append("Qed.")
        il.append("Example C08_refuted_%d_no_rank : lock_order_ok refuted_%d = false." % (i, i))
        il.append("Proof. vm_compute. reflexivity. Qed.")
        il.append("")
    text = "\n".join(x for x in il if x is not None) + "\n"
    if refutations:
        text = text.replace("Open Scope N_scope.\n\n", "Open Scope N_scope.\n\n"
                            "Definition mode_eq_dec : forall a b : mode, {a = b} + {a <> b}.\nProof. decide equality. Defined.\n"
                            "Definition instr_eq_dec : forall a b : instr, {a = b} + {a <> b}.\nProof. decide equality; try apply N.eq_dec; apply mode_eq_dec. Defined.\n\n", 1)
    vlib.write_if_changed(GEN_INST, text)


# --------------------------------------------------------------------------------------------
# directed schedules on the real engine
# --------------------------------------------------------------------------------------------

def gate_for(an, shape, idx, signal, wait):
    """Gate 'after the acquisition recorded at instruction idx of the representative segment of shape'."""
    seg = an.shape_list[shape]["seg"]
    ev = seg["evmap"][idx]
    site = ev.get("site")
    if not site:
        return None
    nth = 0
    for j in range(idx + 1):
        e2 = seg["evmap"][j]
        k2 = seg["instrs"][j][0]
        if k2 in ("Acq", "TryAcq", "Upgrade") and e2.get("site") and e2["site"][:2] == site[:2] and e2["mode"] == ev["mode"]:
            # one event can expand to several instrs (Bump); count events once
            if j == 0 or seg["evmap"][j - 1] is not e2:
                nth += 1
    return {"site_file": site[0], "site_line": site[1], "mode": ev["mode"], "nth": max(nth, 1), "phase": "Done",
            "signal": signal, "wait": wait, "timeout_ms": 2500}


def run_directed(ctx, plan, tag):
    os.makedirs(RUN, exist_ok=True)
    pp = os.path.join(RUN, "plan_%s.json" % tag)
    vp = os.path.join(RUN, "verdict_%s.json" % tag)
    json.dump(plan, open(pp, "w"), indent=1)
    if os.path.exists(vp):
        os.remove(vp)
    rc, out = vlib.sh([BIN, "directed", "--plan", pp, "--out", vp], timeout=plan.get("watchdog_ms", 5000) / 1000.0 + 25,
                      env={"C08_SCRATCH": os.path.join(RUN, "scratch"), "RUST_LOG": "off"})
    ctx.log("directed_%s.log" % tag, out)
    try:
        v = json.load(open(vp))
    except Exception:
        return {"hang": rc == 124, "error": "no verdict (rc=%s)" % rc, "log_tail": out[-1500:]}
    v.pop("events", None)
    return v


# --------------------------------------------------------------------------------------------
# the check
# --------------------------------------------------------------------------------------------

def describe_edge(an, a, b, occ):
    sh = an.shape_list[occ["shape"]]
    hs, rs = an.site_of(occ["shape"], occ["held_at"]), an.site_of(occ["shape"], occ["req_at"])
    return {"held": an.name(a), "held_mode": occ["held_mode"], "held_acquired_at": "%s:%d" % hs[:2] if hs else None,
            "requested": an.name(b), "requested_mode": occ["req_mode"], "requested_at": "%s:%d" % rs[:2] if rs else None,
            "in_fn": an.fn_of_site(rs), "operation": "%s / %s" % sh["uses"][0][:2],
            "operations": sorted(set(u[1] for u in sh["uses"]))[:12]}


# Known-finding classifiers: an edge occurrence "holds `held` (acquired inside function `held_fn` of
# `file`) and requests a lock" belongs to the class.  Matching is on the SPECIFIC code location of the
# inverted acquisition, never on the property alone; any cycle that does not go through such an
# occurrence is an unknown violation.
CLASSIFIERS = [
    {"id": "C08-hot-tier-stats-documents-inversion",
     "held": "hot_tier::HotTier.stats", "held_fn": "insert_with_coherence", "file": "engine/src/hot_tier.rs",
     "requested": ["hot_tier::HotTier.documents"]},
    {"id": "C08-hnsw-delete-snapshot-under-metadata-index",
     "held": "hnsw_backend::HnswBackend.metadata_index", "held_fn": "delete", "file": "engine/src/hnsw_backend.rs",
     "requested": None},
]


def tag_occurrence(an, a, b, occ):
    hs = an.site_of(occ["shape"], occ["held_at"])
    if not hs:
        return None
    for c in CLASSIFIERS:
        if an.name(a) != c["held"] or not hs[0].endswith(c["file"]):
            continue
        if c["requested"] is not None and an.name(b) not in c["requested"]:
            continue
        if an.fn_of_site(hs) == c["held_fn"]:
            return c["id"]
    return None


def pick_cycle_edges(an, comp, edgeset):
    """A shortest cycle inside the component, as a list of edges."""
    comp = set(comp)
    best = None
    for start in sorted(comp):
        prev = {start: None}
        q = collections.deque([start])
        found = None
        while q and found is None:
            v = q.popleft()
            for (a, b) in edgeset:
                if a != v or b not in comp:
                    continue
                if b == start:
                    found = v
                    break
                if b not in prev:
                    prev[b] = v
                    q.append(b)
        if found is not None:
            path = [found]
            while prev[path[-1]] is not None:
                path.append(prev[path[-1]])
            path = list(reversed(path))
            cyc = [(path[i], path[i + 1]) for i in range(len(path) - 1)] + [(path[-1], start)]
            if best is None or len(cyc) < len(best):
                best = cyc
    return best


def graph_of(an, shapes):
    g = collections.defaultdict(list)
    for e, occs in an.edges.items():
        for o in occs:
            if o["shape"] in shapes:
                g[e].append(o)
    return g


def phase_schedule(pa, pb, g0):
    """A runs alone through instruction g0, then B alone until it blocks, then A until it blocks.
    Returns (schedule, g1) if the result is a stuck state, g1 = B's last completed acquisition."""
    progs = [pa, pb]
    st = tuple((0, (), False) for _ in progs)
    sched = []
    while st[0][0] <= g0:
        nx = model_step(progs, st, 0)
        if nx is None:
            return None
        st = nx
        sched.append(0)
    if st[0][2]:
        return None
    g1 = None
    while st[1][0] < len(pb):
        nx = model_step(progs, st, 1)
        if nx is None:
            break
        if nx[1][0] > st[1][0] and pb[st[1][0]][0] in ("Acq", "TryAcq", "Upgrade"):
            g1 = st[1][0]
        st = nx
        sched.append(1)
    if st[1][0] >= len(pb) or g1 is None:
        return None
    while st[0][0] < len(pa):
        nx = model_step(progs, st, 0)
        if nx is None:
            break
        st = nx
        sched.append(0)
    if st[0][0] >= len(pa):
        return None
    # B may have become able to move again
    while True:
        nx = model_step(progs, st, 1)
        if nx is None:
            break
        st = nx
        sched.append(1)
        if st[1][0] >= len(pb):
            return None
    if model_step(progs, st, 0) is not None:
        return None
    return sched, g1


def find_pairs(an, edge, occs):
    """Candidate (A, B): A contains an occurrence of `edge`, B is another recorded main-thread
    operation, and a phase schedule deadlocks them in the model.  Best first: both recorded in a common
    scenario, different operations (the same call twice usually changes path once the first has run),
    short programs."""
    cands = []
    mains = [i for i, sh in enumerate(an.shape_list) if any(u[2] == "main" for u in sh["uses"])]
    seen_a = set()
    for oa in sorted(occs, key=lambda o: len(an.shape_list[o["shape"]]["instrs"])):
        sa = an.shape_list[oa["shape"]]
        if sa["seg"]["thread"] != "main" or (oa["shape"], oa["held_at"]) in seen_a:
            continue
        seen_a.add((oa["shape"], oa["held_at"]))
        scn_a = set(u[0] for u in sa["uses"] if u[2] == "main")
        ops_a = set(u[1] for u in sa["uses"])
        for sb_i in mains:
            sb = an.shape_list[sb_i]
            if sb["seg"]["thread"] != "main" or not any(k == "Acq" and l == edge[0] for k, l, _m in sb["instrs"]):
                continue
            r = phase_schedule(sa["instrs"], sb["instrs"], oa["held_at"])
            if not r:
                continue
            sched, g1 = r
            common = sorted(scn_a & set(u[0] for u in sb["uses"] if u[2] == "main"))
            same = 1 if (sb_i == oa["shape"] or ops_a & set(u[1] for u in sb["uses"])) else 0
            score = (0 if common else 1, same, len(sa["instrs"]) + len(sb["instrs"]))
            cands.append((score, oa, sb_i, sched, g1, common))
        if len(cands) > 40:
            break
    cands.sort(key=lambda c: c[0])
    return cands


def op_in_scenario(an, shape, scenario):
    for u in an.shape_list[shape]["uses"]:
        if u[0] == scenario and u[2] == "main":
            return u[1]
    return None


def investigate(ctx, an, idx, edge, occs, comp):
    """Everything about one cycle: who, where, a stuck schedule of the model, the real-engine replay."""
    a, b = edge
    info = {"component": [an.name(c) for c in comp],
            "inverted_edge": [an.name(a), an.name(b)],
            "class_creation_sites": {an.name(c): sorted(an.class_sites.get(an.name(c), [])) for c in comp},
            "inverted_edge_occurrences": [describe_edge(an, a, b, o) for o in _dedupe_occ(an, occs)][:8],
            "all_locks_requested_by_these_programs_while_holding_it": sorted(set(
                an.name(e[1]) for e, os_ in an.edges.items() if e[0] == a
                for o in os_ if o["shape"] in set(x["shape"] for x in occs)))}
    cands = find_pairs(an, edge, occs)
    if not cands:
        info["note"] = "no two-thread phase schedule found in the model for the recorded programs"
        return info, None
    refut = None
    for attempt, (_score, oa, sb_i, sched, g1, common) in enumerate(cands[:4]):
        pa, pb = an.shape_list[oa["shape"]]["instrs"], an.shape_list[sb_i]["instrs"]
        sa, sb = an.shape_list[oa["shape"]], an.shape_list[sb_i]
        info["thread_A"] = {"operation": "%s / %s" % sa["uses"][0][:2], "program": coq_prog(pa),
                            "holds_after_instruction": oa["held_at"]}
        info["thread_B"] = {"operation": "%s / %s" % sb["uses"][0][:2], "program": coq_prog(pb),
                            "holds_after_instruction": g1}
        info["model_stuck_schedule"] = sched
        refut = {"progs": [pa, pb], "sched": sched, "comment": "%s -> %s" % (an.name(a), an.name(b))}
        if not common:
            info["note"] = "the two operations were never recorded in a common scenario; no directed schedule run"
            break
        scn = common[0]
        g_a = gate_for(an, oa["shape"], oa["held_at"], 1, 2)
        g_b = gate_for(an, sb_i, g1, 2, None)
        plan = {"scenario": scn.split("@@")[0], "watchdog_ms": 5000,
                "threads": [{"op": op_in_scenario(an, oa["shape"], scn), "gates": [g_a] if g_a else []},
                            {"op": op_in_scenario(an, sb_i, scn), "gates": [g_b] if g_b else [], "start_after": 1}]}
        info["directed_plan"] = plan
        v = run_directed(ctx, plan, "cycle%d_%d" % (idx, attempt))
        info["directed_verdict"] = v
        ctx.say("directed schedule  %s  ||  %s  in %s: hang=%s, parking_lot deadlock cycles=%s"
                % (plan["threads"][0]["op"], plan["threads"][1]["op"], scn, v.get("hang"),
                   v.get("parking_lot_deadlock_cycles")))
        if v.get("hang"):
            break
    return info, refut


def run(ctx):
    ctx.trusted += [
        "the recording copies of parking_lot 0.12.5 / lock_api 0.4.14 in harness/vendor (wrappers around the unmodified raw locks; every lock/unlock/upgrade/downgrade of every guard type passes through them) and the driver harness-locks/c08 (API catalogue, engine states)",
        "lock CLASS = struct field holding the lock (derived from the #[track_caller] creation site); all instances of a field are one lock of the model — conservative for the rank discipline",
        "coverage of code paths is that of the catalogue: each operation's lock program is what the patched dependency recorded when the operation ran alone in the listed engine states; a lock acquired only on an unexercised path is not in the programs",
        "not modelled: tokio semaphores/channels, rayon joins, thread joins, condvars, std::sync locks, atomics used as locks; the server binary's own locks (tenant quota maps) are outside the library catalogue",
        "Model/Locks.v is a hand-written model of parking_lot's RwLock/Mutex admission rules (WRITER bit set by a queued writer blocks new readers; upgradable excludes upgradable/writers); fairness hand-off and timeouts are not modelled (irrelevant to deadlock as a safety property)",
    ]
    os.makedirs(RUN, exist_ok=True)

    # ---- replay of an earlier violation: re-run its directed plan
    if ctx.replay:
        ok, log = build_driver()
        ctx.log("cargo.log", log)
        rp = json.load(open(ctx.replay))
        plan = rp.get("directed_plan")
        if not ok or not plan:
            ctx.violation({"property": "C08", "kind": "replay-not-runnable", "build_ok": ok}, no_input=True)
            return
        v = run_directed(ctx, plan, "replay")
        ctx.say("replay: hang=%s finished=%s" % (v.get("hang"), v.get("finished")))
        ctx.cov.update({"evaluations": 1, "distinct_nontrivial": 1, "rule": "replay of one directed schedule"})
        if v.get("hang"):
            rp["replayed_verdict"] = v
            ctx.violation(rp)
        return

    # ---- 1. driver
    ok, log = build_driver()
    ctx.log("cargo.log", log)
    if not ok:
        ctx.say("driver build failed")
        ctx.proof_phase(["Properties/C08.vo"], THEOREMS, pins=PINS)
        ctx.violation({"property": "C08", "kind": "harness-build-failed", "log_tail": log[-3000:],
                       "unchecked": "lock programs of the current engine could not be recorded"}, no_input=True)
        return
    scratch = os.path.join(RUN, "scratch")
    shutil.rmtree(scratch, ignore_errors=True)
    # thorough: the catalogue is run three times (background-thread interleavings differ between runs;
    # the programs of all runs are pooled)
    reps = 1 if ctx.tier == "quick" else 3
    doc, rc, out = None, 0, ""
    for k in range(reps):
        tp = os.path.join(RUN, "traces.json")
        if os.path.exists(tp):
            os.remove(tp)
        rc, out = vlib.sh([BIN, "trace", "--out", RUN], timeout=900, env={"C08_SCRATCH": scratch, "RUST_LOG": "off"})
        ctx.log("trace_%d.log" % k, out)
        if rc != 0 or not os.path.exists(tp):
            doc = None
            break
        d = json.load(open(tp))
        if doc is None:
            doc = d
        else:
            for sc in d["scenarios"]:
                sc["scenario"] = "%s@@%d" % (sc["scenario"], k)
            doc["scenarios"] += d["scenarios"]
            doc["ops_run"] += d["ops_run"]
            doc["panics"] += d["panics"]
    if doc is None:
        ctx.proof_phase(["Properties/C08.vo"], THEOREMS, pins=PINS)
        kind = "trace-run-hung" if rc == 124 else "trace-run-crashed"
        ctx.violation({"property": "C08", "kind": kind, "rc": rc, "log_tail": out[-3000:],
                       "note": "a single-threaded catalogue run that hangs is itself a self-deadlock (re-acquisition of a held lock)"},
                      no_input=(rc != 124))
        return
    an = Analysis(doc)
    edgeset = sorted(an.edges)
    comps = an.sccs(edgeset)
    ctx.say("%d operations, %d segments, %d distinct programs, %d lock classes, %d edges, %d cyclic components, %d hazards"
            % (doc["ops_run"], len(an.segments), len(an.shape_list), len(an.classes), len(edgeset), len(comps), len(an.hazards)))

    # ---- 2. cycles.  Repeatedly: take a cyclic component, choose the edge to set aside (an occurrence
    #         matching a classifier if there is one, else the least supported edge of a shortest cycle),
    #         investigate it, drop the programs containing that edge, and look again.
    findings, excluded, refutations = [], [], []
    shapes = set(range(len(an.shape_list)))
    for _round in range(12):
        g = graph_of(an, shapes)
        comps_now = an.sccs(sorted(g))
        if not comps_now:
            break
        comp = comps_now[0]
        inner = [e for e in sorted(g) if e[0] in comp and e[1] in comp]
        tagged = [(e, tag_occurrence(an, e[0], e[1], o)) for e in inner for o in g[e]]
        tagged = [(e, t) for e, t in tagged if t]
        if tagged:
            edge, cid = tagged[0]
        else:
            cyc = pick_cycle_edges(an, comp, inner)
            edge = min(cyc, key=lambda e: (len(set(o["shape"] for o in g[e])), e))
            cid = None
        occs = g[edge]
        info, refut = investigate(ctx, an, len(findings), edge, occs, comp)
        info["classifier_id"] = cid
        # an occurrence of the same inverted edge outside the classified location is NOT known
        foreign = [o for o in occs if tag_occurrence(an, edge[0], edge[1], o) != cid]
        if cid and foreign:
            info["unclassified_occurrences_of_the_same_edge"] = [describe_edge(an, edge[0], edge[1], o) for o in _dedupe_occ(an, foreign)][:6]
        findings.append(info)
        if refut:
            refutations.append(refut)
        excluded.append(edge)
        shapes -= set(o["shape"] for o in occs)

    write_gen(an, excluded, refutations)

    # ---- 3. Coq: general theorems + the per-run instance
    inst_theorems = ["C08_instance", "C08_instance_lock_order_ok"] + \
                    ["C08_refuted_%d" % i for i in range(len(refutations))]
    thms = dict(THEOREMS)
    thms["gen.LockInstance_gen"] = inst_theorems
    proofs_ok = ctx.proof_phase(["Properties/C08.vo", "gen/LockInstance_gen.vo"], thms, pins=PINS)
    rcq, outq = vlib.coq_script(
        "From Coq Require Import List NArith.\nFrom Kyro Require Import Model.Locks gen.LockProgs_gen gen.LockInstance_gen.\nImport ListNotations.\nOpen Scope N_scope.\n"
        "Goal True. idtac \"@@counts\". Abort.\nEval vm_compute in (length progs, length progs_ok).\n"
        "Goal True. idtac \"@@whole_set_ok\". Abort.\nEval vm_compute in (lock_order_ok progs).\n"
        "Goal True. idtac \"@@rank\". Abort.\nEval vm_compute in (fst (topo (edges progs_ok))).\n"
        "Goal True. idtac \"@@end\". Abort.\n", "c08_counts")
    ctx.log("instance_queries.log", outq)
    tags = vlib.parse_tagged(outq)
    counts = vlib.parse_numbers(tags.get("counts", "").split(": nat")[0])[:2]
    whole_ok = ("true" in tags.get("whole_set_ok", "")) if "whole_set_ok" in tags else None
    rank_order = vlib.parse_numbers(tags.get("rank", "").split(": list")[0])
    rank_names = [an.name(c) for c in rank_order if 0 < c <= len(an.classes)]

    # ---- 4. evidence
    per_comp = collections.Counter()
    for seg in an.segments:
        if seg["thread"] == "main":
            per_comp[seg["op"].split("::")[0].split("[")[0]] += 1
    instr_hist = collections.Counter()
    for sh in an.shape_list:
        for k, _l, m in sh["instrs"]:
            instr_hist[("%s %s" % (k, m or "")).strip()] += 1
    shapes_per_op = collections.defaultdict(set)
    for seg in an.segments:
        if seg["thread"] == "main":
            shapes_per_op[seg["op"]].add(seg["instrs"])
    nontrivial = sum(1 for sh in an.shape_list if _max_nesting(sh["instrs"]) >= 2)
    ctx.cov.update({
        "evaluations": doc["ops_run"],
        "distinct_nontrivial": nontrivial,
        "rule": "one evaluation = one API operation run alone on the real engine in one scenario (component x engine state) with the recorder on; its lock events become one program per acting thread; a program counts as distinct non-trivial when, after collapsing lock instances to classes, it differs from every other program and holds at least two locks at once at some point",
        "scenarios": [s["scenario"] for s in doc["scenarios"]],
        "segments": len(an.segments),
        "background_thread_segments": sum(1 for s in an.segments if s["thread"] == "bg"),
        "truncated_background_segments_dropped": len(an.truncated),
        "distinct_programs": len(an.shape_list),
        "programs_in_instance_theorem": counts[1] if len(counts) > 1 else None,
        "operations_with_no_lock_event": sorted(op for op, shs in shapes_per_op.items() if shs == {()})[:60],
        "distinct_trace_shapes_per_operation": {op: len(shs) for op, shs in sorted(shapes_per_op.items())},
        "histogram": {"operations_per_component": dict(per_comp), "instructions": dict(instr_hist)},
        "lock_classes": {c: sorted(an.class_sites.get(c, [])) for c in an.classes},
        "held_before_edges": sorted("%s -> %s" % (an.name(a), an.name(b)) for a, b in edgeset),
        "rank_order_of_instance": rank_names,
        "max_locks_held_at_once": an.max_nesting,
        "cyclic_components": len(comps),
        "cycles_investigated": [{"classifier_id": i["classifier_id"], "inverted_edge": i["inverted_edge"],
                                 "confirmed_on_real_engine": bool(i.get("directed_verdict", {}).get("hang"))} for i in findings],
        "hazards": len(an.hazards),
        "whole_program_set_lock_order_ok": whole_ok,
        "panics_in_catalogue": doc.get("panics", []),
        "samples": [{"operation": "%s / %s" % sh["uses"][0][:2], "program": coq_prog(sh["instrs"])}
                    for sh in sorted(an.shape_list, key=lambda s: -_max_nesting(s["instrs"]))[:3]],
    })

    # ---- 5. decide
    bad = False
    for hz in an.hazards:
        bad = True
        sh = an.shape_list[hz["shape"]]
        ev = sh["seg"]["evmap"][min(hz["instr"], len(sh["seg"]["evmap"]) - 1)] if sh["seg"]["evmap"] else {}
        ctx.violation({"property": "C08", "kind": "lock-hazard", "hazard": hz["kind"], "lock_class": an.name(hz["lock"]),
                       "held_mode": hz.get("held_mode"), "requested_mode": hz.get("requested_mode"),
                       "operation": "%s / %s" % sh["uses"][0][:2], "program": coq_prog(sh["instrs"]),
                       "at": ev.get("site"), "truncated_background_segment": bool(sh["seg"].get("truncated")),
                       "meaning": {"RecursiveRead": "the thread re-acquires a read lock it already holds; with a writer queued in between (writer preference) it blocks forever",
                                   "UpgradeHazard": "the thread requests the write lock while holding the read lock: waits for itself",
                                   "Reacquire": "non-reentrant lock requested while held by the same thread",
                                   "Unbalanced": "release/upgrade/downgrade of a lock not held, or a lock still held at the end of the operation"}[hz["kind"]]},
                      no_input=True)
    for info in findings:
        cid = info["classifier_id"]
        confirmed = bool(info.get("directed_verdict", {}).get("hang"))
        what = "lock-order inversion %s -> %s (%s); real-engine directed schedule %s" % (
            info["inverted_edge"][0], info["inverted_edge"][1],
            " || ".join(x["operation"] for x in (info.get("thread_A"), info.get("thread_B")) if x),
            "HANGS (confirmed)" if confirmed else "did not hang / not run")
        f = ctx.classify_known(cid) if cid else None
        if f is not None and not info.get("unclassified_occurrences_of_the_same_edge"):
            ctx.known_hit(f, what)
            continue
        bad = True
        ctx.violation({"property": "C08", "kind": "lock-order-cycle",
                       "confirmed_by_directed_schedule": confirmed, **info,
                       "replay_cmd": "./check C08 --replay <this file>   (re-runs directed_plan on the real engine with a watchdog)"},
                      no_input=not (confirmed or info.get("model_stuck_schedule")))
    if doc.get("panics"):
        ctx.notes.append("operations that panicked in the catalogue run: %s" % doc["panics"][:10])
    shutil.rmtree(scratch, ignore_errors=True)
    if bad:
        return
    if not proofs_ok:
        # no cycle or hazard beyond known findings was found here, yet Coq does not accept the instance
        # (or a general theorem broke): widen the search — unguided model search over all program pairs
        ctx.say("Coq obligations failed without a cycle found here; searching all program pairs in the model")
        hit = None
        for i, a in enumerate(an.shape_list):
            for j, b in enumerate(an.shape_list):
                if i in shapes and j in shapes and i <= j and _max_nesting(a["instrs"]) >= 2 and _max_nesting(b["instrs"]) >= 2:
                    sc = find_stuck([a["instrs"], b["instrs"]], limit=20000)
                    if sc is not None:
                        hit = (i, j, sc)
                        break
            if hit:
                break
        if hit:
            i, j, sc = hit
            ctx.violation({"property": "C08", "kind": "model-deadlock", "failed": ctx.failed_obligations,
                           "thread_A": {"operation": "%s / %s" % an.shape_list[i]["uses"][0][:2], "program": coq_prog(an.shape_list[i]["instrs"])},
                           "thread_B": {"operation": "%s / %s" % an.shape_list[j]["uses"][0][:2], "program": coq_prog(an.shape_list[j]["instrs"])},
                           "model_stuck_schedule": sc})
        else:
            ctx.violation({"property": "C08", "kind": "no-failing-input-found", "failed": ctx.failed_obligations,
                           "note": "no cycle, hazard or two-thread stuck schedule was found beyond known findings, but the Coq obligations do not all check; see .cache/logs/C08/coq_make.log"},
                          no_input=True)


def _max_nesting(instrs):
    held, mx = 0, 0
    for k, _l, _m in instrs:
        if k in ("Acq", "TryAcq"):
            held += 1
        elif k == "Rel":
            held -= 1
        mx = max(mx, held)
    return mx


def _dedupe_occ(an, occs):
    seen, out = set(), []
    for o in occs:
        key = (an.site_of(o["shape"], o["held_at"]), an.site_of(o["shape"], o["req_at"]), o["held_mode"], o["req_mode"])
        if key in seen:
            continue
        seen.add(key)
        out.append(o)
    return out
