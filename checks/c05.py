"""C05 — per-document operations are linearizable under concurrency (DESIGN.md §3 C05).  PARTIAL:
proved on the interleaving model Model/Conc05.v (atomic steps = critical sections between lock
releases); tied to the real TieredEngine by (i) solo protocol-skeleton + result + post-state
correspondence, (ii) exhaustive one-preemption directed schedules through the gate table of the
recording parking_lot, compared with the model run of the same schedule inside coqc, (iii) seeded
OS-scheduled stress with a register-linearizability checker."""
import json
import os
import shutil
import vlib

LOCKS_WS = os.path.join(vlib.VERIF, "harness-locks")
LOCKS_TARGET = os.path.join(vlib.CACHE, "target-locks")
BIN = os.path.join(LOCKS_TARGET, "debug", "c05")
PAIRING = "C05-metadata-vector-pairing"
RESURRECT = "C05-drain-resurrects-concurrently-deleted-document"
# oracle failure kind -> (classifier id, model witness)
CLASSES = {
    "pairing": (PAIRING, "Properties.C05.C05_pairing_refuted / C05_pairing_refuted_bulk (pair_sched, bulk_sched)"),
    "drain-resurrect": (RESURRECT, "Properties.C05.C05_drain_resurrects_deleted_refuted (res_sched, hot_tier_hard_limit = 1)"),
}

THEOREMS = {"Properties.C05": [
    "C05_read_has_lin_point", "C05_meta_has_lin_point", "C05_register_linearizable",
    "C05_real_time_order", "C05_linearisation_subsequence", "C05_read_value_written",
    "C05_read_sees_completed_write", "C05_pairing_refuted", "C05_pairing_refuted_bulk",
    "C05_pairing_without_interleaved_write", "C05_read_after_completed_delete",
    "C05_drain_resurrects_deleted_refuted",
    "C05_insert_err_after_effect_witness", "C05_nonvacuous"]}
PINS = {"Properties.C05": {
    "_preamble": "From Coq Require Import List NArith ZArith Bool Arith Sorted. From Kyro Require Import Model.TMap Model.Tiered Model.Conc05 Proofs.Conc05Proofs. Import ListNotations.",
    "C05_read_has_lin_point": "forall (digest : vec -> dgst) (hard : nat), (forall a b : vec, digest a = digest b -> a = b) -> forall sh0 threads sched g, crun digest hard (ginit sh0 threads) sched = Some g -> forall t c cl r inv res id val, In (HRes t c cl r inv res) (g_hist g) -> In (id, val) (vec_components r) -> exists k gk, inv <= k <= res /\\ crun digest hard (ginit sh0 threads) (firstn (S k) sched) = Some gk /\\ option_map c_vec (lookup id (s_cold (g_sh gk))) = val",
    "C05_drain_resurrects_deleted_refuted": "exists (digest : vec -> dgst) (hard : nat), (forall a b : vec, digest a = digest b -> a = b) /\\ exists sh0 threads sched g id v td cd invd resd tr cr ar invr resr, crun digest hard (ginit sh0 threads) sched = Some g /\\ In (HRes td cd (CDelete id) (RDel true) invd resd) (g_hist g) /\\ In (HRes tr cr (CQuery ar id) (RVec id (Some v)) invr resr) (g_hist g) /\\ resd < invr /\\ never_inserted g id",
    "C05_pairing_refuted": "exists (digest : vec -> dgst) (hard : nat), (forall a b : vec, digest a = digest b -> a = b) /\\ exists sh0 threads sched g t c r inv res id v m, crun digest hard (ginit sh0 threads) sched = Some g /\\ In (HRes t c (CGetDoc id) r inv res) (g_hist g) /\\ In (id, (v, m)) (pair_components r) /\\ mixed_pair (chron (g_log g)) (s_cold sh0) id v m",
}}


def build_driver():
    with vlib.FileLock("cargo-locks"):
        lock = os.path.join(LOCKS_WS, "Cargo.lock")
        if not os.path.exists(lock):
            shutil.copy(os.path.join(vlib.REPO, "Cargo.lock"), lock)
        rc, out = vlib.sh(["cargo", "build", "--offline", "-p", "kvl-c05"], cwd=LOCKS_WS, timeout=3000)
    return rc == 0, out


def run_driver(ctx, out, n, tier, seed, replay=None):
    shutil.rmtree(out, ignore_errors=True)
    os.makedirs(out, exist_ok=True)
    args = [BIN, "--out", out, "--n", str(n), "--tier", tier]
    if replay:
        args += ["--replay", replay]
    rc, o = vlib.sh(args, env={"VERIF_SEED": str(seed)}, timeout=3000)
    ctx.log("harness_%s.log" % os.path.basename(out), o)
    if rc != 0:
        return None, o
    return json.load(open(os.path.join(out, "summary.json"))), o


def brief(case):
    """the part of a case a reader needs to replay it: states, programs, schedule, observed results"""
    keep = ("kind", "state_name", "states", "call", "thread_A", "thread_B", "schedule", "pause_before_section",
            "result", "result_A", "result_B", "then", "result_then", "hard_limit", "initial", "programs", "observed", "canonical_writes_in_order")
    return {k: case[k] for k in keep if k in case}


def split_failures(ctx, summ):
    """known-finding classification over the SPECIFIC input classes; returns (failures per class, unknown failures)"""
    by_kind = {k: [f for f in summ["oracle_failures"] if f["kind"] == k] for k in CLASSES}
    unknown = [f for f in summ["oracle_failures"] if f["kind"] not in CLASSES]

    def rank(f):
        # prefer the witness schedules of the refutation theorems for a stable report
        c = f["case"]
        if f["kind"] == "pairing":
            return 0 if (c.get("state_name") == "fresh-insert" and c.get("thread_A", {}).get("op") == "get_document_with_metadata"
                         and c.get("pause_before_section") == 1) else 1
        return 0 if (c.get("state_name") == "limit/fresh-insert" and c.get("thread_A", {}).get("op") == "delete"
                     and c.get("pause_before_section") == 1) else 1
    head = []
    for kind, fs in by_kind.items():
        if not fs:
            continue
        fs.sort(key=rank)
        known = ctx.classify_known(CLASSES[kind][0])
        ops = sorted({f["case"].get("thread_A", {}).get("op", "stress") + "||" + f["case"].get("thread_B", {}).get("op", "") for f in fs})
        if known:
            ctx.known_hit(known, "%d failing schedules/histories on the real engine (%s); e.g. %s" % (len(fs), ", ".join(ops), fs[0]["why"][:200]))
        else:
            head.append(fs[0])
    return by_kind, head + unknown


def report(ctx, f, extra=None):
    obj = {"property": "C05", "kind": "oracle:" + f["kind"], "why": f["why"],
           "classifier_id": CLASSES.get(f["kind"], (None, None))[0],
           "model_witness": CLASSES.get(f["kind"], (None, None))[1],
           "case": f["case"] if f["kind"] == "digest-premise" else brief(f["case"]),
           "replay_cmd": "./check C05 --replay <this file>"}
    if extra:
        obj.update(extra)
    ctx.violation(obj)


def run(ctx):
    quick = ctx.tier == "quick"
    n = 400 if quick else 6000
    ctx.trusted += [
        "PARTIAL: the theorems are about the interleaving model Model/Conc05.v whose atomic steps are the critical sections between lock releases; preemption inside a lock-protected region and the memory ordering of atomics are not exhibited",
        "premise of every theorem (explicit hypothesis): the 128-bit coherence digest (coherence.rs digest_embedding) is injective on the vectors in play",
        "the recording copies of parking_lot / lock_api (harness/vendor, verif_trace.rs): event recorder and gate table; the driver harness-locks/c05 (state planting through the public handles cold_tier()/hot_tier()/the shared LruCacheStrategy, decoding of tagged vectors/metadata/digests, the Wing-Gong register checker)",
        "lock classes are derived from lock creation sites; statistics / circuit-breaker / HNSW-internal scratch locks are ignored in the skeleton comparison (they do not touch the modelled state); any lock of an unlisted class fails the correspondence",
        "model restrictions: circuit breakers closed, hot tier below its hard limit, no background flush task (its effect on the mirror is the PokeHot environment step; its orphan-repair write into the cold tier is not modelled), LRU admission (always admit), valid vectors, update_metadata / batch_delete not modelled, the boolean answered by delete and the Ok/Err answered by insert are not part of the register specification (an insert that answers Err after its cold-tier write took effect is linearised as a write)",
        "directed schedules cover ONE preemption of call A (before each of its top-level critical sections) by one complete call B, 2 threads; more preemptions / 3 threads only through the OS-scheduled stress",
    ]
    proofs_ok = ctx.proof_phase(["Properties/C05.vo"], THEOREMS, pins=PINS)
    ctx.say("proof phase done (%s)" % ("ok" if proofs_ok else "FAILED"))

    ok, log = build_driver()
    ctx.log("cargo.log", log)
    if not ok:
        ctx.say("driver build failed")
        ctx.violation({"property": "C05", "kind": "harness-build-failed", "log_tail": log[-3000:],
                       "unchecked": "correspondence Model/Conc05.v vs engine/src/tiered_engine.rs and the direct oracles"}, no_input=True)
        return
    out = os.path.join(vlib.CACHE, "run", "C05")
    summ, o = run_driver(ctx, out, n, ctx.tier, ctx.seed, ctx.replay)
    if summ is None:
        ctx.violation({"property": "C05", "kind": "harness-crashed", "log_tail": o[-3000:]}, no_input=True)
        return
    ctx.say("driver: %d solo, %d directed, %d stress, %d oracle failures" % (summ["solo"], summ["directed"], summ["stress"], len(summ["oracle_failures"])))
    allc = json.load(open(os.path.join(out, "all_cases.json")))
    shards = [open(os.path.join(out, "cases_%d.v" % i)).read() for i in range(summ["shards"])]
    res = vlib.coq_eval("C05", shards)
    bad, bad_parts, evaluated, coq_err = [], {"bad_res": [], "bad_post": [], "bad_locks": []}, 0, []
    for i, (rc, o) in enumerate(res):
        tags = vlib.parse_tagged(o)
        if rc != 0 or "bad" not in tags or "count" not in tags:
            coq_err.append({"shard": i, "rc": rc, "out": o[-1500:]})
            continue
        bad += vlib.parse_numbers(tags["bad"].split(":")[0])
        for k in bad_parts:
            bad_parts[k] += vlib.parse_numbers(tags.get(k, "").split(":")[0])
        evaluated += vlib.parse_numbers(tags["count"].split(":")[0])[0]
    bad = sorted(set(bad))
    ctx.say("coqc evaluated %d cases against the model, %d disagree" % (evaluated, len(bad)))
    by_kind, unknown = split_failures(ctx, summ)
    ctx.cov.update({
        "evaluations": summ["cases"],
        "distinct_nontrivial": summ["nontrivial"],
        "rule": "at hot_tier_hard_limit = 1: insert of another id runs the emergency drain (solo skeleton in 3 states; directed: delete(7) cut at every section vs that insert, and that insert cut at every section vs delete / insert / read of the drained id 7, each followed by a point read of 7 after both returned). Otherwise: solo: 8 planted states (absent / fresh insert / cold+L1 / stale mirror+L1 / corrupt mirror+L1 / orphans / all fresh / cold only) x 7 calls run alone with the lock recorder on; directed: for each of those, call A stopped by the gate table before EACH of its top-level critical sections while B in {insert new, delete, query, get_document, insert same vector other metadata} runs to completion (one preemption, exhaustive over the cut point; quick tier thins read-only B's on the long insert program); stress: VERIF_SEED-derived programs of 2-4 calls on 2 ids for 2-3 OS-scheduled threads with tagged values. Non-trivial = distinct (state, A, B, cut, results) with a write involved and the cut strictly inside A, plus distinct stress histories in which a write overlapped another call in real time (recorder order)",
        "samples": summ["samples"][:3],
        "histogram": summ["histogram"],
        "solo_cases": summ["solo"], "directed_schedules": summ["directed"], "stress_histories": summ["stress"],
        "traces_validated_against_impl": evaluated,
        "model_disagreements": len(bad),
        "model_disagreements_by_part": {k: len(v) for k, v in bad_parts.items()},
        "oracle_failures": len(summ["oracle_failures"]),
        "oracle_failures_by_recorded_class": {CLASSES[k][0]: len(v) for k, v in by_kind.items()},
        "harness_problems": len(summ["harness_problems"]),
        "observations_outside_the_read_clauses": [{"what": x["what"], "count": x["count"]} for x in summ["observations"]],
    })
    for x in summ["observations"]:
        ctx.notes.append("observed on the real engine (%d directed schedules): %s — not a read-clause failure; modelled (C05_insert_err_after_effect_witness / RDel) and linearised as a write" % (x["count"], x["what"]))
    # --- decide
    if unknown:
        seen = set()
        for f in unknown:
            if f["kind"] in seen:
                continue
            seen.add(f["kind"])
            report(ctx, f, {"failures_of_this_kind": len([x for x in summ["oracle_failures"] if x["kind"] == f["kind"]])})
        return
    broken = []
    if not proofs_ok:
        broken.append({"kind": "proof-obligations", "failed": ctx.failed_obligations})
    if coq_err:
        broken.append({"kind": "cases-evaluation-error", "detail": coq_err[:2]})
    if bad:
        by_id = {c.get("case"): c for c in allc}
        broken.append({"kind": "correspondence", "disagreeing_case_ids": bad[:20],
                       "parts": {k: v[:10] for k, v in bad_parts.items()},
                       "first_case": brief(by_id.get(bad[0], {}))})
    if summ["harness_problems"]:
        broken.append({"kind": "observation-not-decodable-or-gate-failed", "first": summ["harness_problems"][0].get("harness_problem"),
                       "case": brief(summ["harness_problems"][0])})
    if broken and not ctx.replay:
        ctx.say("proof/correspondence broken; widening the directed family and the stress")
        summ2, o2 = run_driver(ctx, out + "_search", 8000, "thorough", ctx.seed + 7919)
        if summ2 is not None:
            _, unknown2 = split_failures(ctx, summ2)
            if unknown2:
                report(ctx, unknown2[0], {"broken": broken})
                return
        ctx.violation({"property": "C05", "kind": "no-failing-input-found", "broken": broken,
                       "note": "the model and the real engine disagree (or a theorem no longer checks), but neither the full one-preemption directed family nor 8000 further seeded stress histories produced a read that is not linearizable (outside the recorded pairing class)"},
                      no_input=True)
    elif broken:
        ctx.violation({"property": "C05", "kind": "no-failing-input-found", "broken": broken}, no_input=True)
