"""C11 — metadata filters select exactly the matching documents (DESIGN.md §3 C11)."""
import json
import os
import re
import shutil
import vlib
from checks import _translator

THEOREMS = {"Properties.C11gen": ["C11_generated_okey_matches_model", "C11_generated_okey_order", "C11gen_nonvacuous"],
            "Properties.C11": ["C11_index_consistent", "C11_filter_exact", "C11_filter_exact_ordered", "C11_batch_delete_exact",
                               "C11_okey_order", "C11_nonvacuous"],
            # TieredEngine level (Model/Tiered.v filter_delete / opx, Proofs/TieredFilterProofs.v)
            "Properties.C11tier": ["C11tier_mirror_meta_fresh", "C11tier_filter_delete_exact", "C11tier_filter_delete_exact_state",
                                   "C11tier_mirror_merge_variant_refuted", "C11tier_nonvacuous"]}
PINS = {"Properties.C11": {
    "_preamble": "From Coq Require Import List NArith ZArith Bool. From Kyro Require Import Model.Filter Proofs.FilterLemmas Proofs.FilterProofs. Import ListNotations.",
    "C11_index_consistent": "forall (parse : str -> option Z) (s : state), reachable parse s -> lookups_agree (idx s) (rebuild_from parse (slots s))",
    "C11_filter_exact": "forall (parse : str -> option Z) (s : state) (f : mfilter), reachable parse s -> (forall d, In d (ids_for_filter parse s f) <-> In d (map fst (filter (fun dm => matches parse f (snd dm)) (live_docs (slots s))))) /\\ NoDup (ids_for_filter parse s f)",
    "C11_filter_exact_ordered": "forall (parse : str -> option Z) (s : state) (f : mfilter), reachable parse s -> ids_for_filter parse s f = map fst (filter (fun dm => matches parse f (snd dm)) (live_docs (slots s)))",
    "C11_batch_delete_exact": "forall (parse : str -> option Z) (s : state) (f : mfilter), reachable parse s -> forall d m, In (d, m) (live_docs (slots (fst (step parse s (OBatchDeleteFilter f))))) <-> In (d, m) (live_docs (slots s)) /\\ matches parse f m = false",
    "C11_okey_order": "forall a b : Z, (0 <= a < two64)%Z -> (0 <= b < two64)%Z -> f64_is_nan a = false -> f64_is_nan b = false -> (okey a <=? okey b)%Z = f64_le a b /\\ (okey a <? okey b)%Z = f64_lt a b /\\ ((okey a =? okey b)%Z = f64_eq a b)",
},
    "Properties.C11tier": {
    "_preamble": "From Coq Require Import List NArith ZArith Bool Arith. From Kyro Require Import Model.TMap Model.Tiered Proofs.TieredProofs Proofs.TieredFilterProofs. Import ListNotations.",
    "C11tier_mirror_meta_fresh": "forall (digest : vec -> dgst) (valid : vec -> bool), (forall a b : vec, digest a = digest b -> a = b) -> forall (c : config) (docs : list (N * vec * meta)) (ops : list opx), forallb no_hot_poke_x ops = true -> let s := runx digest valid c (init docs) ops in forall (id : N) (h : hent), lookup id (hot s) = Some h -> exists r, lookup id (cold s) = Some r /\\ h_meta h = c_meta r",
    "C11tier_filter_delete_exact": "forall (digest : vec -> dgst) (valid : vec -> bool), (forall a b : vec, digest a = digest b -> a = b) -> forall (c : config) (docs : list (N * vec * meta)) (ops : list opx) (f : tfilter), forallb no_hot_poke_x ops = true -> let s := runx digest valid c (init docs) ops in let r := stepx digest valid c s (OFilterDelete f) in let sel := fun id => match lookup id (cold s) with Some rc => tmatch f (c_meta rc) | None => false end in (forall id, lookup id (cold (fst r)) = if sel id then None else lookup id (cold s)) /\\ (forall id, lookup id (hot (fst r)) = if sel id then None else lookup id (hot s)) /\\ (exists L, NoDup L /\\ (forall id, In id L <-> sel id = true) /\\ snd r = RCount (Some (length L)))",
},
    "Properties.C11gen": {
    "_preamble": "From Coq Require Import ZArith Bool. From Kyro Require Import Model.Filter gen.OrderedF64_gen Proofs.FilterLemmas Proofs.OrderedF64GenProofs. Open Scope Z_scope.",
    "C11_generated_okey_matches_model": "forall v : Z, 0 <= v < two64 -> OrderedF64_gen.from_f64 v = Filter.okey v",
}}

TRUSTED = [
    "Model/Filter.v is a hand transcription of metadata_filter.rs and of MetadataInvertedIndex / compile_filter_to_bitmap / ids_for_metadata_filter / insert / update_metadata / delete / batch_delete / compact_tombstones / recovery in hnsw_backend.rs; it is tied to the code on every run only by the differential correspondence below (final-state ids in exact internal order, scan(matches) results and every per-operation result), not by translation",
    "str::parse::<f64>() is an uninterpreted function in every theorem (they hold for all parse functions); in the correspondence its graph on the strings of a case is computed by Rust itself and passed as data (bit patterns), so no float parser is modelled",
    "f64 comparison = sign-magnitude comparison of IEEE-754 bit patterns with NaN unordered and -0 = +0 (Model/Filter.v f64_lt/f64_le); checked on every run against Rust's own operators on all ordered pairs of the corpus values (fbad must be empty); OrderedF64::from_f64 is transcribed on bit patterns (`bits | 1<<63` as +2^63, `!bits` as 2^64-1-bits) and proved order-isomorphic (C11_okey_order)",
    "RoaringTreemap is modelled as a finite set of internal ids with ascending iteration; HashMap/BTreeMap levels of the index as association lists (a BTreeMap range query as a key filter); DocumentStore.external_to_internal as the derived lookup over internal_to_external",
    "recovery is modelled at the store level (live documents in ascending external-id order, index rebuilt); that WAL+snapshot reproduce the live documents is C02's statement, checked here only through the recover operations of the seeded histories",
    "scope of Model/Filter.v: the cold tier (HnswBackend); the c11 driver replays the cold-tier part of the filtered delete (ids_for_metadata_filter, sort, dedup, batch_delete)",
    "TieredEngine::batch_delete_by_metadata_filter (hot-tier scan over the MIRROR's metadata, union with the cold-tier index, batch_delete) is modelled in Model/Tiered.v (filter_delete, operation type opx = every C04 operation + OFilterDelete) over interned metadata and the filter shapes All / Exact / In / Not / And / Or (Range needs the string/number parser and stays at the backend level); the cold-tier selection is modelled by its specification (the documents whose stored metadata matches), which is C11_filter_exact; C11tier_* are proved over that model, which is tied to the code by the per-operation full-state correspondence of the c04 driver run with --filter-deletes (same trusted base as C04: digest_inj premise, `valid` instantiated from the vector pool, admission decisions recorded from the real strategy) and by the direct oracle over the engine's own metadata_filter::matches",
    "C11tier premise no_hot_poke_x: mirror entries planted through HotTier::insert_with_coherence by a harness are excluded (they carry harness-chosen metadata); every public TieredEngine operation and L1a cache pokes are included",
]

TIER_KINDS = ("filter-delete-inexact", "filter-delete-count", "filter-delete-survivor-changed", "filter-delete-mirror-left")


def _pairs(text):
    nums = vlib.parse_numbers(text)
    return [(nums[i], nums[i + 1]) for i in range(0, len(nums) - 1, 2)]


def _run_driver(ctx, out, n, per_state, seed, replay=None, timeout=1500):
    if os.path.isdir(out):
        shutil.rmtree(out)
    os.makedirs(out, exist_ok=True)
    args = [vlib.bin_path("c11"), "--out", out, "--n", str(n), "--coq-per-state", str(per_state)]
    if replay:
        args += ["--replay", replay]
    rc, o = vlib.sh(args, env={"VERIF_SEED": str(seed)}, timeout=timeout)
    return rc, o


def _is_tiered_replay(path):
    """A replay written by the tiered stage carries a c04-driver case (ops_raw)."""
    if not path:
        return False
    try:
        v = json.load(open(path))
    except Exception:
        return False
    c = v.get("case", v) if isinstance(v, dict) else None
    return isinstance(c, dict) and "ops_raw" in c


def _run_fd(out, n, seed, replay=None, timeout=1500):
    os.makedirs(out, exist_ok=True)
    for f in os.listdir(out):
        p = os.path.join(out, f)
        if os.path.isfile(p):
            os.remove(p)
    args = [vlib.bin_path("c04"), "--out", out, "--n", str(n), "--filter-deletes"]
    if replay:
        args += ["--replay", replay]
    return vlib.sh(args, env={"VERIF_SEED": str(seed)}, timeout=timeout)


def _tiered(ctx, quick, replay):
    """TieredEngine-level stage: seeded histories with batch_delete_by_metadata_filter through the c04
    driver (`--filter-deletes`), full-state correspondence with Model/Tiered.v inside coqc, direct
    exactness oracle. Returns {"crash":…} or {"oracle": [...], "broken": [...]} and fills ctx.cov."""
    from checks import c04 as _c04
    out = os.path.join(vlib.CACHE, "run", "C11tier")
    rounds = [(240, ctx.seed)] if quick else [(1500, ctx.seed + 7919 * k) for k in range(4)]
    if replay:
        rounds = [(0, ctx.seed)]
    tot = {"cases": 0, "ops": 0, "directed": 0}
    fdt, hist, oracle, bad_all, coq_err_all, cases_eval, ops_eval = {}, {}, [], [], [], 0, 0
    first_bad = None
    sample = None
    for (n, seed) in rounds:
        rc, o = _run_fd(out, n, seed, replay)
        ctx.log("harness_tiered.log", o)
        if rc != 0:
            return {"crash": {"property": "C11", "kind": "harness-crashed", "stage": "tiered (c04 --filter-deletes)", "rc": rc,
                              "seed": seed, "log_tail": o[-3000:]}}
        summ = json.load(open(os.path.join(out, "summary.json")))
        allc = json.load(open(os.path.join(out, "all_cases.json")))
        for k in tot:
            tot[k] += summ.get(k, 0)
        for k, v in summ.get("filter_deletes", {}).items():
            fdt[k] = fdt.get(k, 0) + v
        for k, v in summ["histogram"].items():
            if k.startswith("op:"):
                hist[k] = hist.get(k, 0) + v
        sample = sample or (summ["samples"][:1] or allc[:1])
        oracle += summ["oracle_failures"]
        bad, ce, oe, coq_err = _c04._coq_eval("C11tier", out, summ)
        cases_eval += ce
        ops_eval += oe
        coq_err_all += coq_err
        if bad and first_bad is None:
            cid, step = bad[0]
            first_bad = (allc[cid] if cid < len(allc) else None, step, seed)
        bad_all += [(cid, step, seed) for (cid, step) in bad]
    ctx.cov["tiered"] = {
        "rule": "TieredEngine level: seeded histories (5-28 ops, 6 ids, 3 keys x 3 values) through the public API with batch_delete_by_metadata_filter: documents stay hot-resident (soft 3/100, hard 2/4), receive merge AND replace updates (half of the replaces drop exactly one key of the document), filters aim at dropped bindings (Exact / In / Or / And-Not / double negation) or are random trees of depth <= 3 incl. unset filter_type, operand-less NOT, empty AND/OR; forced/threshold drains, ticks, bulk loads, deletes, L1a pokes in between; 4 directed histories first (the witness of C11tier_mirror_merge_variant_refuted before and after a drain). After EVERY op the result and the full state (cold, hot mirror incl. its metadata, both L1a caches, counters) are compared with Model/Tiered.v inside coqc; the oracle reads the canonical metadata of every id before each filtered delete, evaluates the engine's own metadata_filter::matches on it, and requires: removed ids == matching ids, returned count == their number, every survivor's canonical record unchanged, no mirror entry of a removed id left",
        "histories": tot["cases"],
        "directed_histories": tot["directed"],
        "operations_run": tot["ops"],
        "histories_compared_in_coq": cases_eval,
        "operations_compared_in_coq": ops_eval,
        "filtered_deletes": fdt.get("filtered_deletes", 0),
        "filtered_deletes_that_removed_a_document": fdt.get("removed_at_least_one_document", 0),
        "filtered_deletes_with_hot_resident_document_after_key_dropping_replace": fdt.get("with_hot_resident_document_after_key_dropping_replace", 0),
        "filtered_deletes_whose_selection_differs_if_the_mirror_merged_replaces": fdt.get("selection_differs_if_mirror_merged_replaces", 0),
        "filtered_deletes_with_cold_only_documents_after_a_drain": fdt.get("with_cold_only_documents_after_a_drain", 0),
        "histories_with_filtered_delete": fdt.get("histories_with_filtered_delete", 0),
        "op_histogram": hist,
        "model_disagreements": len(bad_all),
        "oracle_failures": len(oracle),
        "sample": sample,
    }
    ctx.cov["traces_validated_against_impl_tiered"] = cases_eval
    broken = []
    if coq_err_all:
        broken.append({"kind": "tiered-cases-evaluation-error", "detail": coq_err_all[:2]})
    if bad_all:
        case, step, seed = first_bad
        small = _c04.shrink_disagreement("C11tier", case, budget=30) if case else None
        broken.append({"kind": "tiered-correspondence", "disagreements": len(bad_all),
                       "first": {"case_id": bad_all[0][0], "step": step, "seed": seed},
                       "minimised_disagreeing_history": small,
                       "note": "Model/Tiered.v and the real TieredEngine differ in an operation result or in the state (cold / hot mirror incl. metadata / L1a / counters) after that step"})
    return {"oracle": oracle, "broken": broken}


def _tiered_violation(ctx, f, broken=None):
    from checks import c04 as _c04
    small = _c04.shrink_oracle("C11tier", f["case"])
    obj = {"property": "C11", "level": "TieredEngine::batch_delete_by_metadata_filter",
           "kind": "oracle:" + f["kind"], "why": f["why"], "op_index": f.get("op_index"),
           "case": small, "original_case": f["case"],
           "replay_cmd": "./check C11 --replay <this file>   (or: c04 --out DIR --replay <this file>)"}
    if broken:
        obj["broken"] = broken
    ctx.violation(obj)


def run(ctx):
    quick = ctx.tier == "quick"
    tier_replay = ctx.replay if _is_tiered_replay(ctx.replay) else None
    backend_replay = None if tier_replay else ctx.replay
    n = 12 if quick else 72
    per_state = 200 if quick else 0          # 0 = every Rust-side pair is also evaluated in Coq
    ctx.trusted += TRUSTED
    ctx.trusted.append("harness/p/translator target ordered_f64 (syn parser + typed Rust-subset -> Gallina translator, fails closed): OrderedF64::from_f64 on bit patterns in Z (`==` on floats is Filter.f64_eq, float literals become their exact bits, `!x` is Z.lnot x mod 2^64, `1u64 << 63` carries mod 2^64); the derived Ord of the tuple struct is the integer order (the translator checks the derive)")
    # regenerate coq/gen/OrderedF64_gen.v from hnsw_backend.rs (fails closed); Properties/C11gen.v proves it equal to Filter.okey
    gen = _translator.regen(ctx, "ordered_f64", "OrderedF64_gen", also_build=["c11"])
    proofs_ok = ctx.proof_phase(["Properties/C11.vo", "Properties/C11gen.vo", "Properties/C11tier.vo"], THEOREMS, pins=PINS)
    gen_broken = []
    if gen["broken"]:
        gen_broken.append(gen["broken"])
    elif _translator.stale_vo("OrderedF64_gen"):
        gen_broken.append({"kind": "generated-model-did-not-compile", "file": "coq/gen/OrderedF64_gen.v"})

    ok, log = vlib.cargo_build(["c11", "c04"])
    ctx.log("cargo.log", log)
    if not ok:
        ctx.say("harness build failed")
        ctx.violation({"property": "C11", "kind": "harness-build-failed", "log_tail": log[-3000:],
                       "unchecked": "correspondence Model/Filter.v vs engine/src/{metadata_filter,hnsw_backend}.rs and Model/Tiered.v (filter_delete) vs engine/src/tiered_engine.rs"},
                      no_input=True)
        return
    out = os.path.join(vlib.CACHE, "run", "C11", "main")
    rc, o = _run_driver(ctx, out, n, per_state, ctx.seed, backend_replay)
    ctx.log("harness.log", o)
    if rc != 0:
        ctx.violation({"property": "C11", "kind": "harness-crashed", "rc": rc, "log_tail": o[-3000:]}, no_input=True)
        return
    summ = json.load(open(os.path.join(out, "summary.json")))
    allc = json.load(open(os.path.join(out, "all_cases.json")))
    shards = [open(os.path.join(out, "cases_%d.v" % i)).read() for i in range(summ["shards"])]
    res = vlib.coq_eval("C11", shards, timeout=900 if quick else 3000)
    bad, evaluated, coq_err, fbad, frows = [], 0, [], [], 0
    for i, (rc, o) in enumerate(res):
        tags = vlib.parse_tagged(o)
        if rc != 0 or "bad" not in tags or "count" not in tags:
            coq_err.append({"shard": i, "rc": rc, "out": o[-1500:]})
            continue
        bad += _pairs(tags["bad"].split(":")[0])
        evaluated += vlib.parse_numbers(tags["count"].split(":")[0])[0]
        if "fbad" in tags:
            fb = tags["fbad"].split(":")[0]
            if re.search(r"\d", fb):
                fbad.append(fb.strip()[:400])
            frows += vlib.parse_numbers(tags.get("fcount", "0").split(":")[0])[0]
    ctx.cov.update({
        "evaluations": summ["pairs_rust"],
        "distinct_nontrivial": summ["distinct_nontrivial"],
        "rule": "seeded histories (insert/overwrite, merge+replace update, delete, batch delete by ids and by filter, recovery on persistent backends, compaction through index-full inserts at capacity 5/8) over 6 external ids x 2-3 keys x a 40-string value corpus (ints, decimals, exponents, +-0, +-inf, NaN spellings, leading '+', whitespace, empty, non-ASCII, 10 kB strings); on each final state: ALL atoms (exact, 4 range operators and unset bound, in-lists) over 2 keys x corpus, all NOT(atom), empty AND/OR, NOT(unset), all ordered AND/OR pairs over semantic representatives, depth-3 combinations incl. uncompilable-inside shapes, 200 random trees of depth 4-6. Each (filter, state) pair compares HnswBackend::ids_for_metadata_filter with scan(metadata_filter::matches) (oracle, all pairs) and both with the Coq model inside coqc (a seeded stratified subset per state in the quick tier, all in thorough). distinct_nontrivial counts distinct (live census, filter) pairs whose result is neither empty nor the whole live set",
        "samples": summ.get("samples", [])[:2],
        "histogram": summ.get("histogram", {}),
        "states": summ["states"],
        "pairs_checked_by_oracle_in_rust": summ["pairs_rust"],
        "pairs_evaluated_in_coq": evaluated,
        "traces_validated_against_impl": evaluated,
        "f64_comparison_rows_checked_in_coq": frows,
        "fallback_filters": summ.get("fallback_filters", 0),
        "order_mismatches_index_vs_scan": summ.get("order_mismatches", 0),
        "model_disagreements": len(bad),
        "oracle_failures": len(summ["oracle_failures"]),
        "rust_eval_ms": summ.get("rust_ms"),
    })
    # --- TieredEngine level (skipped when a backend-level case is being replayed)
    tier = {"oracle": [], "broken": []}
    if not backend_replay:
        tier = _tiered(ctx, quick, tier_replay)
        if "crash" in tier:
            ctx.violation(tier["crash"], no_input=True)
            return
    # --- decide
    if summ["oracle_failures"]:
        f = summ["oracle_failures"][0]
        ctx.violation({"property": "C11", "kind": "oracle", "why": f.get("why"), "case": f.get("case"),
                       "ids_index": f.get("ids_index"), "ids_scan": f.get("ids_scan"),
                       "more_failures": len(summ["oracle_failures"]) - 1,
                       "replay_cmd": "./check C11 --replay <this file>"})
        return
    if tier["oracle"]:
        mine = [f for f in tier["oracle"] if f["kind"] in TIER_KINDS] or tier["oracle"]
        _tiered_violation(ctx, mine[0], tier["broken"])
        return
    broken = list(gen_broken) + tier["broken"]
    if not proofs_ok:
        broken.append({"kind": "proof-obligations", "failed": ctx.failed_obligations})
    if coq_err:
        broken.append({"kind": "cases-evaluation-error", "detail": coq_err[:2]})
    if fbad:
        broken.append({"kind": "f64-comparison-model-disagrees-with-rust", "rows": fbad[:3]})
    if bad:
        first = None
        try:
            st = allc[bad[0][0]]
            first = {"state": bad[0][0], "qid": bad[0][1], "cap": st.get("cap"), "persistent": st.get("persistent"),
                     "ops": st.get("ops"), "outs": st.get("outs"),
                     "query": next((q for q in st.get("filters", []) if q.get("qid") == bad[0][1]), None)}
        except Exception:
            pass
        broken.append({"kind": "correspondence", "disagreeing_(state,qid)": bad[:20], "first_case": first,
                       "note": "qid 999999 = per-operation results of the history differ"})
    if broken:
        ctx.say("proof/correspondence broken; widening the oracle search (more seeds, all filters incl. deep trees)")
        found = []
        for k in range(3):
            sout = os.path.join(vlib.CACHE, "run", "C11", "search%d" % k)
            rc, o = _run_driver(ctx, sout, 60, 1, ctx.seed + 7919 * (k + 1), timeout=1500)
            try:
                found = json.load(open(os.path.join(sout, "summary.json")))["oracle_failures"]
            except Exception:
                found = []
            if found:
                break
        tfound = []
        if not found and not ctx.replay:
            # TieredEngine level: more filtered-delete histories
            for k in range(3):
                tout = os.path.join(vlib.CACHE, "run", "C11tier_search")
                rc, o = _run_fd(tout, 3000, ctx.seed + 104729 * (k + 1))
                try:
                    tfound = json.load(open(os.path.join(tout, "summary.json")))["oracle_failures"]
                except Exception:
                    tfound = []
                if tfound:
                    break
            shutil.rmtree(os.path.join(vlib.CACHE, "run", "C11tier_search"), ignore_errors=True)
        if found:
            f = found[0]
            ctx.violation({"property": "C11", "kind": "oracle", "why": f.get("why"), "case": f.get("case"),
                           "ids_index": f.get("ids_index"), "ids_scan": f.get("ids_scan"), "broken": broken})
        elif tfound:
            _tiered_violation(ctx, ([f for f in tfound if f["kind"] in TIER_KINDS] or tfound)[0], broken)
        else:
            tb = next((b for b in broken if b.get("kind") == "tiered-correspondence"), None)
            ctx.violation({"property": "C11", "kind": "no-failing-input-found", "broken": broken,
                           "case": tb["minimised_disagreeing_history"] if tb else None,
                           "note": "the model and the implementation disagree, or a theorem no longer checks, but ids_for_metadata_filter == scan(matches) held on every (filter,state) pair of 180 further seeded histories (about 400k pairs) and every filtered delete of 9000 further TieredEngine histories removed exactly the documents whose canonical metadata matched"},
                          no_input=True)
