"""C11 — metadata filters select exactly the matching documents (DESIGN.md §3 C11)."""
import json
import os
import re
import shutil
import vlib
from checks import _translator

THEOREMS = {"Properties.C11gen": ["C11_generated_okey_matches_model", "C11_generated_okey_order", "C11gen_nonvacuous"],
            "Properties.C11": ["C11_index_consistent", "C11_filter_exact", "C11_filter_exact_ordered", "C11_batch_delete_exact",
                               "C11_okey_order", "C11_nonvacuous"]}
PINS = {"Properties.C11": {
    "_preamble": "From Coq Require Import List NArith ZArith Bool. From Kyro Require Import Model.Filter Proofs.FilterLemmas Proofs.FilterProofs. Import ListNotations.",
    "C11_index_consistent": "forall (parse : str -> option Z) (s : state), reachable parse s -> lookups_agree (idx s) (rebuild_from parse (slots s))",
    "C11_filter_exact": "forall (parse : str -> option Z) (s : state) (f : mfilter), reachable parse s -> (forall d, In d (ids_for_filter parse s f) <-> In d (map fst (filter (fun dm => matches parse f (snd dm)) (live_docs (slots s))))) /\\ NoDup (ids_for_filter parse s f)",
    "C11_filter_exact_ordered": "forall (parse : str -> option Z) (s : state) (f : mfilter), reachable parse s -> ids_for_filter parse s f = map fst (filter (fun dm => matches parse f (snd dm)) (live_docs (slots s)))",
    "C11_batch_delete_exact": "forall (parse : str -> option Z) (s : state) (f : mfilter), reachable parse s -> forall d m, In (d, m) (live_docs (slots (fst (step parse s (OBatchDeleteFilter f))))) <-> In (d, m) (live_docs (slots s)) /\\ matches parse f m = false",
    "C11_okey_order": "forall a b : Z, (0 <= a < two64)%Z -> (0 <= b < two64)%Z -> f64_is_nan a = false -> f64_is_nan b = false -> (okey a <=? okey b)%Z = f64_le a b /\\ (okey a <? okey b)%Z = f64_lt a b /\\ ((okey a =? okey b)%Z = f64_eq a b)",
},
    "Properties.C11gen": {
    "_preamble": "From Coq Require Import ZArith Bool. From Kyro Require Import Model.Filter gen.OrderedF64_gen Proofs.FilterLemmas Proofs.OrderedF64GenProofs. Open Scope Z_scope.",
    "C11_generated_okey_matches_model": "forall v : Z, 0 <= v < two64 -> OrderedF64_gen.from_f64 v = Filter.okey v",
}}

TRUSTED = [
    "Model/Filter.v is a hand transcription of metadata_filter.rs and of MetadataInvertedIndex / compile_filter_to_bitmap / ids_for_metadata_filter / insert / update_metadata / delete / batch_delete / compact_tombstones / recovery in hnsw_backend.rs; it is tied to the code on every run only by the differential correspondence below (final-state ids in exact internal order, scan(matches) results and every per-operation result), not by translation",
    "str::parse::<f64>() is an uninterpreted function in every theorem (they hold for all parse functions); in the correspondence its graph on the strings of a case is computed by Rust itself and passed as data (bit patterns), so no float parser is modelled",
    "f64 comparison = sign-magnitude comparison of IEEE-754 bit patterns with NaN unordered and -0 = +0 (Model/Filter.v f64_lt/f64_le); checked on every run against Rust's own operators on all ordered pairs of the corpus values (fbad must be empty); OrderedF64::from_f64 is transcribed on bit patterns (`bits | 1<<63` as +2^63, `!bits` as 2^64-1-bits) and proved order-isomorphic (C11_okey_order)",
    "RoaringTreemap is modelled as a finite set of internal ids with ascending iteration; HashMap/BTreeMap levels of the index as association lists (a BTreeMap range query as a key filter); DocumentStore.external_to_internal as the derived lookup over internal_to_external",
    "recovery is modelled at the store level (live documents in ascending external-id order, index rebuilt); that WAL+snapshot reproduce the live documents is C02's statement, checked here only through the recover operations of the seeded histories",
    "scope: the cold tier (HnswBackend). TieredEngine::batch_delete_by_metadata_filter additionally scans the hot tier with metadata_filter::matches directly (reference semantics by construction); the driver replays its cold-tier part (ids_for_metadata_filter, sort, dedup, batch_delete)",
]


def _pairs(text):
    nums = vlib.parse_numbers(text)
    return [(nums[i], nums[i + 1]) for i in range(0, len(nums) - 1, 2)]


def _run_driver(ctx, out, n, per_state, seed, replay=None, timeout=1500):
    if os.path.isdir(out):
        shutil.rmtree(out)
    os.makedirs(out, exist_ok=True)
    args = [vlib.bin_path("c11"), "--out", out, "--n", str(n), "--coq-per-state", str(per_state)]
    if replay:
        args += ["--replay", replay]
    rc, o = vlib.sh(args, env={"VERIF_SEED": str(seed)}, timeout=timeout)
    return rc, o


def run(ctx):
    quick = ctx.tier == "quick"
    n = 12 if quick else 72
    per_state = 200 if quick else 0          # 0 = every Rust-side pair is also evaluated in Coq
    ctx.trusted += TRUSTED
    ctx.trusted.append("harness/p/translator target ordered_f64 (syn parser + typed Rust-subset -> Gallina translator, fails closed): OrderedF64::from_f64 on bit patterns in Z (`==` on floats is Filter.f64_eq, float literals become their exact bits, `!x` is Z.lnot x mod 2^64, `1u64 << 63` carries mod 2^64); the derived Ord of the tuple struct is the integer order (the translator checks the derive)")
    # regenerate coq/gen/OrderedF64_gen.v from hnsw_backend.rs (fails closed); Properties/C11gen.v proves it equal to Filter.okey
    gen = _translator.regen(ctx, "ordered_f64", "OrderedF64_gen", also_build=["c11"])
    proofs_ok = ctx.proof_phase(["Properties/C11.vo", "Properties/C11gen.vo"], THEOREMS, pins=PINS)
    gen_broken = []
    if gen["broken"]:
        gen_broken.append(gen["broken"])
    elif _translator.stale_vo("OrderedF64_gen"):
        gen_broken.append({"kind": "generated-model-did-not-compile", "file": "coq/gen/OrderedF64_gen.v"})

    ok, log = vlib.cargo_build(["c11"])
    ctx.log("cargo.log", log)
    if not ok:
        ctx.say("harness build failed")
        ctx.violation({"property": "C11", "kind": "harness-build-failed", "log_tail": log[-3000:],
                       "unchecked": "correspondence Model/Filter.v vs engine/src/{metadata_filter,hnsw_backend}.rs"},
                      no_input=True)
        return
    out = os.path.join(vlib.CACHE, "run", "C11", "main")
    rc, o = _run_driver(ctx, out, n, per_state, ctx.seed, ctx.replay)
    ctx.log("harness.log", o)
    if rc != 0:
        ctx.violation({"property": "C11", "kind": "harness-crashed", "rc": rc, "log_tail": o[-3000:]}, no_input=True)
        return
    summ = json.load(open(os.path.join(out, "summary.json")))
    allc = json.load(open(os.path.join(out, "all_cases.json")))
    shards = [open(os.path.join(out, "cases_%d.v" % i)).read() for i in range(summ["shards"])]
    res = vlib.coq_eval("C11", shards, timeout=900 if quick else 3000)
    bad, evaluated, coq_err, fbad, frows = [], 0, [], [], 0
    for i, (rc, o) in enumerate(res):
        tags = vlib.parse_tagged(o)
        if rc != 0 or "bad" not in tags or "count" not in tags:
            coq_err.append({"shard": i, "rc": rc, "out": o[-1500:]})
            continue
        bad += _pairs(tags["bad"].split(":")[0])
        evaluated += vlib.parse_numbers(tags["count"].split(":")[0])[0]
        if "fbad" in tags:
            fb = tags["fbad"].split(":")[0]
            if re.search(r"\d", fb):
                fbad.append(fb.strip()[:400])
            frows += vlib.parse_numbers(tags.get("fcount", "0").split(":")[0])[0]
    ctx.cov.update({
        "evaluations": summ["pairs_rust"],
        "distinct_nontrivial": summ["distinct_nontrivial"],
        "rule": "seeded histories (insert/overwrite, merge+replace update, delete, batch delete by ids and by filter, recovery on persistent backends, compaction through index-full inserts at capacity 5/8) over 6 external ids x 2-3 keys x a 40-string value corpus (ints, decimals, exponents, +-0, +-inf, NaN spellings, leading '+', whitespace, empty, non-ASCII, 10 kB strings); on each final state: ALL atoms (exact, 4 range operators and unset bound, in-lists) over 2 keys x corpus, all NOT(atom), empty AND/OR, NOT(unset), all ordered AND/OR pairs over semantic representatives, depth-3 combinations incl. uncompilable-inside shapes, 200 random trees of depth 4-6. Each (filter, state) pair compares HnswBackend::ids_for_metadata_filter with scan(metadata_filter::matches) (oracle, all pairs) and both with the Coq model inside coqc (a seeded stratified subset per state in the quick tier, all in thorough). distinct_nontrivial counts distinct (live census, filter) pairs whose result is neither empty nor the whole live set",
        "samples": summ.get("samples", [])[:2],
        "histogram": summ.get("histogram", {}),
        "states": summ["states"],
        "pairs_checked_by_oracle_in_rust": summ["pairs_rust"],
        "pairs_evaluated_in_coq": evaluated,
        "traces_validated_against_impl": evaluated,
        "f64_comparison_rows_checked_in_coq": frows,
        "fallback_filters": summ.get("fallback_filters", 0),
        "order_mismatches_index_vs_scan": summ.get("order_mismatches", 0),
        "model_disagreements": len(bad),
        "oracle_failures": len(summ["oracle_failures"]),
        "rust_eval_ms": summ.get("rust_ms"),
    })
    # --- decide
    if summ["oracle_failures"]:
        f = summ["oracle_failures"][0]
        ctx.violation({"property": "C11", "kind": "oracle", "why": f.get("why"), "case": f.get("case"),
                       "ids_index": f.get("ids_index"), "ids_scan": f.get("ids_scan"),
                       "more_failures": len(summ["oracle_failures"]) - 1,
                       "replay_cmd": "./check C11 --replay <this file>"})
        return
    broken = list(gen_broken)
    if not proofs_ok:
        broken.append({"kind": "proof-obligations", "failed": ctx.failed_obligations})
    if coq_err:
        broken.append({"kind": "cases-evaluation-error", "detail": coq_err[:2]})
    if fbad:
        broken.append({"kind": "f64-comparison-model-disagrees-with-rust", "rows": fbad[:3]})
    if bad:
        first = None
        try:
            st = allc[bad[0][0]]
            first = {"state": bad[0][0], "qid": bad[0][1], "cap": st.get("cap"), "persistent": st.get("persistent"),
                     "ops": st.get("ops"), "outs": st.get("outs"),
                     "query": next((q for q in st.get("filters", []) if q.get("qid") == bad[0][1]), None)}
        except Exception:
            pass
        broken.append({"kind": "correspondence", "disagreeing_(state,qid)": bad[:20], "first_case": first,
                       "note": "qid 999999 = per-operation results of the history differ"})
    if broken:
        ctx.say("proof/correspondence broken; widening the oracle search (more seeds, all filters incl. deep trees)")
        found = []
        for k in range(3):
            sout = os.path.join(vlib.CACHE, "run", "C11", "search%d" % k)
            rc, o = _run_driver(ctx, sout, 60, 1, ctx.seed + 7919 * (k + 1), timeout=1500)
            try:
                found = json.load(open(os.path.join(sout, "summary.json")))["oracle_failures"]
            except Exception:
                found = []
            if found:
                break
        if found:
            f = found[0]
            ctx.violation({"property": "C11", "kind": "oracle", "why": f.get("why"), "case": f.get("case"),
                           "ids_index": f.get("ids_index"), "ids_scan": f.get("ids_scan"), "broken": broken})
        else:
            ctx.violation({"property": "C11", "kind": "no-failing-input-found", "broken": broken,
                           "note": "the model and the implementation disagree, or a theorem no longer checks, but ids_for_metadata_filter == scan(matches) held on every (filter,state) pair of 180 further seeded histories (about 400k pairs)"},
                          no_input=True)
