"""C06 — search results are sound and reflect acknowledged recent writes (DESIGN.md §3 C06).  PARTIAL.

regenerate coq/gen/SearchK_gen.v from /repo (translator target search_k, fails closed)
  -> proofs over Model/Knn.v + the regenerated compute_search_k (Properties/C06.v)
  -> driver c06: (i) compute_search_k grid vs the regenerated model, (ii) merge_knn_results vs the model,
     (iii) seeded histories on the real HnswBackend / TieredEngine: direct oracle on every search + a stratified
     sample compared with the model (exhaustive oracle) inside coqc, (iv) the directed scenario that reproduced
     the model's recent-write witness before repo commit b64dfda, kept as a regression probe (must return doc 9).
"""
import json
import os
import vlib

THEOREMS = {"Properties.C06": [
    "C06_hot_heap_is_topk", "C06_merge_sound", "C06_cold_sound", "C06_sound", "C06_sound_timed",
    "C06_search_k_bounds", "C06_search_k_oversampling", "C06_recent_write_complete",
    "C06_recent_write_complete_timed", "C06_api_history_no_stale_mirror", "C06_recent_write_complete_api",
    "C06_recent_write_refuted", "C06_nonvacuous", "C06_history_nonvacuous"]}
PINS = {"Properties.C06": {
    "_preamble": "From Coq Require Import List NArith Bool Arith Permutation. From Kyro Require Import gen.SearchK_gen Model.Knn Proofs.KnnProofs.",
    "C06_search_k_oversampling": "forall fx k live total : N, (0 < live)%N -> (1 <= k <= 10000)%N -> (search_k_fsite_exact k live total <= fx)%N -> let r := compute_search_k_with fx k live total in r = search_k_upper k total \\/ ((total <= live)%N /\\ r = k) \\/ ((N.max (k / 4) 2 <= r)%N /\\ (k * total <= (r - N.max (k / 4) 2) * live)%N)",
    "C06_hot_heap_is_topk": "forall (vec dist dg : Type) (dle : dist -> dist -> bool) (dfin : dist -> bool) (metric : vec -> vec -> dist), (forall a b, dle a b = true \\/ dle b a = true) -> (forall a b c, dle a b = true -> dle b c = true -> dle a c = true) -> forall (k : nat) (q : vec) (hs : hot vec dg), NoDup (map h_id hs) -> hot_knn dle dfin metric k q hs = topk_spec dle dfin k (hot_cands metric q hs)",
    "C06_merge_sound": "forall (dist : Type) (dle : dist -> dist -> bool), (forall a b, dle a b = true \\/ dle b a = true) -> (forall a b c, dle a b = true -> dle b c = true -> dle a c = true) -> forall (order : list (res dist) -> list (res dist)), (forall l, Permutation (order l) l) -> forall (h c : list (res dist)) (k : nat), let out := merge_knn dle order h c k in (length out <= k)%nat /\\ NoDup (map fst out) /\\ sorted_by_distance dist dle out /\\ (forall i d, In (i, d) out -> In (i, d) h \\/ (~ In i (map fst h) /\\ In (i, d) c))",
}}
KNOWN_CROWD = "C06-stale-mirrors-crowd-out-fresh-hot-result"
CROWD_CLASS = "recent-write-missing-crowded"


def regenerate(ctx):
    """Build translator + driver, regenerate SearchK_gen.v. Returns (translated_ok, driver_ok, text)."""
    ok, log = vlib.cargo_build(["translator", "c06"])
    driver_ok = ok
    if not ok:
        ok, log2 = vlib.cargo_build(["translator"])
        log += "\n--- translator alone ---\n" + log2
    ctx.log("cargo.log", log)
    if not ok:
        return False, False, "translator build failed:\n" + log[-2000:]
    os.makedirs(os.path.join(vlib.CACHE, "gen"), exist_ok=True)
    with vlib.FileLock("regen-search_k"):
        rc, out = vlib.sh([vlib.bin_path("translator"), "search_k", "--repo", vlib.REPO,
                           "--out", os.path.join(vlib.COQ, "gen"), "--report-dir", os.path.join(vlib.CACHE, "gen")], timeout=120)
    ctx.log("translator.log", out)
    return rc == 0, driver_ok, out


def run_driver(ctx, out, extra, seed, timeout=1500):
    os.makedirs(out, exist_ok=True)
    for f in os.listdir(out):
        os.remove(os.path.join(out, f))
    rc, o = vlib.sh([vlib.bin_path("c06"), "--out", out] + extra, env={"VERIF_SEED": str(seed)}, timeout=timeout)
    return rc, o


def run(ctx):
    quick = ctx.tier == "quick"
    n_hist = 120 if quick else 1500
    cap = 1000 if quick else 12000
    ctx.trusted += [
        "harness/p/translator target search_k (syn parser + Rust-subset -> Gallina translator; fails closed on every statement, operator, cast or method outside its subset) and Model/F64Lite.v, the integer model of the three binary64 operations compute_search_k uses (round-to-nearest-even; validated against the real function on every run, including inputs where the double rounding lands one ulp above an integer)",
        "f64: the theorems about compute_search_k's bounds hold for EVERY value of its float expression; the oversampling inequality has the premise 'float expression >= its exact rational value', which is checked on the driver grid inside coqc (total < 2^50) and not proved",
        "distances are an abstract total preorder in the theorems (no NaN); the f32 distance kernels (simd.rs, scalar/SSE2/AVX2/AVX-512) and metric_distance_to_user are NOT modelled: their accuracy is measured by the oracle against an f64 reference with tolerance 1e-4*(1+d) on small-integer/dyadic vectors",
        "the ANN index is an oracle: Section hypothesis ann_contract = the AnnBackend trait contract (ascending, duplicate-free, at most search_k entries, true distances of the slots named); ANN completeness/recall is not assumed and not proved",
        "Section hypotheses: digest injectivity (no 128-bit coherence-digest collision), dg_eqb is equality, HashMap iteration is a permutation of the entries, DocStore invariant store_wf (one live slot per external id; stored digest = digest of the stored vector), hot-tier keys distinct, query-cache entries handed to a search are valid (cache_ok: property C07)",
        "std BinaryHeap modelled by its priority-queue contract (ascending list, maximum last); slice::sort_by modelled as a stable insertion sort",
        "the timed path's tokio timeouts, spawn_blocking panics, circuit breakers and semaphores are inputs of the model (tenv); on the real engine they are exercised only with generous timeouts (non-degraded), degradation is recognised from the stats counters",
        "engine-level correspondence compares modulo ties and skips (counted) cases whose outcome is not determined: ties across the oversampling cut, off-grid vectors, cache hits, later queries of a batch after stale mirrors were discarded; cache-hit responses are checked for size/liveness/order only (their distances are property C07's subject)",
        "the harness shadow of the cold tier's internal slot list (tombstones are not observable through the API; live count is cross-checked after every operation)",
    ]
    broken = []
    gen_ok, driver_ok, gen_out = regenerate(ctx)
    ctx.say("translator: %s" % (gen_out.strip().split("\n")[-1][:200] if gen_out.strip() else "no output"))
    if not gen_ok:
        rep = None
        try:
            rep = json.load(open(os.path.join(vlib.CACHE, "gen", "SearchK_gen.json")))
        except Exception:
            pass
        broken.append({"kind": "translator-failed-closed", "detail": rep if rep else gen_out[-1500:],
                       "unchecked": "SearchK_gen.v could not be regenerated from the current compute_search_k; the theorems were last proved over a stale model"})

    proofs_ok = ctx.proof_phase(["Properties/C06.vo"], THEOREMS, pins=PINS)
    if not proofs_ok:
        broken.append({"kind": "proof-obligations", "failed": ctx.failed_obligations})

    if not driver_ok:
        ctx.say("harness build failed")
        ctx.violation({"property": "C06", "kind": "harness-build-failed", "broken": broken,
                       "unchecked": "correspondence of Model/Knn.v and gen/SearchK_gen.v with /repo/engine/src"}, no_input=True)
        return
    out = os.path.join(vlib.CACHE, "run", "C06")
    extra = ["--n", str(n_hist), "--cap", str(cap)]
    if ctx.replay:
        extra += ["--replay", ctx.replay]
    rc, o = run_driver(ctx, out, extra, ctx.seed)
    ctx.log("harness.log", o)
    ctx.say(o.strip().split("\n")[-1][:300] if o.strip() else "driver: no output")
    if rc != 0:
        ctx.violation({"property": "C06", "kind": "harness-crashed", "rc": rc, "log_tail": o[-3000:], "broken": broken}, no_input=True)
        return
    summ = json.load(open(os.path.join(out, "summary.json")))
    shards = [open(os.path.join(out, "cases_%d.v" % i)).read() for i in range(summ["shards"])]
    res = vlib.coq_eval("C06", shards) if shards else []
    bad = {"sk": [], "mg": [], "en": []}
    evaluated = {"sk": 0, "mg": 0, "en": 0}
    fbad, fplus, coq_err, bad2 = [], 0, [], []
    for i, (rc, o) in enumerate(res):
        tags = vlib.parse_tagged(o)
        if rc != 0 or "bad" not in tags or "count" not in tags or "kind" not in tags:
            coq_err.append({"shard": i, "rc": rc, "out": o[-1500:]})
            continue
        kind = tags["kind"].strip().split()[0]
        bad[kind] += vlib.parse_numbers(tags["bad"].split(":")[0].replace("%N", ""))
        evaluated[kind] += vlib.parse_numbers(tags["count"].split(":")[0])[0]
        if kind == "en":
            bad2 += vlib.parse_numbers(tags.get("bad2", "").split(":")[0].replace("%N", ""))
        if kind == "sk":
            fbad += vlib.parse_numbers(tags.get("fbad", "").split(":")[0])
            fplus += (vlib.parse_numbers(tags.get("fplus", "0").split(":")[0]) or [0])[0]
    eng = summ.get("engine", {})
    directed = summ.get("directed", {})
    if isinstance(directed, dict) and "reproduced" in directed:      # --replay of the directed scenario
        directed = {"replayed": directed}
    ctx.cov.update({
        "evaluations": summ.get("cases", 0),
        "distinct_nontrivial": eng.get("selected_nontrivial", 0),
        "rule": "evaluations = compute_search_k grid rows + merge cases + engine searches (every search goes through the direct oracle); distinct_nontrivial counts engine searches in the coqc correspondence that are distinct after canonicalisation and have tombstoned slots or hot-tier mirror entries (i.e. the tombstone filter / remap or the hot filter + merge did work)",
        "samples": summ.get("samples", [])[:2],
        "histogram": eng.get("histogram"),
        "search_k": {"rows": summ.get("search_k_rows"), "evaluated_in_coq": evaluated["sk"], "model_disagreements": len(bad["sk"]),
                     "float_site_outside_[exact,exact+1]": len(fbad), "rows_where_f64_is_exact_plus_1": fplus},
        "merge": {"cases": summ.get("merge_cases"), "evaluated_in_coq": evaluated["mg"], "model_disagreements": len(bad["mg"])},
        "engine": {"histories": eng.get("histories"), "searches": eng.get("searches"),
                   "correspondence_eligible": eng.get("correspondence_eligible"), "correspondence_selected": eng.get("correspondence_selected"),
                   "evaluated_in_coq": evaluated["en"], "model_disagreements": len(bad2),
                   "explained_by_incomplete_ann_search": sorted(set(bad["en"]) - set(bad2))[:20],
                   "explained_by_incomplete_ann_search_count": len(set(bad["en"]) - set(bad2)),
                   "incomplete_ann_bound": "at most max(3, 1 %) of the evaluated engine cases may differ from the exhaustive-oracle model by an incomplete (but sound) ANN candidate list; more is reported as a broken correspondence",
                   "correspondence_skipped": eng.get("correspondence_skipped"),
                   "searches_with_stale_mirrors": eng.get("searches_with_stale_mirrors"),
                   "near_unit_tier_gap_max": eng.get("near_unit_gap_max")},
        "directed_witness": {k: {"reproduced": v.get("reproduced"), "response": v.get("response"), "stale_mirrors_before": v.get("stale_mirrors_before")}
                             for k, v in directed.items() if isinstance(v, dict) and "reproduced" in v} if directed else None,
        "observations": {"tiered_search_k_above_5000": summ.get("big_k_observation")},
        "oracle_failures": len(summ.get("oracle_failures", [])),
    })

    # ---- decide: oracle failures first
    fails = summ.get("oracle_failures", [])
    crowd = [f for f in fails if f.get("class") == CROWD_CLASS]
    other = [f for f in fails if f.get("class") != CROWD_CLASS]
    if other:
        f = other[0]
        ctx.violation({"property": "C06", "kind": "oracle", "class": f.get("class"), "why": f.get("why"), "case": f.get("case"),
                       "ops_prefix": f.get("ops_prefix"), "replay_cmd": "./check C06 --replay <this file>"})
    if crowd and not other:
        # repaired in /repo (b64dfda: bulk load drops the mirrors of the ids it loads); the directed scenario stays
        # in every run as a regression probe and this class is a plain VIOLATION (no known-findings lookup)
        f = ([x for x in crowd if x.get("directed")] or crowd)[0]
        ctx.violation({"property": "C06", "kind": "oracle", "class": KNOWN_CROWD,
                       "why": f.get("why"), "case": f.get("case"), "ops_prefix": f.get("ops_prefix"),
                       "model_witness": "Properties/C06.v C06_recent_write_refuted; C06_api_history_no_stale_mirror says API histories cannot reach such a state",
                       "replay_cmd": "./check C06 --replay <this file>"})
    if fails:
        return

    if coq_err:
        broken.append({"kind": "cases-evaluation-error", "detail": coq_err[:2]})
    allc = None
    ann_incomplete = sorted(set(bad["en"]) - set(bad2))
    too_many = len(ann_incomplete) > max(3, evaluated["en"] // 100)
    bad["en"] = sorted(set(bad2)) + (ann_incomplete if too_many else [])
    for kind, label in (("sk", "search_k_rows"), ("mg", "merge_cases"), ("en", "engine_selected")):
        if bad[kind]:
            if allc is None:
                try:
                    allc = json.load(open(os.path.join(out, "all_cases.json")))
                except Exception:
                    allc = []
            first = None
            for blk in allc:
                if label in blk:
                    lst = blk[label]
                    if kind == "en":
                        first = next((c for c in lst if c.get("id") == bad[kind][0]), None)
                    elif bad[kind][0] < len(lst):
                        first = lst[bad[kind][0]]
            broken.append({"kind": "correspondence-" + kind, "disagreeing_case_ids": bad[kind][:20], "first_case": first})
    if fbad:
        broken.append({"kind": "f64-premise", "rows": fbad[:20],
                       "what": "the float expression of compute_search_k left [exact, exact+1] on a grid row: the premise of C06_search_k_oversampling is not met there"})
    if not broken:
        return
    # ---- something no longer checks but the oracle is clean: widen the search on the real code
    ctx.say("proof / translation / correspondence broken (%s); widening the search" % ", ".join(b["kind"] for b in broken))
    found = []
    rc, o = run_driver(ctx, out + "_grid", ["--grid-only"], ctx.seed + 7919)
    try:
        found = json.load(open(os.path.join(out + "_grid", "summary.json")))["oracle_failures"]
    except Exception:
        pass
    if not found:
        rc, o = run_driver(ctx, out + "_search", ["--n", str(n_hist * 4), "--cap", "0"], ctx.seed + 104729)
        try:
            found = json.load(open(os.path.join(out + "_search", "summary.json")))["oracle_failures"]
        except Exception:
            pass
    if found:
        f = found[0]
        ctx.violation({"property": "C06", "kind": "oracle", "class": f.get("class"), "why": f.get("why"), "case": f.get("case"),
                       "ops_prefix": f.get("ops_prefix"), "broken": broken, "replay_cmd": "./check C06 --replay <this file>"})
    else:
        ctx.violation({"property": "C06", "kind": "no-failing-input-found", "broken": broken,
                       "note": "a theorem over the regenerated compute_search_k, the translation, or the correspondence with Model/Knn.v no longer checks, but neither 20000+ grid rows of the real compute_search_k nor %d further seeded histories violate the stated bounds / the search oracle" % (n_hist * 4)},
                      no_input=True)
