"""C15 — every request gets an answer and invalid input is refused without effect (DESIGN.md §3 C15; PARTIAL).

1. regenerate coq/gen/Validators_gen.v from /repo (harness/p/xl15: validate_insert_request, validate_search_request,
   calculate_oversampling_factor / estimate_selectivity; fails closed)
2. proofs over the regenerated validators + Model/Requests.v: Properties/C15.vo
3. harness/p/c15 drives the REAL kyrodb_server binary (harness/p/srv) with the structural request grid
   (every RPC x every field x boundary / pathological value, singly and in mixed streams; one server process
   per supported metric: euclidean, cosine, innerproduct), census after every step, liveness probe after every
   refusal, restarts — in particular a restart IMMEDIATELY after every BulkInsert / BulkLoadHnsw stream of
   non-finite items (NaN, +inf, -inf at first/middle/last position) over acknowledged and over fresh ids;
   direct oracles over observations
4. every answer + follow-up census is compared with Model/Requests.v inside coqc (vm_compute)
Input classes (classified by the driver on the specific observation):
  C15-bulk-search-aborts-stream-on-invalid-item   a BulkSearch stream within the batch limit whose messages all
        decode, and some request gets no answer / the stream is ended by a status.  REPAIRED in /repo b58b923
        (`fixed:` entry of known_findings.json): always a plain VIOLATION here, no known-findings lookup;
        corpus/C15/bulk-search-abort.json is its regression script.
  C15-bulk-search-call-status-drops-accepted-answers   a stream the server ends with a CALL-level status
        (a message that does not decode -> INTERNAL; more than MAX_BATCH_SIZE requests -> RESOURCE_EXHAUSTED):
        answers of requests accepted before that point are missing (pending batch not flushed before a decode
        failure; tonic drops buffered Ok items that precede an Err).  Coordinator ruling: the call-level status
        is the answer; counted NOTE in the evidence, not a violation.
"""
import json
import os
import vlib

THEOREMS = {"Properties.C15": [
    "C15_total", "C15_boundary_insert", "C15_boundary_search", "C15_boundary_filter_depth", "C15_boundary_ids",
    "C15_boundary_batches", "C15_refused_no_effect", "C15_refused_item_no_effect", "C15_reads_no_effect",
    "C15_bulk_load_cap_partial_effect_refuted", "C15_nonfinite_refused_everywhere", "C15_validators_sound",
    "C15_bulk_search_answered", "C15_bulk_search_terminated", "C15_bulk_search_abort_before_b58b923_example",
    "C15_nonvacuous"]}
PINS = {"Properties.C15": {
    "_preamble": "From Coq Require Import List NArith Bool. From Kyro Require Import Model.ReqBase gen.Validators_gen Model.Requests Proofs.RequestsProofs. Import ListNotations. Open Scope N_scope.",
    "C15_total": "forall cfg ds r, no_crash (snd (handle cfg ds r)) = true",
    "C15_refused_no_effect": "forall cfg ds r ds' c, handle cfg ds r = (ds', Refused c) -> (forall its, r = RBulkLoad its -> len its <= c_max_total_load cfg) -> ds' = ds",
    "C15_bulk_search_answered": "forall cfg ds rs, len rs <= c_max_batch cfg -> all_decodable cfg rs = true -> exists items, handle cfg ds (RBulkSearch rs) = (ds, OkBulkSearch items None) /\\ List.length items = List.length rs /\\ (forall i r, nth_error rs i = Some r -> nth_error items i = Some (search_item cfg (filter (engine_bad cfg) rs) r)) /\\ (forall r bad s, validate_search_request (sview r) = VErr s -> search_item cfg bad r = SErr InvalidArgument) /\\ (forall r bad p, validate_search_request (sview r) = VOk p -> group_err cfg r bad = None -> search_item cfg bad r = SOk)",
    "C15_nonfinite_refused_everywhere": "forall cfg (it : item), nf (v_cls (i_vec it)) = true -> (forall ds, h_insert cfg ds it = (ds, Refused InvalidArgument)) /\\ (forall a, bi_ds (bi_step cfg a it) = bi_ds a /\\ bi_ins (bi_step cfg a it) = bi_ins a) /\\ (forall ds c id, cold_load_one cfg (ds, c) (id, it) = (ds, (fst c, snd c + 1))) /\\ tiered_insert_ok cfg (v_cls (i_vec it)) = false /\\ direct_cold_insert_ok cfg (v_cls (i_vec it)) = false",
}}
ABORT_CLASS = "C15-bulk-search-aborts-stream-on-invalid-item"
CALL_STATUS_CLASS = "C15-bulk-search-call-status-drops-accepted-answers"
GEN_REPORT = os.path.join(vlib.CACHE, "gen", "Validators_gen.json")


def regenerate(ctx):
    ok, log = vlib.cargo_build(["xl15"])
    ctx.log("cargo_xl15.log", log)
    if not ok:
        return False, None, "xl15 build failed:\n" + log[-2000:]
    with vlib.FileLock("regen-validators"):
        rc, out = vlib.sh([vlib.bin_path("xl15"), "--repo", vlib.REPO, "--out", os.path.join(vlib.COQ, "gen"),
                           "--report-dir", os.path.dirname(GEN_REPORT)], timeout=120)
    ctx.log("xl15.log", out)
    rep = None
    try:
        rep = json.load(open(GEN_REPORT))
    except Exception:
        pass
    return rc == 0 and bool(rep) and rep.get("ok") is True, rep, out


def _run_driver(out, tier, seed, replay=None):
    os.makedirs(out, exist_ok=True)
    for f in os.listdir(out):
        p = os.path.join(out, f)
        if os.path.isfile(p):
            os.remove(p)
    args = [vlib.bin_path("c15"), "--out", out, "--tier", tier]
    if replay:
        args += ["--replay", replay]
    return vlib.sh(args, env={"VERIF_SEED": str(seed)}, timeout=3000)


def _coq(out, summ):
    shards = [open(os.path.join(out, "cases_%d.v" % i)).read() for i in range(summ["shards"])]
    res = vlib.coq_eval("C15", shards, timeout=1500)
    bad, steps, errs, explain = [], 0, [], []
    for i, (rc, o) in enumerate(res):
        tags = vlib.parse_tagged(o)
        if "bad" not in tags or "count" not in tags:
            errs.append({"shard": i, "rc": rc, "out": o[-1500:]})
            continue
        nums = vlib.parse_numbers(tags["bad"].split(":")[0])
        bad += [(i, n) for n in nums]
        steps += vlib.parse_numbers(tags["count"].split(":")[0])[0]
        if nums:
            explain.append({"shard": i, "model_says": tags.get("explain", "")[:3000]})
        if rc != 0 and "explain" not in tags:
            errs.append({"shard": i, "rc": rc, "out": o[-1500:]})
    return bad, steps, errs, explain


def _case_of(allc, shard, step=None):
    if shard >= len(allc):
        return None
    c = allc[shard]
    if step is None:
        return c["case"]
    st = c["case"]["steps"]
    # smallest standalone script: what the model state needs (all writes before the step) + the step
    start = 0
    if st[step]["op"]["op"] == "restart":
        # a restart that changes the census: the writes since the previous restart are what the WAL replays
        # differently (each durability group of the generator re-seeds its own ids, so it is self-contained)
        prev = [i for i in range(step) if st[i]["op"]["op"] == "restart"]
        start = prev[-1] + 1 if prev else 0
    keep = [s for s in st[start:step] if s["op"]["op"] in ("insert", "bulk_insert", "bulk_load", "delete", "bdel_ids", "bdel_filter", "update")]
    return {"name": "min", "metric": c["case"]["metric"], "dim": c["case"]["dim"], "steps": keep + [st[step]]}


def run(ctx):
    tier = ctx.tier
    ctx.trusted += [
        "harness/p/xl15 (Rust subset -> Gallina translator for the validators; fails closed) and the fixed vocabulary Model/ReqBase.v (f32 value classes FinNZ/Zero/Sub/Huge/NaN/PInf/NInf, interned strings, proto filter tree)",
        "harness/p/srv + harness/p/c15: server driver, the structural generator, canonicalisers (f32 -> value class, stored-vector table incl. the engine's cosine normalisation recomputed with the same f32 operations, interned strings, status classes), the independent 'must be refused' table of the direct oracle",
        "limits read from source text on every run: MAX_BATCH_SIZE, MAX_TOTAL_BULK_LOAD_DOCUMENTS (kyrodb_server.rs), prost RECURSION_LIMIT (the version pinned by /repo/Cargo.lock)",
        "modelled, not verified: tonic/prost decoding (only the recursion limit), the 2 ms batching window of bulk_search (a stream = one batch), usize arithmetic of estimate_selectivity in N (proved: divisors >= 1, values in [1,50]), HNSW/WAL/disk failures, quota and rate limiting (never reached), namespaces as selectors, reserved metadata keys, bounded Range filters on present keys",
        "observed, not proved: liveness after a refused request (Health RPC + follow-up census), panic containment (server log scanned for panics after every step), durability of the census across restarts",
    ]
    broken = []
    gen_ok, rep, gen_out = regenerate(ctx)
    ctx.say("translator: %s" % (gen_out.strip().split("\n")[-1][:220] if gen_out.strip() else "no output"))
    if not gen_ok:
        broken.append({"kind": "translator-failed-closed", "detail": rep if rep else gen_out[-1500:],
                       "unchecked": "Validators_gen.v could not be regenerated from the current api_validation.rs / adaptive_oversampling.rs; the theorems were last proved over a stale model"})
    proofs_ok = ctx.proof_phase(["Properties/C15.vo"], THEOREMS, pins=PINS)
    ctx.say("proof phase: %d/%d obligations" % (ctx.discharged, ctx.obligations))
    if not proofs_ok:
        broken.append({"kind": "proof-obligations", "failed": ctx.failed_obligations})

    ok, log, server_bin = vlib.server_build()
    ctx.log("server_build.log", log)
    if not ok or not os.path.exists(server_bin):
        ctx.violation({"property": "C15", "kind": "server-build-failed", "log_tail": log[-3000:], "broken": broken,
                       "unchecked": "everything observed on the real binary"}, no_input=True)
        return
    ok, log = vlib.cargo_build(["c15"])
    ctx.log("cargo.log", log)
    if not ok:
        ctx.violation({"property": "C15", "kind": "harness-build-failed", "log_tail": log[-3000:], "broken": broken,
                       "unchecked": "correspondence Model/Requests.v vs the real server"}, no_input=True)
        return
    out = os.path.join(vlib.CACHE, "run", "C15", "out")
    rc, o = _run_driver(out, tier, ctx.seed, replay=ctx.replay)
    ctx.log("harness.log", o)
    if rc != 0 or not os.path.exists(os.path.join(out, "summary.json")):
        ctx.violation({"property": "C15", "kind": "harness-crashed", "rc": rc, "log_tail": o[-3000:], "broken": broken}, no_input=True)
        return
    ctx.say(o.strip().split("\n")[-1][:300])
    summ = json.load(open(os.path.join(out, "summary.json")))
    allc = json.load(open(os.path.join(out, "all_cases.json")))
    bad, steps, coq_err, explain = _coq(out, summ)
    known = summ["known_class_hits"]
    ctx.cov.update({
        "evaluations": summ["requests"],
        "distinct_nontrivial": summ["nontrivial"],
        "rule": "evaluations = requests sent to real server processes (not counting the follow-up census BulkQuery and Health probes: rpcs); a request counts as non-trivial when its (metric, RPC, field, value kind, answer class) is distinct and the answer is a refusal, a per-item failure or an aborted stream",
        "rpcs": summ["rpcs"], "restarts": summ["restarts"], "scripts": summ["scripts_run"],
        "refused_calls": summ["refused_calls"], "calls_with_per_item_failures": summ["calls_with_per_item_failures"],
        "histogram": summ["histogram"], "limits_read_from_source": summ["limits"], "samples": summ["samples"][:2],
        "model_steps_evaluated_in_coq": steps, "model_disagreements": len(bad),
        "oracle_failures": len(summ["oracle_failures"]),
        "class_observations": {k: sum(1 for h in known if h["class"] == k) for k in [ABORT_CLASS, CALL_STATUS_CLASS]},
        "translator": None if not rep else {k: rep.get(k) for k in ("ok", "functions", "constants", "division_sites", "multiplication_sites")},
        "avg_server_startup_s": round(summ["avg_server_startup_s"], 3), "slowest_step_ms": summ["slowest_step_ms"],
    })
    ia = summ["histogram"].get("internal_answers", {})
    if ia:
        ctx.notes.append("invalid input answered with INTERNAL instead of INVALID_ARGUMENT (a status, so within the letter of the property; no panic involved): %s — wrong-dimension / zero-norm / overflowing vectors on Insert ('Insert failed: ...'), zero-norm query on Search, filters nested beyond prost's recursion limit (codec)" % json.dumps(ia))
    ctx.notes.append("model-level observation, not reproduced (needs a 10,000,001-item stream): BulkLoadHnsw beyond MAX_TOTAL_BULK_LOAD_DOCUMENTS returns RESOURCE_EXHAUSTED after the earlier 10,000-document chunks were ingested (C15_bulk_load_cap_partial_effect_refuted; excluded from C15_refused_no_effect by premise)")

    # ---- decide
    if summ["run_errors"]:
        ctx.violation({"property": "C15", "kind": "server-did-not-start", "detail": summ["run_errors"][:3], "broken": broken}, no_input=True)
        return
    for f in summ["oracle_failures"][:1]:
        sh = next((i for i, c in enumerate(allc) if c["name"] == f["script"]), 0)
        ctx.violation({"property": "C15", "kind": "oracle", "why": f["why"], "step": f["step"], "label": f["label"],
                       "response": f["response"], "case": _case_of(allc, sh, f["step"]),
                       "full_script": f["script"], "replay_cmd": "./check C15 --replay <this file>", "broken": broken})
    if summ["oracle_failures"]:
        return
    by_class = {}
    for h in known:
        by_class.setdefault(h["class"], []).append(h)
    for cls, hits in sorted(by_class.items()):
        h = hits[0]
        if cls == CALL_STATUS_CLASS:
            ctx.notes.append("%s (note, not a violation by ruling: a stream the server ends with a call-level status is answered by that status): %d stream(s) this run; e.g. %s step %s %s: %s requests sent, %s accepted before the terminating %s, %s items received, %s accepted request(s) without an item" % (
                cls, len(hits), h["script"], h["step"], "/".join(h["label"]), h["requests_sent"], h.get("accepted_before_the_status"),
                h["terminating_status"], h["items_received"], h["unanswered"]))
            continue
        ctx.violation({"property": "C15", "kind": "oracle", "class": cls,
                       "why": "a BulkSearch stream within the batch limit whose messages all decode: not every request got exactly one answer (a request without any answer, or the stream ended by a status); 'every request gets an answer ... or a per-item failure' fails (regression of /repo b58b923)",
                       "observed": {k: h.get(k) for k in ("requests_sent", "items_received", "terminating_status", "unanswered", "label")},
                       "occurrences_this_run": len(hits), "confirmed_on_fresh_server": summ.get("known_class_confirmation"),
                       "case": h["case"], "replay_cmd": "./check C15 --replay <this file>"})
    if coq_err:
        broken.append({"kind": "cases-evaluation-error", "detail": coq_err[:2]})
    if bad:
        first = bad[0]
        broken.append({"kind": "correspondence", "disagreeing": [{"script": allc[b[0]]["name"] if b[0] < len(allc) else b[0], "step": b[1],
                                                                   "label": allc[b[0]]["case"]["steps"][b[1]]["label"] if b[0] < len(allc) and b[1] < len(allc[b[0]]["case"]["steps"]) else None,
                                                                   "observed": allc[b[0]]["observations"][b[1]] if b[0] < len(allc) and b[1] < len(allc[b[0]]["observations"]) else None}
                                                                  for b in bad[:10]],
                       "model_says": explain[:2], "first_case": _case_of(allc, first[0], first[1])})
    if broken and not ctx.violations:
        ctx.say("translator / proof / correspondence broken; widening the search on the real binary (thorough grid, other seeds)")
        out2 = out + "_search"
        found = []
        for k in range(2):
            rc, o = _run_driver(out2, "thorough", ctx.seed + 7919 * (k + 1))
            try:
                s2 = json.load(open(os.path.join(out2, "summary.json")))
                a2 = json.load(open(os.path.join(out2, "all_cases.json")))
                found = [(f, a2) for f in s2["oracle_failures"]]
            except Exception:
                found = []
            if found:
                break
        if found:
            f, a2 = found[0]
            sh = next((i for i, c in enumerate(a2) if c["name"] == f["script"]), 0)
            ctx.violation({"property": "C15", "kind": "oracle", "why": f["why"], "step": f["step"], "label": f["label"],
                           "response": f["response"], "case": _case_of(a2, sh, f["step"]), "broken": broken,
                           "replay_cmd": "./check C15 --replay <this file>"})
        else:
            ctx.violation({"property": "C15", "kind": "no-failing-input-found", "broken": broken,
                           "note": "a validator no longer translates, a theorem over the regenerated validators no longer checks, or the model and the real server disagree; the widened grid (thorough tier, 2 more seeds) found no request that is accepted although invalid, crashes the server, goes unanswered or changes the collection while refused"},
                          no_input=True)
