"""C13 — strict recovery never silently returns damaged state (DESIGN.md §3 C13)."""
import json
import os
import vlib
import perscheck

THEOREMS = {"Properties.C13": [
    "C13_wal_roundtrip", "C13_wal_checksum_damage_detected", "C13_wal_short_file_refused",
    "C13_wal_truncation_reads_prefix", "C13_snapshot_roundtrip", "C13_snapshot_damage_detected",
    "C13_snapshot_truncated_refused", "C13_crc32m_range", "C13_length_field_damage_silent",
    "C13_nonvacuous"]}


def describe(f):
    d = f.get("damage") or {}
    kind = next(iter(d), "?")
    return "%s %s" % (kind, json.dumps(d.get(kind, {}), sort_keys=True))


def run(ctx):
    n = 6 if ctx.tier == "quick" else 40
    ctx.trusted += [
        "Model/WalBytes.v is a hand-written byte-level model of WalReader::open/read_all/read_all_strict and of the Snapshot::load envelope; it is tied to the real readers by correspondence on intact and mutated files every run (bincode deserialisability of a payload is supplied by the engine's own bincode)",
        "premise of the damage theorems: the stored checksum differs from the checksum of the damaged bytes (CRC-32 detects single-bit / short-burst damage; property of the polynomial, not proved)",
        "directory-level enumeration (every deletion, truncation at frame boundaries +-1, bit flips at structural and seeded offsets of MANIFEST / snapshots / segments) runs the real HnswBackend start-up in worker processes; a process abort counts as a refusal to start",
        "start-up decision replicated from kyrodb_server main: recover (strict) when MANIFEST exists, else with_persistence on the directory",
    ]
    proofs_ok = ctx.proof_phase(["Properties/C13.vo"], THEOREMS)
    ok, log = vlib.cargo_build(["c13"])
    ctx.log("cargo.log", log)
    if not ok:
        ctx.violation({"property": "C13", "kind": "harness-build-failed", "log_tail": log[-3000:]}, no_input=True)
        return
    summ, fails = perscheck.run_driver(ctx, "c13", ["--n", str(n)])
    if summ is None:
        return
    out = os.path.join(vlib.CACHE, "run", "C13")
    shards = []
    i = 0
    while os.path.exists(os.path.join(out, "cases_%d.v" % i)):
        shards.append(open(os.path.join(out, "cases_%d.v" % i)).read())
        i += 1
    res = vlib.coq_eval("C13", shards)
    bad, evaluated, coq_err = [], 0, []
    for k, (rc, o) in enumerate(res):
        tags = vlib.parse_tagged(o)
        if rc != 0 or "bad" not in tags or "count" not in tags:
            coq_err.append({"shard": k, "rc": rc, "out": o[-1200:]})
            continue
        bad += vlib.parse_numbers(tags["bad"].split(":")[0])
        evaluated += vlib.parse_numbers(tags["count"].split(":")[0])[0]
    ctx.cov.update({
        "evaluations": summ["damages"] + evaluated,
        "distinct_nontrivial": summ["damages_that_changed_the_parse"],
        "rule": "directories from seeded histories (tiny rotation, several snapshots, compaction, restarts), clean shutdown; every single damage = file x (deletion | truncation to each frame boundary +-1 and envelope offsets | bit flip at each structural offset and seeded offsets; every byte of MANIFEST); non-trivial = the damage changes the outcome of start-up (refusal or a different parse), counted; truncations of the newest segment are excluded as in the property",
        "samples": summ.get("samples", [])[:1] + summ.get("reader_samples", [])[:2],
        "damage_kinds": summ["damage_kinds"],
        "directories": summ["directories"],
        "refused": summ["refused"], "process_aborts_counted_as_refusal": summ["of_which_process_aborts"],
        "recovered_exact": summ["recovered_exact"],
        "reader_cases_validated_against_impl": evaluated, "reader_model_disagreements": len(bad),
        "directory_failures": len(fails),
    })
    unknown = perscheck.report_failures(ctx, fails, describe)
    if unknown:
        return
    broken = []
    if not proofs_ok:
        broken.append({"kind": "proof-obligations", "failed": ctx.failed_obligations})
    if coq_err:
        broken.append({"kind": "cases-evaluation-error", "detail": coq_err[:2]})
    if bad:
        broken.append({"kind": "reader-correspondence", "disagreeing_case_ids": bad[:20]})
    if broken:
        ctx.say("proof/correspondence broken; widening the damage search")
        ctx.tier_saved = ctx.tier
        summ2, fails2 = perscheck.run_driver(ctx, "c13", ["--n", "30", "--tier", "thorough"])
        if fails2 is not None and perscheck.report_failures(ctx, fails2, describe):
            return
        ctx.violation({"property": "C13", "kind": "no-failing-input-found", "broken": broken,
                       "note": "the byte-level model and the real readers disagree (or a theorem no longer checks) but no damage that makes strict start-up succeed with a different collection was found outside the recorded classes"},
                      no_input=True)
