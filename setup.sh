#!/bin/sh
# Run once after a fresh restore, offline: build the framework from files on disk only.
set -u
cd /verif
export CARGO_NET_OFFLINE=true
mkdir -p .cache evidence replays
# 1. harness (debug profile; against /repo's working tree, hooks on via harness/.cargo/config.toml)
[ -f harness/Cargo.lock ] || cp /repo/Cargo.lock harness/Cargo.lock
tools/sync_workspace.py; (cd harness && cargo build --offline --workspace --bins) || echo "setup: harness build failed (checks will report it)"
# 2. shims
if [ -f shims/fsshim.c ]; then gcc -O2 -shared -fPIC -o shims/fsshim.so shims/fsshim.c -ldl || echo "setup: fsshim build failed"; fi
# 3. models regenerated from /repo (translator), then the whole Coq development (full .vo build)
if [ -x tools/regen.sh ]; then tools/regen.sh || echo "setup: regen failed (checks will report it)"; fi
python3 -c "import sys; sys.path.insert(0,'/verif/lib'); import vlib; vlib.coq_project()"
(cd coq && timeout 3000 make -j16 -k) || echo "setup: coq build incomplete (checks will report it)"
# 3b. the lock-recorder workspace (patched parking_lot/lock_api), for C08
if [ -x tools/setup_c08.sh ]; then tools/setup_c08.sh || echo "setup: C08 workspace build failed"; fi
# 4. the real server binary (hooks off), for the server-driven checks
if [ -f checks/.needs_server ]; then
  cargo build --offline --manifest-path /repo/Cargo.toml --target-dir /verif/.cache/target-server -p kyrodb-engine --bin kyrodb_server || echo "setup: server build failed"
fi
exit 0
