fn main() { println!("c05"); }
