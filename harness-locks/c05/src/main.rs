//! C05 driver — per-document operations under concurrency, on the REAL TieredEngine built against the
//! recording parking_lot (harness/vendor).
//!
//!   c05 --out DIR --n N [--tier quick|thorough] [--replay FILE]      (VERIF_SEED in the environment)
//!
//! (i)   solo:     every modelled call alone, from planted states (fresh / stale / corrupt / orphaned
//!                 cache and mirror entries), recorder on: result, post-state and the lock
//!                 acquire/release sequence are written as Gallina literals; coqc compares them with
//!                 Model/Conc05.v (`skel_check`).
//! (ii)  directed: two calls A, B on the real engine; A is stopped by the gate table before its j-th
//!                 top-level critical section (every j), B runs to completion, A resumes.  Results and
//!                 post-state are compared with the model run of the same phase schedule
//!                 (`phase_check`); the direct oracles (register linearizability, mixed
//!                 vector/metadata pairs) run on the observations.  The two witness schedules of
//!                 C05_pairing_refuted are members of this family and are reported separately.
//! (iii) stress:   seeded 2-3 thread programs on 2 ids, OS-scheduled, recorder on; oracles: per-key
//!                 register linearizability (Wing-Gong search), "value canonical at some instant of
//!                 the call interval" from the recorder's global order, pair consistency.
use kyrodb_engine::cache_strategy::{CacheStrategy, LruCacheStrategy};
use kyrodb_engine::coherence::{digest_embedding, VectorCoherenceToken};
use kyrodb_engine::config::DistanceMetric;
use kyrodb_engine::tiered_engine::{TieredEngine, TieredEngineConfig};
use kyrodb_engine::{CachedVector, FsyncPolicy, QueryHashCache};
use parking_lot::verif_trace as vt;
use serde_json::{json, Value};
use std::collections::{BTreeMap, HashMap, HashSet};
use std::fmt::Write as _;
use std::sync::{Arc, Barrier};
use std::time::{Duration, Instant};

// ------------------------------------------------------------------------------------------------
// rng (splitmix64, one state)
// ------------------------------------------------------------------------------------------------
struct Rng(u64);
impl Rng {
    fn from_env() -> Self {
        let s = std::env::var("VERIF_SEED").ok().and_then(|x| x.parse::<u64>().ok()).unwrap_or(1);
        Rng(s ^ 0xC05C_05C0_5C05_C05C)
    }
    fn next(&mut self) -> u64 {
        self.0 = self.0.wrapping_add(0x9E37_79B9_7F4A_7C15);
        let mut z = self.0;
        z = (z ^ (z >> 30)).wrapping_mul(0xBF58_476D_1CE4_E5B9);
        z = (z ^ (z >> 27)).wrapping_mul(0x94D0_49BB_1331_11EB);
        z ^ (z >> 31)
    }
    fn below(&mut self, n: u64) -> u64 {
        self.next() % n
    }
}

// ------------------------------------------------------------------------------------------------
// tagged values
// ------------------------------------------------------------------------------------------------
const DIM: usize = 4;
const MAX_TAG: u32 = 6000;

fn vec_of(tag: u32) -> Vec<f32> {
    vec![tag as f32, 1.0, 0.0, 0.0]
}
fn meta_of(tag: u32) -> HashMap<String, String> {
    let mut m = HashMap::new();
    m.insert("w".to_string(), tag.to_string());
    m
}
fn tag_of_vec(v: &[f32]) -> Option<u32> {
    if v.len() == DIM && v[1] == 1.0 && v[2] == 0.0 && v[3] == 0.0 && v[0] >= 0.0 && v[0] < MAX_TAG as f32 && v[0].fract() == 0.0 {
        let t = v[0] as u32;
        if vec_of(t).iter().zip(v).all(|(a, b)| a.to_bits() == b.to_bits()) {
            return Some(t);
        }
    }
    None
}
fn tag_of_meta(m: &HashMap<String, String>) -> Option<u32> {
    if m.len() != 1 {
        return None;
    }
    m.get("w").and_then(|s| s.parse::<u32>().ok())
}

struct Digests(HashMap<(u64, u64), u32>);
impl Digests {
    fn new() -> Self {
        let mut h = HashMap::new();
        for t in 0..MAX_TAG {
            let d = digest_embedding(&vec_of(t));
            h.insert((d.hi, d.lo), t);
        }
        Digests(h)
    }
    fn tag(&self, t: &VectorCoherenceToken) -> Option<u32> {
        self.0.get(&(t.digest.hi, t.digest.lo)).copied()
    }
}
fn tok(ver: u64, vtag: u32) -> VectorCoherenceToken {
    VectorCoherenceToken::new(ver, digest_embedding(&vec_of(vtag)))
}

// ------------------------------------------------------------------------------------------------
// the engine under test
// ------------------------------------------------------------------------------------------------
struct World {
    eng: Arc<TieredEngine>,
    strat: Arc<LruCacheStrategy>,
    _dir: tempfile::TempDir,
    cold_inserts: usize,
    hard: usize,
}
const MAX_ELEMENTS: usize = 20_000;

fn mk_world(scratch: &str) -> World {
    mk_world_limit(scratch, 5000)
}
fn mk_world_limit(scratch: &str, hard: usize) -> World {
    std::fs::create_dir_all(scratch).unwrap();
    let dir = tempfile::Builder::new().prefix("w").tempdir_in(scratch).unwrap();
    let cfg = TieredEngineConfig {
        hot_tier_max_size: hard,
        hot_tier_hard_limit: hard,
        hot_tier_max_age: Duration::from_secs(3600),
        hnsw_max_elements: MAX_ELEMENTS,
        embedding_dimension: DIM,
        hnsw_distance: DistanceMetric::Euclidean,
        data_dir: Some(dir.path().to_string_lossy().to_string()),
        fsync_policy: FsyncPolicy::Never,
        snapshot_interval: 0,
        max_wal_size_bytes: 1 << 40,
        flush_interval: Duration::from_secs(3600),
        ..Default::default()
    };
    let strat = Arc::new(LruCacheStrategy::new(4096));
    let shared: Arc<dyn CacheStrategy> = strat.clone();
    let qc = Arc::new(QueryHashCache::new(16, 0.85));
    let eng = TieredEngine::new_with_shared_strategy(shared, qc, vec![], vec![], cfg).expect("engine");
    World { eng: Arc::new(eng), strat, _dir: dir, cold_inserts: 0, hard }
}

/// (vector tag, token version, tag of the vector whose digest the token carries)
#[derive(Clone, Debug, PartialEq, Eq)]
struct Ent {
    vec: u32,
    ver: u64,
    dig: u32,
}
#[derive(Clone, Debug, PartialEq, Eq, Default)]
struct IdState {
    cold: Option<(u32, u32, u64)>,
    hot: Option<(Ent, u32)>,
    l1: Option<Ent>,
}

fn plant(w: &mut World, id: u64, st: &IdState) {
    let cold = w.eng.cold_tier();
    let _ = cold.delete(id);
    if let Some((v, m, ver)) = st.cold {
        for _ in 1..ver {
            cold.insert(id, vec_of(5999), meta_of(5999)).expect("plant cold");
            w.cold_inserts += 1;
        }
        cold.insert(id, vec_of(v), meta_of(m)).expect("plant cold");
        w.cold_inserts += 1;
    }
    let hot = w.eng.hot_tier();
    hot.delete(id);
    if let Some((e, m)) = &st.hot {
        hot.insert_with_coherence(id, vec_of(e.vec), meta_of(*m), tok(e.ver, e.dig));
    }
    w.strat.invalidate(id);
    if let Some(e) = &st.l1 {
        w.strat.insert_cached(CachedVector {
            doc_id: id,
            embedding: vec_of(e.vec),
            coherence: tok(e.ver, e.dig),
            distance: 0.0,
            cached_at: Instant::now(),
        });
    }
}

fn observe(w: &World, dg: &Digests, id: u64) -> Result<IdState, String> {
    let mut st = IdState::default();
    if let Some(c) = w.strat.peek_cached(id) {
        st.l1 = Some(Ent {
            vec: tag_of_vec(&c.embedding).ok_or("l1 vector not in pool")?,
            ver: c.coherence.version,
            dig: dg.tag(&c.coherence).ok_or("l1 digest not in pool")?,
        });
    }
    if let Some((e, t)) = w.eng.hot_tier().peek_with_coherence(id) {
        let m = w.eng.hot_tier().get_metadata(id).ok_or("hot entry without metadata")?;
        st.hot = Some((
            Ent { vec: tag_of_vec(&e).ok_or("hot vector not in pool")?, ver: t.version, dig: dg.tag(&t).ok_or("hot digest not in pool")? },
            tag_of_meta(&m).ok_or("hot metadata not in pool")?,
        ));
    }
    if let Some((e, t)) = w.eng.cold_tier().fetch_document_with_coherence(id) {
        let m = w.eng.cold_tier().fetch_metadata(id).ok_or("cold record without metadata")?;
        let vt_ = tag_of_vec(&e).ok_or("cold vector not in pool")?;
        if dg.tag(&t) != Some(vt_) {
            return Err("cold digest is not the digest of the cold vector".into());
        }
        st.cold = Some((vt_, tag_of_meta(&m).ok_or("cold metadata not in pool")?, t.version));
    }
    Ok(st)
}

// ------------------------------------------------------------------------------------------------
// calls and results
// ------------------------------------------------------------------------------------------------
#[derive(Clone, Debug, PartialEq, Eq)]
enum Call {
    Query(u64),
    GetEmb(u64),
    GetDoc(u64),
    Bulk(Vec<u64>),
    Insert(u64, u32, u32),
    Delete(u64),
}
#[derive(Clone, Debug, PartialEq, Eq)]
enum Res {
    Vec(u64, Option<u32>),
    Doc(u64, Option<(u32, u32)>),
    Bulk(Vec<(u64, Option<(u32, u32)>)>),
    Ins(bool),
    Del(bool),
    Bad(String),
}

fn exec(eng: &TieredEngine, c: &Call) -> Res {
    match c {
        Call::Query(id) => match eng.query_with_source(*id, None) {
            None => Res::Vec(*id, None),
            Some((v, _tier)) => match tag_of_vec(&v) {
                Some(t) => Res::Vec(*id, Some(t)),
                None => Res::Bad(format!("query returned a vector outside the pool: {:?}", v)),
            },
        },
        Call::GetEmb(id) => match eng.get_embedding_cache_aware(*id) {
            None => Res::Vec(*id, None),
            Some(v) => match tag_of_vec(&v) {
                Some(t) => Res::Vec(*id, Some(t)),
                None => Res::Bad(format!("get_embedding returned a vector outside the pool: {:?}", v)),
            },
        },
        Call::GetDoc(id) => match eng.get_document_with_metadata(*id) {
            None => Res::Doc(*id, None),
            Some((v, m)) => match (tag_of_vec(&v), tag_of_meta(&m)) {
                (Some(a), Some(b)) => Res::Doc(*id, Some((a, b))),
                _ => Res::Bad(format!("get_document returned values outside the pool: {:?} {:?}", v, m)),
            },
        },
        Call::Bulk(ids) => {
            let rs = eng.bulk_query_with_source(ids, true);
            let mut out = vec![];
            for (i, r) in rs.into_iter().enumerate() {
                match r {
                    None => out.push((ids[i], None)),
                    Some((v, m, _)) => match (tag_of_vec(&v), tag_of_meta(&m)) {
                        (Some(a), Some(b)) => out.push((ids[i], Some((a, b)))),
                        _ => return Res::Bad(format!("bulk returned values outside the pool: {:?} {:?}", v, m)),
                    },
                }
            }
            Res::Bulk(out)
        }
        Call::Insert(id, v, m) => Res::Ins(eng.insert(*id, vec_of(*v), meta_of(*m)).is_ok()),
        Call::Delete(id) => match eng.delete(*id) {
            Ok(b) => Res::Del(b),
            Err(e) => Res::Bad(format!("delete failed: {}", e)),
        },
    }
}

fn call_json(c: &Call) -> Value {
    match c {
        Call::Query(id) => json!({"op": "query_with_source", "id": id}),
        Call::GetEmb(id) => json!({"op": "get_embedding_cache_aware", "id": id}),
        Call::GetDoc(id) => json!({"op": "get_document_with_metadata", "id": id}),
        Call::Bulk(ids) => json!({"op": "bulk_query_with_source", "ids": ids}),
        Call::Insert(id, v, m) => json!({"op": "insert", "id": id, "vec_tag": v, "meta_tag": m}),
        Call::Delete(id) => json!({"op": "delete", "id": id}),
    }
}
fn call_from_json(v: &Value) -> Call {
    let id = v["id"].as_u64().unwrap_or(0);
    match v["op"].as_str().unwrap_or("") {
        "query_with_source" => Call::Query(id),
        "get_embedding_cache_aware" => Call::GetEmb(id),
        "get_document_with_metadata" => Call::GetDoc(id),
        "bulk_query_with_source" => Call::Bulk(v["ids"].as_array().unwrap().iter().map(|x| x.as_u64().unwrap()).collect()),
        "insert" => Call::Insert(id, v["vec_tag"].as_u64().unwrap() as u32, v["meta_tag"].as_u64().unwrap() as u32),
        "delete" => Call::Delete(id),
        o => panic!("unknown op {}", o),
    }
}
fn res_json(r: &Res) -> Value {
    match r {
        Res::Vec(id, v) => json!({"id": id, "vec_tag": v}),
        Res::Doc(id, p) => json!({"id": id, "vec_tag": p.map(|x| x.0), "meta_tag": p.map(|x| x.1), "found": p.is_some()}),
        Res::Bulk(rs) => json!(rs.iter().map(|(id, p)| json!({"id": id, "vec_tag": p.map(|x| x.0), "meta_tag": p.map(|x| x.1), "found": p.is_some()})).collect::<Vec<_>>()),
        Res::Ins(b) => json!({"insert_ok": b}),
        Res::Del(b) => json!({"delete_found": b}),
        Res::Bad(s) => json!({"undecodable": s}),
    }
}
fn state_json(s: &IdState) -> Value {
    json!({
        "cold": s.cold.map(|(v, m, ver)| json!({"vec_tag": v, "meta_tag": m, "version": ver})),
        "hot": s.hot.as_ref().map(|(e, m)| json!({"vec_tag": e.vec, "meta_tag": m, "token_version": e.ver, "token_digest_of": e.dig})),
        "l1": s.l1.as_ref().map(|e| json!({"vec_tag": e.vec, "token_version": e.ver, "token_digest_of": e.dig})),
    })
}
fn state_from_json(v: &Value) -> IdState {
    let ent = |x: &Value| Ent { vec: x["vec_tag"].as_u64().unwrap() as u32, ver: x["token_version"].as_u64().unwrap(), dig: x["token_digest_of"].as_u64().unwrap() as u32 };
    IdState {
        cold: if v["cold"].is_null() { None } else { Some((v["cold"]["vec_tag"].as_u64().unwrap() as u32, v["cold"]["meta_tag"].as_u64().unwrap() as u32, v["cold"]["version"].as_u64().unwrap())) },
        hot: if v["hot"].is_null() { None } else { Some((ent(&v["hot"]), v["hot"]["meta_tag"].as_u64().unwrap() as u32)) },
        l1: if v["l1"].is_null() { None } else { Some(ent(&v["l1"])) },
    }
}

// ------------------------------------------------------------------------------------------------
// Gallina literals
// ------------------------------------------------------------------------------------------------
thread_local! {
    static USED_TAGS: std::cell::RefCell<std::collections::BTreeSet<u32>> = std::cell::RefCell::new(std::collections::BTreeSet::new());
}
/// vectors / metadata are referred to by name (`V12`, `M12`); the shard preamble defines every name used
fn g_vec(tag: u32) -> String {
    USED_TAGS.with(|u| u.borrow_mut().insert(tag));
    format!("V{}", tag)
}
fn g_meta(tag: u32) -> String {
    USED_TAGS.with(|u| u.borrow_mut().insert(tag));
    format!("M{}", tag)
}
fn pool_defs() -> String {
    let mut s = String::new();
    USED_TAGS.with(|u| {
        for t in u.borrow().iter() {
            let v = vec_of(*t);
            let _ = writeln!(s, "Definition V{} : vec := [{}]%Z.", t, v.iter().map(|x| x.to_bits().to_string()).collect::<Vec<_>>().join("; "));
            let _ = writeln!(s, "Definition M{} : meta := [(0, {})]%N.", t, t);
        }
    });
    s
}
fn g_tok(ver: u64, dig: u32) -> String {
    format!("({}%N, {})", ver, g_vec(dig))
}
fn g_opt(o: Option<String>) -> String {
    match o {
        Some(s) => format!("(Some {})", s),
        None => "None".to_string(),
    }
}
fn g_lent(e: &Ent) -> String {
    format!("(mkL {} {})", g_vec(e.vec), g_tok(e.ver, e.dig))
}
fn g_hent(e: &Ent, m: u32) -> String {
    format!("(mkH {} {} {})", g_vec(e.vec), g_meta(m), g_tok(e.ver, e.dig))
}
fn g_crec(c: (u32, u32, u64)) -> String {
    format!("(mkC {} {} {}%N)", g_vec(c.0), g_meta(c.1), c.2)
}
fn g_shared(sts: &[(u64, IdState)]) -> String {
    let cold: Vec<String> = sts.iter().filter_map(|(id, s)| s.cold.map(|c| format!("({}%N, {})", id, g_crec(c)))).collect();
    let l1: Vec<String> = sts.iter().filter_map(|(id, s)| s.l1.as_ref().map(|e| format!("({}%N, {})", id, g_lent(e)))).collect();
    let hot: Vec<String> = sts.iter().filter_map(|(id, s)| s.hot.as_ref().map(|(e, m)| format!("({}%N, {})", id, g_hent(e, *m)))).collect();
    format!("(mkSh [{}] [{}] [{}])", cold.join("; "), l1.join("; "), hot.join("; "))
}
fn g_post(sts: &[(u64, IdState)]) -> String {
    let v: Vec<String> = sts
        .iter()
        .map(|(id, s)| {
            format!(
                "({}%N, ({}, {}, {}))",
                id,
                g_opt(s.l1.as_ref().map(g_lent)),
                g_opt(s.hot.as_ref().map(|(e, m)| g_hent(e, *m))),
                g_opt(s.cold.map(g_crec))
            )
        })
        .collect();
    format!("[{}]", v.join("; "))
}
fn g_call(c: &Call) -> String {
    match c {
        Call::Query(id) => format!("(CQuery true {}%N)", id),
        Call::GetEmb(id) => format!("(CGetEmb {}%N)", id),
        Call::GetDoc(id) => format!("(CGetDoc {}%N)", id),
        Call::Bulk(ids) => format!("(CBulk [{}]%N)", ids.iter().map(|x| x.to_string()).collect::<Vec<_>>().join("; ")),
        Call::Insert(id, v, m) => format!("(CInsert {}%N {} {})", id, g_vec(*v), g_meta(*m)),
        Call::Delete(id) => format!("(CDelete {}%N)", id),
    }
}
fn g_pair(p: Option<(u32, u32)>) -> String {
    g_opt(p.map(|(v, m)| format!("({}, {})", g_vec(v), g_meta(m))))
}
fn g_res(r: &Res) -> Option<String> {
    Some(match r {
        Res::Vec(id, v) => format!("(RVec {}%N {})", id, g_opt(v.map(g_vec))),
        Res::Doc(id, p) => format!("(RDoc {}%N {})", id, g_pair(*p)),
        Res::Bulk(rs) => format!("(RBulk [{}])", rs.iter().map(|(id, p)| format!("({}%N, {})", id, g_pair(*p))).collect::<Vec<_>>().join("; ")),
        Res::Ins(b) => format!("(RIns {})", b),
        Res::Del(b) => format!("(RDel {})", b),
        Res::Bad(_) => return None,
    })
}

// ------------------------------------------------------------------------------------------------
// lock classes
// ------------------------------------------------------------------------------------------------
#[derive(Clone, Debug, PartialEq, Eq)]
enum Cls {
    Model(&'static str),
    Ignored,
    Unknown(String),
}
struct Classes {
    src: HashMap<String, Vec<String>>,
    memo: HashMap<(String, u32), Cls>,
}
impl Classes {
    fn new() -> Self {
        Classes { src: HashMap::new(), memo: HashMap::new() }
    }
    fn field(&mut self, file: &str, line: u32) -> Option<String> {
        if !self.src.contains_key(file) {
            let text = std::fs::read_to_string(file).unwrap_or_default();
            self.src.insert(file.to_string(), text.lines().map(|s| s.to_string()).collect());
        }
        let lines = &self.src[file];
        let mut i = line as usize;
        let lo = i.saturating_sub(4);
        while i > lo && i >= 1 {
            if let Some(l) = lines.get(i - 1) {
                let t = l.trim_start();
                let t = t.strip_prefix("let mut ").or_else(|| t.strip_prefix("let ")).unwrap_or(t);
                let name: String = t.chars().take_while(|c| c.is_alphanumeric() || *c == '_').collect();
                let rest = &t[name.len()..].trim_start();
                if !name.is_empty() && (rest.starts_with(':') || rest.starts_with('=')) && !rest.starts_with("::") && !rest.starts_with("==") && name != "Self" && name != "Ok" && name != "Some" {
                    return Some(name);
                }
            }
            i -= 1;
        }
        None
    }
    fn classify(&mut self, created: Option<(&'static str, u32, u32)>) -> Cls {
        let Some((file, line, _)) = created else { return Cls::Unknown("creation-site-unknown".into()) };
        let key = (file.to_string(), line);
        if let Some(c) = self.memo.get(&key) {
            return c.clone();
        }
        let stem = std::path::Path::new(file).file_stem().map(|s| s.to_string_lossy().to_string()).unwrap_or_default();
        let field = self.field(file, line).unwrap_or_else(|| format!("@{}", line));
        let c = match (stem.as_str(), field.as_str()) {
            ("vector_cache", "state") => Cls::Model("LkL1"),
            ("hot_tier", "documents") => Cls::Model("LkHot"),
            ("hnsw_backend", "doc_store") => Cls::Model("LkStore"),
            ("hnsw_backend", "index") => Cls::Model("LkIndex"),
            ("hnsw_backend", "metadata_index") => Cls::Model("LkMetaIdx"),
            ("hnsw_backend", "write_gate") => Cls::Model("LkGate"),
            ("hnsw_backend", "wal") => Cls::Model("LkWal"),
            ("hnsw_backend", "snapshot_lock") => Cls::Model("LkSnap"),
            ("hnsw_backend", "inserts_since_snapshot") => Cls::Model("LkInsCnt"),
            ("query_hash_cache", "state") => Cls::Model("LkQc"),
            ("query_hash_cache", "stats") => Cls::Model("LkQcAux"),
            // statistics, breakers, HNSW-internal scratch: no effect on the modelled state
            ("vector_cache", "stats") | ("hot_tier", "stats") | ("tiered_engine", "stats") | ("tiered_engine", "last_hot_tier_coherence_audit") => Cls::Ignored,
            ("circuit_breaker", _) | ("ann_backend", _) | ("metrics", _) => Cls::Ignored,
            _ => Cls::Unknown(format!("{}::{}", stem, field)),
        };
        self.memo.insert(key, c.clone());
        c
    }
}

/// lock instructions of the relevant classes + ordinals (among this thread's blocking acquisitions) of the
/// first acquisition of every top-level relevant critical section
struct Skeleton {
    instrs: Vec<String>,
    section_ordinals: Vec<u32>,
    anomalies: Vec<String>,
}
fn skeleton(cl: &mut Classes, evs: &[vt::Event], thread: u64) -> Skeleton {
    let mut sk = Skeleton { instrs: vec![], section_ordinals: vec![], anomalies: vec![] };
    let mut depth_all = 0i32;
    let mut ordinal = 0u32;
    for e in evs.iter().filter(|e| e.thread == thread && e.kind != vt::Kind::Marker) {
        if e.phase == vt::Phase::Req {
            if e.op == vt::Op::Acquire {
                ordinal += 1;
            }
            continue;
        }
        let c = cl.classify(e.created);
        let mode = match e.mode {
            vt::Mode::Read | vt::Mode::ReadRecursive => "MRead",
            vt::Mode::Write => "MWrite",
            vt::Mode::Upgradable => "MUpgr",
            vt::Mode::Mutex => "MMutex",
            vt::Mode::None => "?",
        };
        match e.op {
            vt::Op::Acquire | vt::Op::TryAcquire | vt::Op::TimedAcquire => {
                if !e.ok {
                    continue;
                }
                if e.op != vt::Op::Acquire {
                    sk.anomalies.push(format!("non-blocking acquisition of {:?}", c));
                }
                match &c {
                    Cls::Model(n) => {
                        if depth_all == 0 {
                            sk.section_ordinals.push(ordinal);
                        }
                        sk.instrs.push(format!("LAcq {} {}", n, mode));
                    }
                    Cls::Ignored => {}
                    Cls::Unknown(s) => sk.anomalies.push(format!("lock of unknown class {} (created {:?})", s, e.created)),
                }
                depth_all += 1;
            }
            vt::Op::Release => {
                depth_all -= 1;
                if let Cls::Model(n) = &c {
                    sk.instrs.push(format!("LRel {}", n));
                }
            }
            vt::Op::Upgrade | vt::Op::TryUpgrade | vt::Op::TimedUpgrade => {
                if e.ok {
                    if let Cls::Model(n) = &c {
                        sk.instrs.push(format!("LUpg {}", n));
                    }
                }
            }
            other => sk.anomalies.push(format!("unexpected lock operation {:?} on {:?}", other, c)),
        }
    }
    if depth_all != 0 {
        sk.anomalies.push(format!("unbalanced acquire/release (depth {})", depth_all));
    }
    sk
}

// ------------------------------------------------------------------------------------------------
// per-key register linearizability (Wing-Gong search; histories are tiny)
// ------------------------------------------------------------------------------------------------
#[derive(Clone, Debug)]
enum Kop {
    /// the register becomes Some(vector tag) / None
    Write(Option<u32>),
    /// a write that answered Err: may or may not have taken effect
    MaybeWrite(Option<u32>),
    Read(Option<u32>),
}
#[derive(Clone, Debug)]
struct Hop {
    inv: u64,
    res: u64,
    op: Kop,
    who: String,
}
fn linearizable(init: Option<u32>, ops: &[Hop]) -> bool {
    let n = ops.len();
    assert!(n <= 24);
    let mut seen: HashSet<(u32, Option<u32>)> = HashSet::new();
    fn go(ops: &[Hop], done: u32, reg: Option<u32>, seen: &mut HashSet<(u32, Option<u32>)>) -> bool {
        let n = ops.len();
        if done == (1u32 << n) - 1 {
            return true;
        }
        if !seen.insert((done, reg)) {
            return false;
        }
        // minimal response among pending operations: an operation may go first only if it was invoked before that
        let min_res = (0..n).filter(|i| done & (1 << i) == 0).map(|i| ops[i].res).min().unwrap();
        for i in 0..n {
            if done & (1 << i) != 0 || ops[i].inv > min_res {
                continue;
            }
            match &ops[i].op {
                Kop::Write(v) => {
                    if go(ops, done | (1 << i), *v, seen) {
                        return true;
                    }
                }
                Kop::MaybeWrite(v) => {
                    if go(ops, done | (1 << i), *v, seen) || go(ops, done | (1 << i), reg, seen) {
                        return true;
                    }
                }
                Kop::Read(v) => {
                    if *v == reg && go(ops, done | (1 << i), reg, seen) {
                        return true;
                    }
                }
            }
        }
        false
    }
    go(ops, 0, init, &mut seen)
}

/// per-key operations of one completed call
fn key_ops(c: &Call, r: &Res, inv: u64, res: u64, who: &str) -> Vec<(u64, Hop)> {
    let h = |op: Kop| Hop { inv, res, op, who: who.to_string() };
    match (c, r) {
        (Call::Query(_), Res::Vec(id, v)) | (Call::GetEmb(_), Res::Vec(id, v)) => vec![(*id, h(Kop::Read(*v)))],
        (Call::GetDoc(_), Res::Doc(id, p)) => vec![(*id, h(Kop::Read(p.map(|x| x.0))))],
        (Call::Bulk(_), Res::Bulk(rs)) => rs.iter().map(|(id, p)| (*id, h(Kop::Read(p.map(|x| x.0))))).collect(),
        (Call::Insert(id, v, _), Res::Ins(true)) => vec![(*id, h(Kop::Write(Some(*v))))],
        (Call::Insert(id, v, _), Res::Ins(false)) => vec![(*id, h(Kop::MaybeWrite(Some(*v))))],
        (Call::Delete(id), Res::Del(_)) => vec![(*id, h(Kop::Write(None)))],
        _ => vec![],
    }
}

/// pairs (vector, metadata) returned together
fn pairs_of(r: &Res) -> Vec<(u64, u32, u32)> {
    match r {
        Res::Doc(id, Some((v, m))) => vec![(*id, *v, *m)],
        Res::Bulk(rs) => rs.iter().filter_map(|(id, p)| p.map(|(v, m)| (*id, v, m))).collect(),
        _ => vec![],
    }
}

// ------------------------------------------------------------------------------------------------
// cases
// ------------------------------------------------------------------------------------------------
struct Out {
    coq_solo: Vec<String>,
    coq_dir: Vec<String>,
    all_cases: Vec<Value>,
    oracle_failures: Vec<Value>,
    histogram: BTreeMap<String, u64>,
    samples: Vec<Value>,
    nontrivial: HashSet<String>,
    observations: BTreeMap<String, (u64, Value)>,
    harness_problems: Vec<Value>,
}
impl Out {
    fn hist(&mut self, k: &str) {
        *self.histogram.entry(k.to_string()).or_insert(0) += 1;
    }
    fn observe(&mut self, k: &str, example: Value) {
        let e = self.observations.entry(k.to_string()).or_insert((0, example));
        e.0 += 1;
    }
}

fn op_name(c: &Call) -> &'static str {
    match c {
        Call::Query(_) => "query",
        Call::GetEmb(_) => "get_embedding",
        Call::GetDoc(_) => "get_document_with_metadata",
        Call::Bulk(_) => "bulk_query",
        Call::Insert(..) => "insert",
        Call::Delete(_) => "delete",
    }
}

const ID: u64 = 7;
const ID2: u64 = 8;
// tags: 1 = canonical v1, 2 = canonical v2 (version 2), 3 = corrupt payload, 11/12/13 = writes of A / B
fn catalogue() -> Vec<(&'static str, IdState)> {
    let e = |vec: u32, ver: u64, dig: u32| Ent { vec, ver, dig };
    vec![
        ("absent", IdState { cold: None, hot: None, l1: None }),
        ("fresh-insert", IdState { cold: Some((1, 1, 1)), hot: Some((e(1, 1, 1), 1)), l1: None }),
        ("cold+l1", IdState { cold: Some((1, 1, 1)), hot: None, l1: Some(e(1, 1, 1)) }),
        ("stale-mirror-and-l1", IdState { cold: Some((2, 2, 2)), hot: Some((e(1, 1, 1), 1)), l1: Some(e(1, 1, 1)) }),
        ("corrupt-mirror-and-l1", IdState { cold: Some((1, 1, 1)), hot: Some((e(3, 1, 1), 1)), l1: Some(e(3, 1, 1)) }),
        ("orphans", IdState { cold: None, hot: Some((e(1, 1, 1), 1)), l1: Some(e(1, 1, 1)) }),
        ("all-fresh", IdState { cold: Some((1, 1, 1)), hot: Some((e(1, 1, 1), 1)), l1: Some(e(1, 1, 1)) }),
        ("cold-only", IdState { cold: Some((1, 1, 1)), hot: None, l1: None }),
    ]
}
fn id2_state() -> IdState {
    IdState { cold: Some((4, 4, 1)), hot: Some((Ent { vec: 4, ver: 1, dig: 4 }, 4)), l1: None }
}
fn calls_a() -> Vec<Call> {
    vec![
        Call::Query(ID),
        Call::GetEmb(ID),
        Call::GetDoc(ID),
        Call::Bulk(vec![ID]),
        Call::Bulk(vec![ID, ID2]),
        Call::Insert(ID, 11, 11),
        Call::Delete(ID),
    ]
}
fn calls_b(st: &IdState) -> Vec<Call> {
    let mut v = vec![Call::Insert(ID, 12, 12), Call::Delete(ID), Call::Query(ID), Call::GetDoc(ID)];
    if let Some((cv, _, _)) = st.cold {
        // same vector, different metadata
        v.push(Call::Insert(ID, cv, 13));
    }
    v
}

fn refresh_world(w: &mut World, scratch: &str) {
    if w.cold_inserts + 64 > MAX_ELEMENTS / 2 {
        *w = mk_world_limit(scratch, w.hard);
    }
}

/// run `c` alone with the recorder on; returns (result, events of this thread, thread number)
fn traced(w: &World, c: &Call) -> (Res, Vec<vt::Event>, u64) {
    vt::drain();
    vt::enable();
    let me = vt::current_thread_no();
    let r = exec(&w.eng, c);
    vt::disable();
    (r, vt::drain(), me)
}

struct Directed {
    ra: Res,
    rb: Res,
    gate_timeout: bool,
    gate_fired: bool,
}
fn directed(w: &World, a: &Call, b: &Call, ordinal: u32) -> Directed {
    vt::drain();
    vt::reset_events();
    vt::clear_gates();
    vt::add_gate(vt::Gate {
        thread_label: 1,
        lock: vt::LockSel::Any,
        mode: None,
        op: Some(vt::Op::Acquire),
        nth: ordinal,
        phase: vt::Phase::Req,
        signal: Some(1),
        wait: Some(2),
        timeout_ms: 8000,
    });
    vt::enable();
    let (e1, e2) = (w.eng.clone(), w.eng.clone());
    let (a1, b1) = (a.clone(), b.clone());
    let t1 = std::thread::spawn(move || {
        vt::set_thread_label(1);
        let r = exec(&e1, &a1);
        // if the gate never fired (should not happen) let the other thread go
        vt::signal(1);
        r
    });
    let t2 = std::thread::spawn(move || {
        vt::set_thread_label(2);
        let fired = vt::wait_event(1, Duration::from_millis(8000));
        let r = exec(&e2, &b1);
        vt::signal(2);
        (r, fired)
    });
    let (rb, _) = t2.join().expect("thread B");
    let ra = t1.join().expect("thread A");
    vt::disable();
    vt::clear_gates();
    let evs = vt::drain();
    let mut timeout = false;
    let mut fired = false;
    for e in &evs {
        if let Some(t) = &e.text {
            if t.starts_with("gate-timeout") {
                timeout = true;
            }
            if t.starts_with("gate-wait") {
                fired = true;
            }
        }
    }
    Directed { ra, rb, gate_timeout: timeout, gate_fired: fired }
}

/// oracles over a directed pair: B's interval lies inside A's
fn directed_oracles(sts: &[(u64, IdState)], a: &Call, ra: &Res, b: &Call, rb: &Res) -> Vec<(String, String)> {
    seq_oracles(sts, &[("A", a, ra, 0, 3), ("B", b, rb, 1, 2)])
}
/// oracles over calls with given (invocation, response) instants
fn seq_oracles(sts: &[(u64, IdState)], ops: &[(&str, &Call, &Res, u64, u64)]) -> Vec<(String, String)> {
    let mut fails = vec![];
    for (who, _, r, _, _) in ops {
        if let Res::Bad(s) = r {
            fails.push(("unwritten-value".to_string(), format!("{}: {}", who, s)));
        }
    }
    let mut per_key: BTreeMap<u64, Vec<Hop>> = BTreeMap::new();
    for (who, c, r, i, e) in ops {
        for (id, h) in key_ops(c, r, *i, *e, who) {
            per_key.entry(id).or_default().push(h);
        }
    }
    for (id, hops) in &per_key {
        let init = sts.iter().find(|(i, _)| i == id).and_then(|(_, s)| s.cold.map(|c| c.0));
        if !linearizable(init, hops) {
            // the specific class: a delete of this id completed, nobody inserted this id, a later read finds it
            let inserted = ops.iter().any(|(_, c, _, _, _)| matches!(c, Call::Insert(i, _, _) if i == id));
            let deleted_at = ops.iter().filter(|(_, c, _, _, _)| matches!(c, Call::Delete(i) if i == id)).map(|x| x.4).min();
            let read_after = hops.iter().any(|h| matches!(h.op, Kop::Read(Some(_))) && deleted_at.map_or(false, |d| h.inv > d));
            let kind = if !inserted && read_after { "drain-resurrect" } else { "linearizability" };
            fails.push((kind.to_string(), format!("id {}: initial {:?}, history {:?} has no linearisation", id, init, hops)));
        }
    }
    // pairs: some single version (initial or written by a call) must carry both components
    let mut versions: Vec<(u64, u32, u32)> = sts.iter().filter_map(|(id, s)| s.cold.map(|c| (*id, c.0, c.1))).collect();
    for (_, c, _, _, _) in ops {
        if let Call::Insert(id, v, m) = c {
            versions.push((*id, *v, *m));
        }
    }
    for (who, _, r, _, _) in ops {
        for (id, v, m) in pairs_of(r) {
            if !versions.contains(&(id, v, m)) {
                fails.push(("pairing".to_string(), format!("{} returned vector of write {} with metadata of write {} for id {}; versions of that id: {:?}", who, v, m, id, versions.iter().filter(|x| x.0 == id).collect::<Vec<_>>())));
            }
        }
    }
    fails
}

// ------------------------------------------------------------------------------------------------
// the emergency drain inside insert (hot_tier_hard_limit = 1): solo skeleton of the drain prologue and
// directed schedules against delete / insert / read of the drained id, each followed by a point read
// ------------------------------------------------------------------------------------------------
const ID3: u64 = 9;
fn run_drain_family(scratch: &str, cl: &mut Classes, dg: &Digests, out: &mut Out, case_no: &mut usize) {
    let mut w = mk_world_limit(scratch, 1);
    let e = |vec: u32, ver: u64, dig: u32| Ent { vec, ver, dig };
    let states: Vec<(&str, IdState)> = vec![
        ("limit/fresh-insert", IdState { cold: Some((1, 1, 1)), hot: Some((e(1, 1, 1), 1)), l1: None }),
        ("limit/orphan-mirror", IdState { cold: None, hot: Some((e(1, 1, 1), 1)), l1: None }),
        ("limit/stale-mirror+l1", IdState { cold: Some((2, 2, 2)), hot: Some((e(1, 1, 1), 1)), l1: Some(e(1, 1, 1)) }),
    ];
    let cold_only = IdState { cold: Some((4, 4, 1)), hot: None, l1: None };
    let ins = Call::Insert(ID3, 11, 11);
    let follow = Call::Query(ID);
    for (sname, st) in &states {
        let sts: Vec<(u64, IdState)> = vec![(ID, st.clone()), (ID2, cold_only.clone()), (ID3, IdState::default())];
        let mut pairs: Vec<(Call, Call)> = vec![(Call::Delete(ID), ins.clone())];
        for b in [Call::Delete(ID), Call::Insert(ID, 12, 12), Call::Query(ID)] {
            pairs.push((ins.clone(), b));
        }
        let mut solo_done = false;
        for (a, b) in pairs {
            refresh_world(&mut w, scratch);
            for (id, s) in &sts {
                plant(&mut w, *id, s);
            }
            let (ra, evs, me) = traced(&w, &a);
            let sk = skeleton(cl, &evs, me);
            if a == ins && !solo_done {
                solo_done = true;
                let post: Result<Vec<(u64, IdState)>, String> = sts.iter().map(|(id, _)| observe(&w, dg, *id).map(|s| (*id, s))).collect();
                let id_no = *case_no;
                *case_no += 1;
                out.hist("solo/insert-at-hard-limit");
                let mut case = json!({"case": id_no, "kind": "solo", "hard_limit": 1, "state_name": sname,
                    "states": sts.iter().map(|(id, s)| json!({"id": id, "state": state_json(s)})).collect::<Vec<_>>(),
                    "call": call_json(&a), "result": res_json(&ra), "locks": sk.instrs, "sections": sk.section_ordinals.len()});
                match (&post, g_res(&ra)) {
                    (Ok(p), Some(gr)) if sk.anomalies.is_empty() => out.coq_solo.push(format!(
                        "({}%nat, skel_check 1%nat {} {} {} {} [{}])", id_no, g_shared(&sts), g_call(&a), gr, g_post(p), sk.instrs.join("; "))),
                    _ => {
                        case["harness_problem"] = json!(format!("anomalies {:?} / undecodable post-state or result", sk.anomalies));
                        out.harness_problems.push(case.clone());
                    }
                }
                out.all_cases.push(case);
            }
            if !sk.anomalies.is_empty() {
                continue;
            }
            let nsec = sk.section_ordinals.len();
            for (j, ord) in sk.section_ordinals.iter().enumerate() {
                refresh_world(&mut w, scratch);
                for (id, s) in &sts {
                    plant(&mut w, *id, s);
                }
                let d = directed(&w, &a, &b, *ord);
                let rf = exec(&w.eng, &follow);
                let post: Result<Vec<(u64, IdState)>, String> = sts.iter().map(|(id, _)| observe(&w, dg, *id).map(|s| (*id, s))).collect();
                let id_no = *case_no;
                *case_no += 1;
                out.hist(&format!("directed-at-limit/{}|{}", op_name(&a), op_name(&b)));
                let mut case = json!({"case": id_no, "kind": "directed", "hard_limit": 1, "state_name": sname,
                    "states": sts.iter().map(|(id, s)| json!({"id": id, "state": state_json(s)})).collect::<Vec<_>>(),
                    "thread_A": call_json(&a), "thread_B": call_json(&b), "then": call_json(&follow),
                    "schedule": format!("hot_tier_hard_limit = 1. A performs {} of its {} atomic steps; B runs to completion; A resumes; after both returned: the point read", j, nsec),
                    "pause_before_section": j, "pause_at_acquisition_ordinal": ord,
                    "result_A": res_json(&d.ra), "result_B": res_json(&d.rb), "result_then": res_json(&rf)});
                let mut problem = None;
                if d.gate_timeout || !d.gate_fired {
                    problem = Some(format!("gate did not act as planned (fired={}, timeout={})", d.gate_fired, d.gate_timeout));
                }
                match (&post, g_res(&d.ra), g_res(&d.rb), g_res(&rf)) {
                    (Ok(p), Some(ga), Some(gb), Some(gf)) if problem.is_none() => out.coq_dir.push(format!(
                        "({}%nat, phase_check 1%nat {} [[{}]; [{}]; [{}]] [(0%nat, Some {}%nat); (1%nat, None); (0%nat, None); (2%nat, None)] [(0%nat, 0%nat, {}); (1%nat, 0%nat, {}); (2%nat, 0%nat, {})] {})",
                        id_no, g_shared(&sts), g_call(&a), g_call(&b), g_call(&follow), j, ga, gb, gf, g_post(p))),
                    _ if problem.is_none() => problem = Some("post-state or result not decodable".to_string()),
                    _ => {}
                }
                if let Some(p) = &problem {
                    case["harness_problem"] = json!(p);
                    out.harness_problems.push(case.clone());
                }
                // a PLANTED orphan mirror (no canonical record, not reachable through the API alone) is repaired by any
                // drain: that is the sequential C04 class (C04_orphan_repair_refuted, demanded by the repo's own test);
                // those schedules are kept for the model correspondence only
                let planted_orphan = st.cold.is_none() && st.hot.is_some();
                if planted_orphan {
                    case["oracles"] = json!("skipped: planted orphan mirror (C04 orphan-repair class)");
                } else {
                    for (k, why) in seq_oracles(&sts, &[("A", &a, &d.ra, 0, 3), ("B", &b, &d.rb, 1, 2), ("then", &follow, &rf, 4, 5)]) {
                        out.oracle_failures.push(json!({"kind": k, "why": why, "case": case.clone()}));
                    }
                }
                if matches!(a, Call::Insert(..)) && d.ra == Res::Ins(false) {
                    out.observe("insert-answered-Err-after-its-cold-tier-write-took-effect", case.clone());
                }
                if j > 0 {
                    out.nontrivial.insert(format!("L|{}|{:?}|{:?}|{}|{:?}|{:?}|{:?}", sname, a, b, j, d.ra, d.rb, rf));
                }
                out.all_cases.push(case);
            }
        }
    }
}

fn run_solo_and_directed(w: &mut World, scratch: &str, cl: &mut Classes, dg: &Digests, out: &mut Out, quick: bool, case_no: &mut usize) {
    let cat = catalogue();
    for (sname, st) in &cat {
        for a in calls_a() {
            refresh_world(w, scratch);
            let sts: Vec<(u64, IdState)> = vec![(ID, st.clone()), (ID2, id2_state())];
            for (id, s) in &sts {
                plant(w, *id, s);
            }
            // ---------- (i) solo, traced
            let (ra, evs, me) = traced(w, &a);
            let sk = skeleton(cl, &evs, me);
            let post: Result<Vec<(u64, IdState)>, String> = sts.iter().map(|(id, _)| observe(w, dg, *id).map(|s| (*id, s))).collect();
            let id_no = *case_no;
            *case_no += 1;
            out.hist(&format!("solo/{}", op_name(&a)));
            let mut case = json!({"case": id_no, "kind": "solo", "state_name": sname,
                "states": sts.iter().map(|(id, s)| json!({"id": id, "state": state_json(s)})).collect::<Vec<_>>(),
                "call": call_json(&a), "result": res_json(&ra), "locks": sk.instrs, "sections": sk.section_ordinals.len()});
            let mut problem = None;
            if !sk.anomalies.is_empty() {
                problem = Some(format!("lock trace anomalies: {:?}", sk.anomalies));
            }
            match (&post, g_res(&ra)) {
                (Ok(p), Some(gr)) if problem.is_none() => {
                    out.coq_solo.push(format!(
                        "({}%nat, skel_check {}%nat {} {} {} {} [{}])",
                        id_no, w.hard, g_shared(&sts), g_call(&a), gr, g_post(p), sk.instrs.join("; ")
                    ));
                }
                (Err(e), _) => problem = Some(format!("post-state not decodable: {}", e)),
                (_, None) => problem = Some("result not decodable".to_string()),
                _ => {}
            }
            if let Some(p) = &problem {
                case["harness_problem"] = json!(p);
                out.harness_problems.push(case.clone());
            }
            for (k, why) in directed_oracles(&sts, &a, &ra, &Call::Query(999), &Res::Vec(999, None)) {
                out.oracle_failures.push(json!({"kind": k, "why": why, "case": case.clone()}));
            }
            if out.samples.len() < 2 && matches!(a, Call::Insert(..)) {
                out.samples.push(case.clone());
            }
            out.all_cases.push(case);
            if problem.is_some() {
                continue;
            }
            // ---------- (ii) directed: pause A before each of its top-level sections
            let nsec = sk.section_ordinals.len();
            for b in calls_b(st) {
                for (j, ord) in sk.section_ordinals.iter().enumerate() {
                    // quick tier: a read-only B matters only against a writing A (reads interact through the caches only)
                    let a_writes = matches!(a, Call::Insert(..) | Call::Delete(_));
                    if quick && matches!(b, Call::Query(_) | Call::GetDoc(_)) && !a_writes {
                        continue;
                    }
                    refresh_world(w, scratch);
                    for (id, s) in &sts {
                        plant(w, *id, s);
                    }
                    let d = directed(w, &a, &b, *ord);
                    let post: Result<Vec<(u64, IdState)>, String> = sts.iter().map(|(id, _)| observe(w, dg, *id).map(|s| (*id, s))).collect();
                    let id_no = *case_no;
                    *case_no += 1;
                    out.hist(&format!("directed/{}|{}", op_name(&a), op_name(&b)));
                    let mut case = json!({"case": id_no, "kind": "directed", "state_name": sname,
                        "states": sts.iter().map(|(id, s)| json!({"id": id, "state": state_json(s)})).collect::<Vec<_>>(),
                        "thread_A": call_json(&a), "thread_B": call_json(&b),
                        "schedule": format!("A performs {} of its {} atomic steps; B runs to completion; A resumes", j, nsec),
                        "pause_before_section": j, "pause_at_acquisition_ordinal": ord,
                        "result_A": res_json(&d.ra), "result_B": res_json(&d.rb)});
                    let mut problem = None;
                    if d.gate_timeout || !d.gate_fired {
                        problem = Some(format!("gate did not act as planned (fired={}, timeout={})", d.gate_fired, d.gate_timeout));
                    }
                    match (&post, g_res(&d.ra), g_res(&d.rb)) {
                        (Ok(p), Some(ga), Some(gb)) if problem.is_none() => {
                            out.coq_dir.push(format!(
                                "({}%nat, phase_check {}%nat {} [[{}]; [{}]] [(0%nat, Some {}%nat); (1%nat, None); (0%nat, None)] [(0%nat, 0%nat, {}); (1%nat, 0%nat, {})] {})",
                                id_no, w.hard, g_shared(&sts), g_call(&a), g_call(&b), j, ga, gb, g_post(p)
                            ));
                        }
                        (Err(e), _, _) => problem = Some(format!("post-state not decodable: {}", e)),
                        (Ok(_), _, _) if problem.is_none() => problem = Some("result not decodable".to_string()),
                        _ => {}
                    }
                    if let Some(p) = &problem {
                        case["harness_problem"] = json!(p);
                        out.harness_problems.push(case.clone());
                    }
                    for (k, why) in directed_oracles(&sts, &a, &d.ra, &b, &d.rb) {
                        out.oracle_failures.push(json!({"kind": k, "why": why, "case": case.clone()}));
                    }
                    // observations that are not part of the read clauses
                    if matches!(a, Call::Insert(..)) && d.ra == Res::Ins(false) {
                        out.observe("insert-answered-Err-after-its-cold-tier-write-took-effect", case.clone());
                    }
                    if matches!(a, Call::Delete(_)) && matches!(b, Call::Delete(_)) && d.ra == Res::Del(true) && d.rb == Res::Del(true) {
                        out.observe("two-deletes-of-one-document-both-answered-found", case.clone());
                    }
                    let writes = |c: &Call| matches!(c, Call::Insert(..) | Call::Delete(_));
                    if j > 0 && (writes(&a) || writes(&b)) {
                        out.nontrivial.insert(format!("D|{}|{:?}|{:?}|{}|{:?}|{:?}", sname, a, b, j, d.ra, d.rb));
                    }
                    if out.samples.len() < 4 && j > 0 && matches!(a, Call::GetDoc(_)) && matches!(b, Call::Insert(..)) {
                        out.samples.push(case.clone());
                    }
                    out.all_cases.push(case);
                }
            }
        }
    }
}

// ------------------------------------------------------------------------------------------------
// (iii) stress
// ------------------------------------------------------------------------------------------------
struct StressCase {
    pre: Vec<(u64, Option<u32>, bool)>, // id, initial tag, mirrored?
    programs: Vec<Vec<Call>>,
}
fn gen_stress(rng: &mut Rng, base_id: u64, next_tag: &mut u32) -> StressCase {
    let ids = [base_id, base_id + 1];
    let mut pre = vec![];
    for id in ids {
        if rng.below(3) != 0 {
            let t = *next_tag;
            *next_tag += 1;
            pre.push((id, Some(t), rng.below(2) == 0));
        } else {
            pre.push((id, None, false));
        }
    }
    let nthreads = 2 + rng.below(2) as usize;
    let mut programs = vec![];
    for _ in 0..nthreads {
        let n = 2 + rng.below(3) as usize;
        let mut p = vec![];
        for _ in 0..n {
            let id = if rng.below(4) == 0 { ids[1] } else { ids[0] };
            let k = rng.below(100);
            p.push(if k < 32 {
                let t = *next_tag;
                *next_tag += 1;
                Call::Insert(id, t, t)
            } else if k < 46 {
                Call::Delete(id)
            } else if k < 62 {
                Call::Query(id)
            } else if k < 68 {
                Call::GetEmb(id)
            } else if k < 86 {
                Call::GetDoc(id)
            } else {
                Call::Bulk(vec![ids[0], ids[1]])
            });
        }
        programs.push(p);
    }
    StressCase { pre, programs }
}
fn stress_json(c: &StressCase) -> Value {
    json!({"kind": "stress",
        "initial": c.pre.iter().map(|(id, t, m)| json!({"id": id, "tag": t, "mirrored": m})).collect::<Vec<_>>(),
        "programs": c.programs.iter().map(|p| p.iter().map(call_json).collect::<Vec<_>>()).collect::<Vec<_>>()})
}
fn stress_from_json(v: &Value) -> StressCase {
    StressCase {
        pre: v["initial"].as_array().unwrap().iter().map(|x| (x["id"].as_u64().unwrap(), x["tag"].as_u64().map(|t| t as u32), x["mirrored"].as_bool().unwrap_or(false))).collect(),
        programs: v["programs"].as_array().unwrap().iter().map(|p| p.as_array().unwrap().iter().map(call_from_json).collect()).collect(),
    }
}

struct StressRun {
    results: Vec<Vec<(Call, Res, u64, u64)>>, // per thread: call, result, inv seq, res seq
    writes: Vec<(u64, u64, Option<u32>)>,     // (seq of the doc_store write acquisition, id, value)
    overlap: bool,
    problems: Vec<String>,
}
fn run_stress(w: &mut World, cl: &mut Classes, c: &StressCase) -> StressRun {
    for (id, t, mirrored) in &c.pre {
        let _ = w.eng.delete(*id);
        w.strat.invalidate(*id);
        if let Some(t) = t {
            w.eng.insert(*id, vec_of(*t), meta_of(*t)).expect("initial insert");
            w.cold_inserts += 1;
            if !*mirrored {
                w.eng.hot_tier().delete(*id);
            }
        }
    }
    vt::drain();
    vt::clear_gates();
    vt::enable();
    let n = c.programs.len();
    let barrier = Arc::new(Barrier::new(n));
    let mut handles = vec![];
    for (ti, prog) in c.programs.iter().enumerate() {
        let eng = w.eng.clone();
        let prog = prog.clone();
        let bar = barrier.clone();
        handles.push(std::thread::spawn(move || {
            vt::set_thread_label((ti + 1) as u32);
            bar.wait();
            let mut out = vec![];
            for (ci, call) in prog.iter().enumerate() {
                vt::mark(&format!("B {} {}", ti, ci));
                let r = exec(&eng, call);
                vt::mark(&format!("E {} {}", ti, ci));
                out.push((call.clone(), r));
            }
            out
        }));
    }
    let rs: Vec<Vec<(Call, Res)>> = handles.into_iter().map(|h| h.join().expect("stress thread")).collect();
    vt::disable();
    let evs = vt::drain();
    for p in &c.programs {
        w.cold_inserts += p.iter().filter(|c| matches!(c, Call::Insert(..))).count();
    }
    let mut problems = vec![];
    let mut begin: HashMap<(usize, usize), u64> = HashMap::new();
    let mut end: HashMap<(usize, usize), u64> = HashMap::new();
    for e in &evs {
        if let Some(t) = &e.text {
            let p: Vec<&str> = t.split(' ').collect();
            if p.len() == 3 && (p[0] == "B" || p[0] == "E") {
                let k = (p[1].parse::<usize>().unwrap(), p[2].parse::<usize>().unwrap());
                if p[0] == "B" { begin.insert(k, e.seq); } else { end.insert(k, e.seq); }
            }
        }
    }
    let mut results = vec![];
    for (ti, r) in rs.into_iter().enumerate() {
        let mut v = vec![];
        for (ci, (call, res)) in r.into_iter().enumerate() {
            match (begin.get(&(ti, ci)), end.get(&(ti, ci))) {
                (Some(b), Some(e)) => v.push((call, res, *b, *e)),
                _ => problems.push(format!("markers of call {}/{} missing", ti, ci)),
            }
        }
        results.push(v);
    }
    // canonical write order: doc_store write acquisitions, attributed to the enclosing call of their thread
    let mut writes = vec![];
    for e in &evs {
        if e.kind == vt::Kind::Marker || e.phase != vt::Phase::Done || e.op != vt::Op::Acquire || e.mode != vt::Mode::Write || e.thread_label == 0 {
            continue;
        }
        if cl.classify(e.created) != Cls::Model("LkStore") {
            continue;
        }
        let ti = (e.thread_label - 1) as usize;
        let Some(calls) = results.get(ti) else { continue };
        match calls.iter().find(|(_, _, b, en)| *b < e.seq && e.seq < *en) {
            Some((Call::Insert(id, v, _), _, _, _)) => writes.push((e.seq, *id, Some(*v))),
            Some((Call::Delete(id), _, _, _)) => writes.push((e.seq, *id, None)),
            Some((c, _, _, _)) => problems.push(format!("doc_store write acquisition inside a read call {:?}", c)),
            None => problems.push("doc_store write acquisition outside every call window".to_string()),
        }
    }
    writes.sort();
    let flat: Vec<&(Call, Res, u64, u64)> = results.iter().flatten().collect();
    let mut overlap = false;
    for (i, x) in flat.iter().enumerate() {
        for y in flat.iter().skip(i + 1) {
            let wr = |c: &Call| matches!(c, Call::Insert(..) | Call::Delete(_));
            if x.2 < y.3 && y.2 < x.3 && (wr(&x.0) || wr(&y.0)) {
                overlap = true;
            }
        }
    }
    StressRun { results, writes, overlap, problems }
}

fn stress_oracles(c: &StressCase, run: &StressRun) -> Vec<(String, String)> {
    let mut fails = vec![];
    let init = |id: u64| c.pre.iter().find(|p| p.0 == id).and_then(|p| p.1);
    let mut per_key: BTreeMap<u64, Vec<Hop>> = BTreeMap::new();
    let mut versions: Vec<(u64, u32, u32)> = c.pre.iter().filter_map(|(id, t, _)| t.map(|t| (*id, t, t))).collect();
    for (ti, calls) in run.results.iter().enumerate() {
        for (ci, (call, res, b, e)) in calls.iter().enumerate() {
            if let Res::Bad(s) = res {
                fails.push(("unwritten-value".to_string(), format!("thread {} call {}: {}", ti, ci, s)));
            }
            if let Call::Insert(id, v, m) = call {
                versions.push((*id, *v, *m));
            }
            for (id, h) in key_ops(call, res, *b, *e, &format!("t{}c{}", ti, ci)) {
                per_key.entry(id).or_default().push(h);
            }
        }
    }
    for (id, ops) in &per_key {
        if !linearizable(init(*id), ops) {
            fails.push(("linearizability".to_string(), format!("id {}: initial {:?}; no linearisation of {:?}", id, init(*id), ops)));
        }
        // interval oracle for vector reads, from the recorder's global order of canonical writes
        for h in ops {
            if let Kop::Read(v) = &h.op {
                let mut allowed: Vec<Option<u32>> = vec![];
                let before: Vec<&(u64, u64, Option<u32>)> = run.writes.iter().filter(|w| w.1 == *id && w.0 < h.inv).collect();
                allowed.push(before.last().map(|w| w.2).unwrap_or(init(*id)));
                for w in run.writes.iter().filter(|w| w.1 == *id && w.0 >= h.inv && w.0 <= h.res) {
                    allowed.push(w.2);
                }
                if !allowed.contains(v) {
                    fails.push(("interval".to_string(), format!("id {}: {} returned {:?}; canonical values during its interval [{}, {}]: {:?}", id, h.who, v, h.inv, h.res, allowed)));
                }
            }
        }
    }
    for (ti, calls) in run.results.iter().enumerate() {
        for (ci, (_, res, _, _)) in calls.iter().enumerate() {
            for (id, v, m) in pairs_of(res) {
                if !versions.contains(&(id, v, m)) {
                    fails.push(("pairing".to_string(), format!("thread {} call {} returned vector of write {} with metadata of write {} for id {}", ti, ci, v, m, id)));
                }
            }
        }
    }
    fails
}

fn run_stress_phase(w: &mut World, scratch: &str, cl: &mut Classes, out: &mut Out, rng: &mut Rng, n: usize, case_no: &mut usize) {
    let mut next_tag: u32 = 100;
    for k in 0..n {
        if next_tag > MAX_TAG - 50 {
            next_tag = 100;
        }
        refresh_world(w, scratch);
        let c = gen_stress(rng, 1000 + 2 * (k as u64 % 400), &mut next_tag);
        let run = run_stress(w, cl, &c);
        let id_no = *case_no;
        *case_no += 1;
        out.hist(&format!("stress/{}-threads", c.programs.len()));
        for p in &c.programs {
            for call in p {
                out.hist(&format!("stress-op/{}", op_name(call)));
            }
        }
        let mut case = stress_json(&c);
        case["case"] = json!(id_no);
        case["observed"] = json!(run.results.iter().map(|t| t.iter().map(|(call, res, b, e)| json!({"call": call_json(call), "result": res_json(res), "inv_seq": b, "res_seq": e})).collect::<Vec<_>>()).collect::<Vec<_>>());
        case["canonical_writes_in_order"] = json!(run.writes.iter().map(|(s, id, v)| json!({"seq": s, "id": id, "tag": v})).collect::<Vec<_>>());
        if !run.problems.is_empty() {
            case["harness_problem"] = json!(run.problems);
            out.harness_problems.push(case.clone());
        }
        for (kind, why) in stress_oracles(&c, &run) {
            out.oracle_failures.push(json!({"kind": kind, "why": why, "case": case.clone()}));
        }
        if run.overlap {
            out.nontrivial.insert(format!("S|{}", serde_json::to_string(&case["observed"]).unwrap()));
        }
        if k == 0 {
            out.samples.push(case.clone());
        }
        out.all_cases.push(case);
    }
}

// ------------------------------------------------------------------------------------------------
// replay
// ------------------------------------------------------------------------------------------------
fn replay(path: &str, scratch: &str, out: &mut Out, cl: &mut Classes, dg: &Digests) {
    let v: Value = serde_json::from_slice(&std::fs::read(path).expect("replay file")).expect("replay json");
    let case = if v.get("case").map(|c| c.is_object()).unwrap_or(false) { v["case"].clone() } else { v.clone() };
    let mut w = mk_world_limit(scratch, case["hard_limit"].as_u64().unwrap_or(5000) as usize);
    match case["kind"].as_str().unwrap_or("") {
        "directed" | "solo" => {
            let sts: Vec<(u64, IdState)> = case["states"].as_array().unwrap().iter().map(|s| (s["id"].as_u64().unwrap(), state_from_json(&s["state"]))).collect();
            let a = call_from_json(if case["kind"] == "solo" { &case["call"] } else { &case["thread_A"] });
            for (id, s) in &sts {
                plant(&mut w, *id, s);
            }
            let (_, evs, me) = traced(&w, &a);
            let sk = skeleton(cl, &evs, me);
            if case["kind"] == "solo" {
                println!("replay solo: locks {:?}", sk.instrs);
                return;
            }
            let b = call_from_json(&case["thread_B"]);
            let j = case["pause_before_section"].as_u64().unwrap() as usize;
            for (id, s) in &sts {
                plant(&mut w, *id, s);
            }
            let d = directed(&w, &a, &b, sk.section_ordinals[j]);
            let _ = dg;
            println!("replay directed: A = {:?} -> {:?}; B = {:?} -> {:?}", a, d.ra, b, d.rb);
            let mut c2 = case.clone();
            c2["result_A"] = res_json(&d.ra);
            c2["result_B"] = res_json(&d.rb);
            if !case["then"].is_null() {
                let f = call_from_json(&case["then"]);
                let rf = exec(&w.eng, &f);
                println!("replay directed: then {:?} -> {:?}", f, rf);
                c2["result_then"] = res_json(&rf);
                for (k, why) in seq_oracles(&sts, &[("A", &a, &d.ra, 0, 3), ("B", &b, &d.rb, 1, 2), ("then", &f, &rf, 4, 5)]) {
                    out.oracle_failures.push(json!({"kind": k, "why": why, "case": c2.clone()}));
                }
                out.all_cases.push(c2);
                return;
            }
            for (k, why) in directed_oracles(&sts, &a, &d.ra, &b, &d.rb) {
                out.oracle_failures.push(json!({"kind": k, "why": why, "case": c2.clone()}));
            }
            out.all_cases.push(c2);
        }
        "stress" => {
            let c = stress_from_json(&case);
            for _ in 0..300 {
                refresh_world(&mut w, scratch);
                let run = run_stress(&mut w, cl, &c);
                let fails = stress_oracles(&c, &run);
                if !fails.is_empty() {
                    let mut cj = stress_json(&c);
                    cj["observed"] = json!(run.results.iter().map(|t| t.iter().map(|(call, res, b, e)| json!({"call": call_json(call), "result": res_json(res), "inv_seq": b, "res_seq": e})).collect::<Vec<_>>()).collect::<Vec<_>>());
                    for (k, why) in fails {
                        out.oracle_failures.push(json!({"kind": k, "why": why, "case": cj.clone()}));
                    }
                    break;
                }
            }
            out.all_cases.push(stress_json(&c));
        }
        k => panic!("replay: unknown case kind {:?}", k),
    }
}

// ------------------------------------------------------------------------------------------------
fn write_shard(dir: &str, k: usize, solo: &[String], dirc: &[String]) {
    let mut s = String::new();
    s.push_str("From Coq Require Import List NArith ZArith Bool.\nFrom Kyro Require Import Model.TMap Model.Tiered Model.Conc05.\nImport ListNotations.\n");
    s.push_str(&pool_defs());
    let _ = writeln!(s, "Definition solo_cases : list (nat * (bool * bool * bool)) := [\n{}].", solo.join(";\n"));
    let _ = writeln!(s, "Definition dir_cases : list (nat * (bool * bool)) := [\n{}].", dirc.join(";\n"));
    s.push_str("Definition solo_v := Eval vm_compute in solo_cases.\nDefinition dir_v := Eval vm_compute in dir_cases.\n");
    s.push_str("Definition bad_res := map fst (filter (fun p => negb (fst (fst (snd p)))) solo_v) ++ map fst (filter (fun p => negb (fst (snd p))) dir_v).\n");
    s.push_str("Definition bad_post := map fst (filter (fun p => negb (snd (fst (snd p)))) solo_v) ++ map fst (filter (fun p => negb (snd (snd p))) dir_v).\n");
    s.push_str("Definition bad_locks := map fst (filter (fun p => negb (snd (snd p))) solo_v).\n");
    s.push_str("Definition bad := bad_res ++ bad_post ++ bad_locks.\n");
    for t in ["bad", "bad_res", "bad_post", "bad_locks"] {
        let _ = writeln!(s, "Goal True. idtac \"@@{}\". Abort.\nEval vm_compute in {}.", t, t);
    }
    s.push_str("Goal True. idtac \"@@count\". Abort.\nEval vm_compute in (length solo_v + length dir_v)%nat.\n");
    std::fs::write(format!("{}/cases_{}.v", dir, k), s).unwrap();
}

/// The named premise of the C05 / C04 theorems: `digest a = digest b -> a = b` (a mirror copy paired with a
/// foreign token is rejected because its digest differs).  For every dimension 1..=67 and EVERY lane: two
/// vectors differing in that lane only (sign flip, one ulp, +0.25) and two lanes swapped must have different
/// digests.  A collision is a concrete counterexample to the premise.
fn digest_premise_stream(rng: &mut Rng, out: &mut Out) {
    let mut tested = 0u64;
    let mut collisions = 0u64;
    for dim in 1..=67usize {
        for lane in 0..dim {
            for kind in 0..4u8 {
                let a: Vec<f32> = (0..dim).map(|_| ((rng.below(2001) as f32) - 1000.0) / 1000.0).collect();
                let mut b = a.clone();
                let what = match kind {
                    0 => {
                        b[lane] = if a[lane] == 0.0 { 0.5 } else { -a[lane] };
                        "sign flip of one lane"
                    }
                    1 => {
                        b[lane] = f32::from_bits(a[lane].to_bits() ^ 1);
                        "one ulp in one lane"
                    }
                    2 => {
                        b[lane] = a[lane] + 0.25;
                        "+0.25 in one lane"
                    }
                    _ => {
                        let other = (lane + 1 + (rng.below(dim.max(2) as u64 - 1) as usize)) % dim;
                        b.swap(lane, other);
                        "two lanes swapped"
                    }
                };
                let (ab, bb): (Vec<u32>, Vec<u32>) = (a.iter().map(|x| x.to_bits()).collect(), b.iter().map(|x| x.to_bits()).collect());
                if ab == bb {
                    continue;
                }
                tested += 1;
                if digest_embedding(&a) == digest_embedding(&b) {
                    collisions += 1;
                    if collisions <= 3 {
                        out.oracle_failures.push(json!({"kind": "digest-premise",
                            "why": format!("digest_embedding gives the SAME digest to two different vectors ({}; dimension {}, lane {}): a stale or foreign mirror copy whose versions differ only there passes the token + digest check", what, dim, lane),
                            "case": {"dim": dim, "lane": lane, "perturbation": what, "a_bits": ab, "b_bits": bb}}));
                    }
                }
            }
        }
    }
    out.histogram.insert("digest_premise_pairs_tested".into(), tested);
    out.histogram.insert("digest_premise_collisions".into(), collisions);
}

fn main() {
    let args: Vec<String> = std::env::args().collect();
    let get = |k: &str| args.iter().position(|a| a == k).and_then(|i| args.get(i + 1)).cloned();
    let out_dir = get("--out").expect("--out DIR");
    let n: usize = get("--n").and_then(|s| s.parse().ok()).unwrap_or(300);
    let quick = get("--tier").map(|t| t != "thorough").unwrap_or(true);
    std::fs::create_dir_all(&out_dir).unwrap();
    let scratch = format!("{}/scratch", out_dir);
    let _ = std::fs::remove_dir_all(&scratch);
    let mut rng = Rng::from_env();
    let dg = Digests::new();
    let mut cl = Classes::new();
    let mut out = Out {
        coq_solo: vec![], coq_dir: vec![], all_cases: vec![], oracle_failures: vec![], histogram: BTreeMap::new(),
        samples: vec![], nontrivial: HashSet::new(), observations: BTreeMap::new(), harness_problems: vec![],
    };
    let t0 = Instant::now();
    let mut case_no = 0usize;
    let (mut n_solo, mut n_dir, mut n_stress) = (0usize, 0usize, 0usize);
    if let Some(r) = get("--replay") {
        replay(&r, &scratch, &mut out, &mut cl, &dg);
    } else {
        let mut w = mk_world(&scratch);
        run_solo_and_directed(&mut w, &scratch, &mut cl, &dg, &mut out, quick, &mut case_no);
        run_drain_family(&scratch, &mut cl, &dg, &mut out, &mut case_no);
        n_solo = out.all_cases.iter().filter(|c| c["kind"] == "solo").count();
        n_dir = out.all_cases.iter().filter(|c| c["kind"] == "directed").count();
        let before = out.all_cases.len();
        run_stress_phase(&mut w, &scratch, &mut cl, &mut out, &mut rng, n, &mut case_no);
        n_stress = out.all_cases.len() - before;
    }
    if get("--replay").is_none() {
        digest_premise_stream(&mut rng, &mut out);
    }
    // shards
    let per = 250usize;
    let mut shards = 0usize;
    let mut i = 0usize;
    let mut first = true;
    while i < out.coq_dir.len() || first {
        let hi = (i + per).min(out.coq_dir.len());
        write_shard(&out_dir, shards, if first { &out.coq_solo } else { &[] }, &out.coq_dir[i..hi]);
        shards += 1;
        first = false;
        i = hi;
    }
    let _ = std::fs::remove_dir_all(&scratch);
    let summary = json!({
        "cases": out.all_cases.len(), "solo": n_solo, "directed": n_dir, "stress": n_stress,
        "coq_cases": out.coq_solo.len() + out.coq_dir.len(), "shards": shards,
        "nontrivial": out.nontrivial.len(),
        "histogram": out.histogram, "samples": out.samples,
        "oracle_failures": out.oracle_failures, "harness_problems": out.harness_problems,
        "observations": out.observations.iter().map(|(k, (n, ex))| json!({"what": k, "count": n, "example": ex})).collect::<Vec<_>>(),
        "elapsed_ms": t0.elapsed().as_millis() as u64,
    });
    std::fs::write(format!("{}/summary.json", out_dir), serde_json::to_vec_pretty(&summary).unwrap()).unwrap();
    std::fs::write(format!("{}/all_cases.json", out_dir), serde_json::to_vec(&out.all_cases).unwrap()).unwrap();
    println!(
        "c05: {} solo, {} directed, {} stress; {} coq cases in {} shards; {} oracle failures; {} harness problems; {} ms",
        n_solo, n_dir, n_stress, out.coq_solo.len() + out.coq_dir.len(), shards, out.oracle_failures.len(), out.harness_problems.len(), t0.elapsed().as_millis()
    );
}
