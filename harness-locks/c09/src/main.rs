//! C09 driver: snapshots / rotation / compaction racing with writers on the REAL HnswBackend.
//!
//!   c09 --out DIR --n N [--replay FILE]
//!
//! Three parts, one summary (DIR/summary.json):
//!  (i)   skeleton: every modelled call alone on a persistent engine (rotation never / always,
//!        snapshot due / not due, index full with / without tombstones) with the parking_lot recorder
//!        on; the recorded lock sequence over the eight lock classes of HnswBackend and the resulting
//!        collection go to DIR/cases_0.v, where coqc compares them with Model/Conc09.v (`solo`);
//!  (ii)  directed schedules with the recorder's gate table for the windows the proof hinges on;
//!  (iii) seeded stress: 1-2 writer threads + a manual-snapshot thread, tiny rotation thresholds and
//!        capacities, seeded delays injected at lock operations through the gate table.
//! Oracle of (ii) and (iii): after all calls returned, the live census equals the census of a strict
//! `recover` on a COPY of the data directory (exact equality).
use kvh::rng::Rng;
use kvh_pers::eng;
use kvh_pers::hist::{Census, Cfg, Meta};
use kyrodb_engine::HnswBackend;
use parking_lot::verif_trace as vt;
use serde_json::{json, Value};
use std::collections::{BTreeMap, HashMap};
use std::path::{Path, PathBuf};
use std::sync::atomic::{AtomicBool, AtomicUsize, Ordering};
use std::sync::Arc;
use std::time::{Duration, Instant};

const SRC: &str = "/repo/engine/src/hnsw_backend.rs";
const CLASSES: [&str; 8] = [
    "snapshot_lock", "write_gate", "wal", "manifest_lock", "index", "doc_store", "metadata_index", "inserts_since_snapshot",
];

fn class_code(name: &str) -> Option<u64> {
    CLASSES.iter().position(|c| *c == name).map(|i| (i + 1) as u64)
}

/// creation line -> field name, read from the source text that was compiled
fn creation_lines() -> HashMap<u32, String> {
    let text = std::fs::read_to_string(SRC).expect("engine source");
    let mut m = HashMap::new();
    for (i, line) in text.lines().enumerate() {
        let l = line.trim();
        if let Some(p) = l.find(": Arc::new(") {
            let rest = &l[p + 11..];
            if rest.starts_with("RwLock::new(") || rest.starts_with("Mutex::new(") {
                let field = l[..p].trim().to_string();
                if field.chars().all(|c| c.is_alphanumeric() || c == '_') {
                    m.insert((i + 1) as u32, field);
                }
            }
        }
    }
    m
}

fn class_of(e: &vt::Event, lines: &HashMap<u32, String>) -> Option<u64> {
    let (f, l, _) = e.created?;
    if !f.ends_with("hnsw_backend.rs") {
        return None;
    }
    lines.get(&l).and_then(|n| class_code(n))
}

fn cfg(interval: usize, max_wal: u64, cap: usize) -> Cfg {
    Cfg { dim: 2, metric: "euclidean".into(), capacity: cap, snapshot_interval: interval, max_wal_bytes: max_wal, fsync: "never".into() }
}

fn meta_of(m: u64) -> HashMap<String, String> {
    let mut h = HashMap::new();
    h.insert("k".to_string(), m.to_string());
    h
}

#[derive(Clone, Debug)]
enum Call {
    Ins(u64, u64, u64),
    Del(u64),
    Upd(u64, u64),
    Batch(Vec<u64>),
    Snap,
}

fn do_call(b: &HnswBackend, c: &Call) -> String {
    match c {
        Call::Ins(id, v, m) => match b.insert(*id, vec![*v as f32, 0.0], meta_of(*m)) {
            Ok(()) => "ok".into(),
            Err(e) => format!("err:{}", short(&e)),
        },
        Call::Del(id) => match b.delete(*id) {
            Ok(x) => format!("ok:{}", x),
            Err(e) => format!("err:{}", short(&e)),
        },
        Call::Upd(id, m) => match b.update_metadata(*id, meta_of(*m), false) {
            Ok(x) => format!("ok:{}", x),
            Err(e) => format!("err:{}", short(&e)),
        },
        Call::Batch(ids) => match b.batch_delete(ids) {
            Ok(n) => format!("ok:{}", n),
            Err(e) => format!("err:{}", short(&e)),
        },
        Call::Snap => match b.create_snapshot() {
            Ok(()) => "ok".into(),
            Err(e) => format!("err:{}", short(&e)),
        },
    }
}

fn short(e: &anyhow::Error) -> String {
    let s = format!("{:#}", e).to_lowercase();
    if s.contains("full") { "full".into() } else { s.chars().take(60).collect() }
}

fn call_coq(c: &Call) -> String {
    match c {
        Call::Ins(i, v, m) => format!("SC (CIns {} {} {})", i, v, m),
        Call::Del(i) => format!("SC (CDel {})", i),
        Call::Upd(i, m) => format!("SC (CUpd {} {})", i, m),
        Call::Batch(ids) => format!("SC (CBatch [{}])", ids.iter().map(|x| x.to_string()).collect::<Vec<_>>().join("; ")),
        Call::Snap => "SSnap".into(),
    }
}

fn call_json(c: &Call) -> Value {
    json!(format!("{:?}", c))
}

/// census as (id, vector tag, metadata tag)
fn census_tags(c: &Census) -> Vec<(u64, u64, u64)> {
    c.iter()
        .map(|(id, (bits, meta))| {
            let v = f32::from_bits(bits[0]) as u64;
            let m = meta.get("k").and_then(|s| s.parse::<u64>().ok()).unwrap_or(999_999);
            (*id, v, m)
        })
        .collect()
}

fn fresh_dir(base: &Path, name: &str) -> PathBuf {
    let d = base.join(name);
    let _ = std::fs::remove_dir_all(&d);
    std::fs::create_dir_all(&d).unwrap();
    d
}

fn copy_dir(src: &Path, dst: &Path) {
    let _ = std::fs::remove_dir_all(dst);
    std::fs::create_dir_all(dst).unwrap();
    for e in std::fs::read_dir(src).unwrap() {
        let e = e.unwrap();
        if e.file_type().unwrap().is_file() {
            std::fs::copy(e.path(), dst.join(e.file_name())).unwrap();
        }
    }
}

fn manifest_json(dir: &Path) -> Value {
    std::fs::read(dir.join("MANIFEST")).ok().and_then(|b| serde_json::from_slice(&b).ok()).unwrap_or(Value::Null)
}

/// the direct oracle: strict recover on a copy of `dir`; Ok(census) or Err(text)
fn recover_copy(c: &Cfg, dir: &Path) -> Result<Census, String> {
    let copy = dir.with_extension("copy");
    copy_dir(dir, &copy);
    let r = match eng::start(c, &copy) {
        Ok(b) => Ok(eng::census(&b)),
        Err(e) => Err(format!("{:#}", e)),
    };
    let _ = std::fs::remove_dir_all(&copy);
    r
}

// ---------------------------------------------------------------------------------------------
// (i) skeleton
// ---------------------------------------------------------------------------------------------

struct Skel {
    name: &'static str,
    interval: usize,
    max_wal: u64,
    cap: usize,
    setup: Vec<Call>,
    call: Call,
}

fn skeleton_cases() -> Vec<Skel> {
    use Call::*;
    let mut v = vec![];
    for (iv, mw, tag) in [(0usize, 0u64, "plain"), (0, 1, "rot"), (1, 0, "due"), (1, 1, "rot+due"), (2, 1, "rot+notdue")] {
        let n = |s: &'static str| -> &'static str { Box::leak(format!("{}/{}", s, tag).into_boxed_str()) };
        v.push(Skel { name: n("insert-new"), interval: iv, max_wal: mw, cap: 100, setup: vec![], call: Ins(1, 3, 4) });
        v.push(Skel { name: n("insert-overwrite"), interval: iv, max_wal: mw, cap: 100, setup: vec![Ins(1, 3, 4)], call: Ins(1, 5, 6) });
        v.push(Skel { name: n("delete-live"), interval: iv, max_wal: mw, cap: 100, setup: vec![Ins(1, 3, 4), Ins(2, 1, 1)], call: Del(1) });
        v.push(Skel { name: n("delete-missing"), interval: iv, max_wal: mw, cap: 100, setup: vec![Ins(1, 3, 4)], call: Del(9) });
        v.push(Skel { name: n("update-live"), interval: iv, max_wal: mw, cap: 100, setup: vec![Ins(1, 3, 4)], call: Upd(1, 8) });
        v.push(Skel { name: n("update-missing"), interval: iv, max_wal: mw, cap: 100, setup: vec![Ins(1, 3, 4)], call: Upd(9, 8) });
        v.push(Skel { name: n("batch-live"), interval: iv, max_wal: mw, cap: 100, setup: vec![Ins(1, 3, 4), Ins(2, 1, 1), Ins(3, 2, 2)], call: Batch(vec![1, 9, 3, 1]) });
        v.push(Skel { name: n("batch-none"), interval: iv, max_wal: mw, cap: 100, setup: vec![Ins(1, 3, 4)], call: Batch(vec![8, 9]) });
        v.push(Skel { name: n("snapshot-empty"), interval: iv, max_wal: mw, cap: 100, setup: vec![], call: Snap });
        v.push(Skel { name: n("snapshot-after-writes"), interval: iv, max_wal: mw, cap: 100, setup: vec![Ins(1, 3, 4), Ins(2, 1, 1), Del(1), Upd(2, 7)], call: Snap });
        v.push(Skel { name: n("snapshot-twice"), interval: iv, max_wal: mw, cap: 100, setup: vec![Ins(1, 3, 4), Snap, Ins(2, 1, 1)], call: Snap });
        v.push(Skel { name: n("insert-full-with-tombstones"), interval: iv, max_wal: mw, cap: 2, setup: vec![Ins(1, 3, 4), Ins(1, 5, 6)], call: Ins(2, 1, 1) });
        v.push(Skel { name: n("insert-full-no-tombstones"), interval: iv, max_wal: mw, cap: 2, setup: vec![Ins(1, 3, 4), Ins(2, 5, 6)], call: Ins(3, 1, 1) });
        v.push(Skel { name: n("insert-after-delete-full"), interval: iv, max_wal: mw, cap: 2, setup: vec![Ins(1, 3, 4), Ins(2, 5, 6), Del(1)], call: Ins(3, 1, 1) });
    }
    v
}

fn run_skeleton(base: &Path, lines: &HashMap<u32, String>) -> (String, Value) {
    let cases = skeleton_cases();
    let mut coq = String::new();
    coq.push_str("From Coq Require Import List NArith Bool.\nFrom Kyro Require Import Model.Amap Model.Conc09.\nImport ListNotations.\nOpen Scope N_scope.\n");
    coq.push_str("Definition cases : list (N * (N * N * N) * list scall * scall * list N * list (N * (N * N))) := [\n");
    let mut js = vec![];
    let mut ignored_total = 0usize;
    let mut shapes: BTreeMap<String, usize> = BTreeMap::new();
    for (k, sc) in cases.iter().enumerate() {
        let c = cfg(sc.interval, sc.max_wal, sc.cap);
        let dir = fresh_dir(base, &format!("skel_{}", k));
        let b = eng::start(&c, &dir).expect("engine start");
        for s in &sc.setup {
            do_call(&b, s);
        }
        vt::clear();
        vt::enable();
        let me = vt::current_thread_no();
        vt::mark("BEGIN");
        let out = do_call(&b, &sc.call);
        vt::mark("END");
        vt::disable();
        let evs = vt::drain();
        let mut seq: Vec<u64> = vec![];
        let mut ignored = 0usize;
        for e in evs.iter().filter(|e| e.thread == me && e.kind != vt::Kind::Marker) {
            let cls = match class_of(e, lines) {
                Some(c) => c,
                None => {
                    ignored += 1;
                    continue;
                }
            };
            match (e.op, e.phase, e.mode) {
                (vt::Op::Acquire, vt::Phase::Done, vt::Mode::Read) => seq.push(10 * cls + 1),
                (vt::Op::Acquire, vt::Phase::Done, vt::Mode::Write) => seq.push(10 * cls + 2),
                (vt::Op::Acquire, vt::Phase::Done, vt::Mode::Mutex) => seq.push(10 * cls + 3),
                (vt::Op::Acquire, vt::Phase::Req, _) => {}
                (vt::Op::Release, _, _) => seq.push(10 * cls),
                _ => seq.push(10 * cls + 9), // try/upgrade/downgrade: not in the model -> mismatch
            }
        }
        ignored_total += ignored;
        let cen = census_tags(&eng::census(&b));
        drop(b);
        *shapes.entry(seq.iter().map(|x| x.to_string()).collect::<Vec<_>>().join(",")).or_insert(0) += 1;
        coq.push_str(&format!(
            "  ({}, ({}, {}, {}), [{}], {}, [{}], [{}]){}\n",
            k,
            sc.interval,
            sc.max_wal,
            sc.cap,
            sc.setup.iter().map(call_coq).collect::<Vec<_>>().join("; "),
            call_coq(&sc.call),
            seq.iter().map(|x| x.to_string()).collect::<Vec<_>>().join("; "),
            cen.iter().map(|(i, v, m)| format!("({}, ({}, {}))", i, v, m)).collect::<Vec<_>>().join("; "),
            if k + 1 < cases.len() { ";" } else { "" }
        ));
        js.push(json!({"id": k, "name": sc.name, "cfg": [sc.interval, sc.max_wal, sc.cap],
                        "setup": sc.setup.iter().map(call_json).collect::<Vec<_>>(), "call": call_json(&sc.call),
                        "outcome": out, "locks": seq, "census": cen, "ignored_lock_events": ignored}));
        let _ = std::fs::remove_dir_all(&dir);
    }
    coq.push_str("].\n");
    coq.push_str(
        "Fixpoint store_eqb (a b : list (N * (N * N))) : bool :=\n  match a, b with\n  | [], [] => true\n  | (k, (v, m)) :: r, (k', (v', m')) :: s => N.eqb k k' && N.eqb v v' && N.eqb m m' && store_eqb r s\n  | _, _ => false\n  end.\n\
Definition run1 (x : N * (N * N * N) * list scall * scall * list N * list (N * (N * N))) : option (list N * store) :=\n  let '(_, (iv, mw, cap), setup, call, _, _) := x in\n  let c := mkCfg iv mw cap (fun _ => 1) (fun n => n) in\n  match solo_all c init setup with\n  | Some st => match solo c st call with Some (st', ls) => Some (map lev_code ls, st_store st') | None => None end\n  | None => None\n  end.\n\
Definition ok1 (x : N * (N * N * N) * list scall * scall * list N * list (N * (N * N))) : bool :=\n  let '(_, _, _, _, obs, cen) := x in\n  match run1 x with Some (ls, sto) => list_N_eqb ls obs && store_eqb sto cen | None => false end.\n\
Definition id_of (x : N * (N * N * N) * list scall * scall * list N * list (N * (N * N))) : N := let '(k, _, _, _, _, _) := x in k.\n\
Definition bad := map id_of (filter (fun x => negb (ok1 x)) cases).\n\
Goal True. idtac \"@@bad\". Abort.\nEval vm_compute in bad.\nGoal True. idtac \"@@count\". Abort.\nEval vm_compute in (length cases).\n\
Goal True. idtac \"@@model_of_bad\". Abort.\nEval vm_compute in (map (fun x => (id_of x, run1 x)) (filter (fun x => negb (ok1 x)) cases)).\nGoal True. idtac \"@@end\". Abort.\n",
    );
    let summary = json!({"cases": js, "n": cases.len(), "distinct_lock_sequences": shapes.len(), "ignored_lock_events": ignored_total});
    (coq, summary)
}

// ---------------------------------------------------------------------------------------------
// (ii) directed schedules
// ---------------------------------------------------------------------------------------------

struct Env {
    b: Arc<HnswBackend>,
    c: Cfg,
    dir: PathBuf,
    inst: HashMap<String, u64>, // class name -> lock instance
}

fn learn_instances(b: &HnswBackend, lines: &HashMap<u32, String>) -> HashMap<String, u64> {
    vt::clear();
    vt::clear_gates();
    vt::reset_events();
    vt::enable();
    do_call(b, &Call::Ins(9000, 1, 1));
    do_call(b, &Call::Snap);
    do_call(b, &Call::Del(9000));
    let evs = vt::drain();
    let mut m = HashMap::new();
    for e in &evs {
        if let Some((f, l, _)) = e.created {
            if f.ends_with("hnsw_backend.rs") {
                if let Some(n) = lines.get(&l) {
                    m.insert(n.clone(), e.lock);
                }
            }
        }
    }
    m
}

fn env(base: &Path, name: &str, c: Cfg, lines: &HashMap<u32, String>) -> Env {
    let dir = fresh_dir(base, name);
    let b = Arc::new(eng::start(&c, &dir).expect("engine start"));
    let inst = learn_instances(&b, lines);
    Env { b, c, dir, inst }
}

#[allow(clippy::too_many_arguments)]
fn gate(env: &Env, label: u32, class: &str, mode: vt::Mode, phase: vt::Phase, nth: u32, signal: Option<u32>, wait: Option<u32>) {
    vt::add_gate(vt::Gate {
        thread_label: label,
        lock: vt::LockSel::Instance(*env.inst.get(class).unwrap_or(&u64::MAX)),
        mode: Some(mode),
        op: Some(vt::Op::Acquire),
        nth,
        phase,
        signal,
        wait,
        timeout_ms: 8000,
    });
}

fn spawn(env: &Env, label: u32, calls: Vec<Call>, done: Arc<AtomicUsize>) -> std::thread::JoinHandle<Vec<String>> {
    let b = env.b.clone();
    std::thread::spawn(move || {
        vt::set_thread_label(label);
        let r = calls.iter().map(|c| do_call(&b, c)).collect();
        done.fetch_add(1, Ordering::SeqCst);
        r
    })
}

fn wait_ev(e: u32) -> bool {
    vt::wait_event(e, Duration::from_millis(8000))
}

/// join, final census, drop engine, recover on a copy, compare
fn finish(env: Env, hs: Vec<std::thread::JoinHandle<Vec<String>>>, name: &str, mut checks: Vec<(String, bool)>, extra: Value) -> Value {
    let mut outs = vec![];
    for h in hs {
        outs.push(h.join().unwrap_or_else(|_| vec!["panic".into()]));
    }
    vt::disable();
    let evs = vt::drain();
    vt::clear_gates();
    let timeouts = evs.iter().filter(|e| e.text.as_deref().map_or(false, |t| t.starts_with("gate-timeout"))).count();
    checks.push(("no-gate-timeout".into(), timeouts == 0));
    let Env { b, c, dir, .. } = env;
    let live = eng::census(&b);
    let man_before = manifest_json(&dir);
    drop(b);
    let rec = recover_copy(&c, &dir);
    let equal = matches!(&rec, Ok(r) if *r == live);
    let ok = equal && checks.iter().all(|(_, v)| *v);
    let v = json!({
        "name": name, "ok": ok, "census_equal": equal,
        "checks": checks.iter().map(|(k, v)| json!([k, v])).collect::<Vec<_>>(),
        "outcomes": outs, "live": census_tags(&live),
        "recovered": match &rec { Ok(r) => json!(census_tags(r)), Err(e) => json!({"error": e}) },
        "manifest": man_before, "extra": extra, "events": evs.len(),
    });
    let _ = std::fs::remove_dir_all(&dir);
    v
}

/// position (recorder sequence number) of the first event of `label` matching the predicate
fn first_seq(evs: &[vt::Event], label: u32, lock: u64, op: vt::Op, phase: vt::Phase, mode: Option<vt::Mode>) -> Option<u64> {
    evs.iter()
        .find(|e| e.thread_label == label && e.lock == lock && e.op == op && e.phase == phase && mode.map_or(true, |m| m == e.mode))
        .map(|e| e.seq)
}

fn directed(base: &Path, lines: &HashMap<u32, String>) -> Vec<Value> {
    use vt::{Mode, Phase};
    let mut res = vec![];

    // D1: writer W1 stopped after seq allocation + WAL append (+ rotation), before the store apply;
    //     a manual create_snapshot is requested: it must not capture until W1 has applied.
    for (tag, call) in [("insert", Call::Ins(1, 3, 4)), ("delete", Call::Del(5)), ("update", Call::Upd(5, 9)), ("batch", Call::Batch(vec![5, 6]))] {
        let e = env(base, "d1", cfg(0, 1, 100), lines);
        do_call(&e.b, &Call::Ins(5, 1, 1));
        do_call(&e.b, &Call::Ins(6, 2, 2));
        // the apply of insert starts with index.write(); of the others with doc_store.write()
        let apply_lock = if tag == "insert" { "index" } else { "doc_store" };
        gate(&e, 1, apply_lock, Mode::Write, Phase::Req, 1, Some(11), Some(12));
        gate(&e, 2, "snapshot_lock", Mode::Write, Phase::Req, 1, Some(21), None);
        gate(&e, 2, "snapshot_lock", Mode::Write, Phase::Done, 1, Some(22), None);
        let done = Arc::new(AtomicUsize::new(0));
        let h1 = spawn(&e, 1, vec![call.clone()], done.clone());
        let a = wait_ev(11);
        let h2 = spawn(&e, 2, vec![Call::Snap], done.clone());
        let b2 = wait_ev(21);
        std::thread::sleep(Duration::from_millis(120));
        let captured_early = vt::is_signalled(22);
        let w1_done_early = done.load(Ordering::SeqCst) > 0;
        vt::signal(12);
        let c2 = wait_ev(22);
        let checks = vec![
            ("w1-reached-pre-apply".to_string(), a),
            ("snapshot-requested".to_string(), b2),
            ("snapshot-did-not-capture-while-writer-in-flight".to_string(), !captured_early && !w1_done_early),
            ("snapshot-captured-after-release".to_string(), c2),
        ];
        res.push(finish(e, vec![h1, h2], &format!("D1-writer-between-append-and-apply-vs-manual-snapshot/{}", tag), checks, json!({})));
    }

    // D2: automatic snapshot due inside W1 (its write is complete) while W2 sits between sequence
    //     allocation/append and apply: W1's capture must wait for W2 and then contain W2's write.
    {
        let e = env(base, "d2", cfg(1, 1, 100), lines);
        gate(&e, 1, "snapshot_lock", Mode::Write, Phase::Req, 1, Some(31), Some(32));
        gate(&e, 1, "snapshot_lock", Mode::Write, Phase::Done, 1, Some(33), None);
        gate(&e, 2, "index", Mode::Write, Phase::Req, 1, Some(11), Some(12));
        let done = Arc::new(AtomicUsize::new(0));
        let h1 = spawn(&e, 1, vec![Call::Ins(1, 3, 4)], done.clone());
        let a = wait_ev(31); // W1's write is applied and acknowledged in memory; its automatic snapshot is about to start
        let h2 = spawn(&e, 2, vec![Call::Ins(2, 5, 6)], done.clone());
        let b2 = wait_ev(11); // W2 allocated its seq and appended, not applied
        vt::signal(32); // W1 now asks for snapshot_lock.write()
        std::thread::sleep(Duration::from_millis(120));
        let early = vt::is_signalled(33);
        vt::signal(12);
        let c2 = wait_ev(33);
        let checks = vec![
            ("w1-at-auto-snapshot".to_string(), a),
            ("w2-between-append-and-apply".to_string(), b2),
            ("auto-snapshot-waited-for-w2".to_string(), !early),
            ("auto-snapshot-captured".to_string(), c2),
        ];
        res.push(finish(e, vec![h1, h2], "D2-auto-snapshot-in-W1-while-W2-between-alloc-and-apply", checks, json!({})));
    }

    // D3: two snapshots race on the manifest: S1 captured first (older), S2 captured later and
    //     commits first; S1 must find the newer pointer and leave it (cf. the unit test
    //     test_create_snapshot_refuses_to_overwrite_newer_manifest_snapshot).
    {
        let e = env(base, "d3", cfg(0, 1, 100), lines);
        do_call(&e.b, &Call::Ins(1, 1, 1));
        do_call(&e.b, &Call::Ins(2, 2, 2));
        gate(&e, 1, "manifest_lock", Mode::Mutex, Phase::Req, 1, Some(41), Some(42));
        let done = Arc::new(AtomicUsize::new(0));
        let h1 = spawn(&e, 1, vec![Call::Snap], done.clone());
        let a = wait_ev(41); // S1 has captured and saved its file
        let w = do_call(&e.b, &Call::Ins(3, 3, 3));
        let w2 = do_call(&e.b, &Call::Del(1));
        let s2 = do_call(&e.b, &Call::Snap);
        let m_mid = manifest_json(&e.dir);
        let seq_mid = m_mid["latest_snapshot_wal_seq"].as_u64().unwrap_or(0);
        let name_mid = m_mid["latest_snapshot"].as_str().unwrap_or("").to_string();
        vt::signal(42);
        let r1 = h1.join().unwrap_or_default();
        let m_end = manifest_json(&e.dir);
        let seq_end = m_end["latest_snapshot_wal_seq"].as_u64().unwrap_or(0);
        let name_end = m_end["latest_snapshot"].as_str().unwrap_or("").to_string();
        let snaps: Vec<String> = std::fs::read_dir(&e.dir).unwrap().filter_map(|x| x.ok()).map(|x| x.file_name().to_string_lossy().to_string()).filter(|n| n.ends_with(".snap")).collect();
        let checks = vec![
            ("s1-stopped-before-manifest".to_string(), a),
            ("writes-and-newer-snapshot-ok".to_string(), w == "ok" && w2 == "ok:true" && s2 == "ok"),
            ("older-snapshot-returned-ok".to_string(), r1 == vec!["ok".to_string()]),
            ("pointer-not-lowered".to_string(), seq_end == seq_mid && name_end == name_mid && seq_mid > 0),
            ("pointer-file-exists".to_string(), snaps.contains(&name_end)),
        ];
        res.push(finish(e, vec![], "D3-older-snapshot-must-not-overwrite-newer-pointer", checks, json!({"seq_mid": seq_mid, "seq_end": seq_end, "snapshot_files": snaps})));
    }

    // D4a: rotation arrives while a snapshot holds manifest_lock (before its load): the writer has
    //      appended to the active segment and must wait; both manifest updates must survive.
    {
        let e = env(base, "d4a", cfg(0, 1, 100), lines);
        do_call(&e.b, &Call::Ins(1, 1, 1));
        gate(&e, 1, "manifest_lock", Mode::Mutex, Phase::Done, 1, Some(51), Some(52));
        gate(&e, 2, "manifest_lock", Mode::Mutex, Phase::Req, 1, Some(61), None);
        gate(&e, 2, "manifest_lock", Mode::Mutex, Phase::Done, 1, Some(62), None);
        let done = Arc::new(AtomicUsize::new(0));
        let h1 = spawn(&e, 1, vec![Call::Snap], done.clone());
        let a = wait_ev(51);
        let h2 = spawn(&e, 2, vec![Call::Ins(2, 2, 2), Call::Upd(1, 5)], done.clone());
        let b2 = wait_ev(61);
        std::thread::sleep(Duration::from_millis(120));
        let early = vt::is_signalled(62);
        vt::signal(52);
        let checks = vec![
            ("snapshot-holds-manifest-lock".to_string(), a),
            ("rotation-requested".to_string(), b2),
            ("rotation-waited".to_string(), !early),
        ];
        res.push(finish(e, vec![h1, h2], "D4a-rotation-during-snapshot-manifest-section", checks, json!({})));
    }
    // D4b: the other way round: the writer is inside rotation's manifest section when the snapshot
    //      arrives at manifest_lock.
    {
        let e = env(base, "d4b", cfg(0, 1, 100), lines);
        do_call(&e.b, &Call::Ins(1, 1, 1));
        gate(&e, 2, "manifest_lock", Mode::Mutex, Phase::Done, 1, Some(71), Some(72));
        gate(&e, 1, "manifest_lock", Mode::Mutex, Phase::Req, 1, Some(81), None);
        gate(&e, 1, "manifest_lock", Mode::Mutex, Phase::Done, 1, Some(82), None);
        let done = Arc::new(AtomicUsize::new(0));
        // the snapshot must capture BEFORE the writer takes snapshot_lock shared: start it first and
        // stop the writer's rotation only after the snapshot has passed its capture
        gate(&e, 1, "snapshot_lock", Mode::Write, Phase::Done, 1, Some(83), None);
        let h1 = spawn(&e, 1, vec![Call::Snap], done.clone());
        let a0 = wait_ev(83);
        let h2 = spawn(&e, 2, vec![Call::Ins(2, 2, 2), Call::Del(1)], done.clone());
        let a = wait_ev(71);
        let b2 = wait_ev(81) || vt::is_signalled(82);
        std::thread::sleep(Duration::from_millis(60));
        vt::signal(72);
        let checks = vec![
            ("snapshot-captured-first".to_string(), a0),
            ("writer-inside-rotation".to_string(), a),
            ("snapshot-reached-manifest-lock".to_string(), b2),
        ];
        res.push(finish(e, vec![h1, h2], "D4b-snapshot-arrives-during-rotation-manifest-section", checks, json!({})));
    }
    // D5: a writer runs completely (append to the active segment, apply) while the snapshot sits
    //     inside its manifest section with an older `last`: the newer entry must survive compaction.
    {
        let e = env(base, "d5", cfg(0, 0, 100), lines);
        do_call(&e.b, &Call::Ins(1, 1, 1));
        gate(&e, 1, "manifest_lock", Mode::Mutex, Phase::Done, 1, Some(91), Some(92));
        let done = Arc::new(AtomicUsize::new(0));
        let h1 = spawn(&e, 1, vec![Call::Snap], done.clone());
        let a = wait_ev(91);
        let w1 = do_call(&e.b, &Call::Ins(2, 2, 2));
        let w2 = do_call(&e.b, &Call::Del(1));
        vt::signal(92);
        let checks = vec![("snapshot-inside-manifest-section".to_string(), a), ("writes-during-manifest-section".to_string(), w1 == "ok" && w2 == "ok:true")];
        res.push(finish(e, vec![h1], "D5-writes-during-snapshot-manifest-section", checks, json!({})));
    }
    let _ = first_seq; // (kept for replays that inspect the event order)
    // D10: tombstone compaction (inside another client's insert on a full index) must be excluded from the whole
    //      of update_metadata, including the look-up of the slot it is going to change: the updater is stopped
    //      where it asks for snapshot_lock (shared); the other client's insert compacts and renumbers the slots;
    //      the updater resumes.  Live collection and recovered collection must agree (the WAL names the
    //      document by its external id; a slot number resolved before the compaction names another document).
    {
        // env() itself leaves one tombstone (its probe document) in slot 0
        let e = env(base, "d10", cfg(0, 1 << 20, 4), lines);
        do_call(&e.b, &Call::Ins(1, 1, 1)); // slot 1
        do_call(&e.b, &Call::Ins(2, 2, 2)); // slot 2
        do_call(&e.b, &Call::Del(1)); // tombstones in slots 0 and 1, document 2 in slot 2
        do_call(&e.b, &Call::Ins(3, 3, 3)); // slot 3: 4 physical slots = capacity, two of them tombstones
        gate(&e, 1, "snapshot_lock", Mode::Read, Phase::Req, 1, Some(61), Some(62));
        let done = Arc::new(AtomicUsize::new(0));
        let h1 = spawn(&e, 1, vec![Call::Upd(2, 9)], done.clone());
        let a = wait_ev(61);
        let w = do_call(&e.b, &Call::Ins(4, 4, 4)); // index full with a tombstone: compacts, renumbers, inserts
        vt::signal(62);
        let checks = vec![
            ("updater-stopped-before-snapshot-lock".to_string(), a),
            ("insert-with-compaction-acknowledged".to_string(), w.starts_with("ok")),
        ];
        res.push(finish(e, vec![h1], "D10-update-metadata-vs-tombstone-compaction-in-another-insert", checks, json!({"insert": w})));
    }

    res
}


/// Probe (not part of the check's verdict): two snapshots with different `last` released at the same
/// instant after their captures.  The model assumes distinct file ids; the code names the file after
/// the microsecond clock.  Reports how often both got the same name and what recovery then says.
fn probe_fileid(base: &Path, lines: &HashMap<u32, String>, n: usize) -> Value {
    use vt::{Mode, Phase};
    let (mut same_name, mut bad) = (0usize, vec![]);
    for i in 0..n {
        let e = env(base, "probe", cfg(0, 1, 100), lines);
        do_call(&e.b, &Call::Ins(1, 1, 1));
        gate(&e, 1, "index", Mode::Read, Phase::Req, 1, Some(111), Some(101));
        gate(&e, 2, "index", Mode::Read, Phase::Req, 1, Some(112), Some(101));
        let done = Arc::new(AtomicUsize::new(0));
        let h1 = spawn(&e, 1, vec![Call::Snap], done.clone());
        wait_ev(111);
        do_call(&e.b, &Call::Ins(2, 2, 2));
        let h2 = spawn(&e, 2, vec![Call::Snap], done.clone());
        wait_ev(112);
        vt::signal(101);
        let _ = h1.join();
        let _ = h2.join();
        vt::disable();
        let evs = vt::drain();
        vt::clear_gates();
        let _ = evs;
        let snaps: Vec<String> = std::fs::read_dir(&e.dir).unwrap().filter_map(|x| x.ok()).map(|x| x.file_name().to_string_lossy().to_string()).filter(|n| n.ends_with(".snap")).collect();
        let Env { b, c, dir, .. } = e;
        let live = eng::census(&b);
        let man = manifest_json(&dir);
        drop(b);
        let rec = recover_copy(&c, &dir);
        let equal = matches!(&rec, Ok(r) if *r == live);
        // warm-up snapshot + two racing ones: 3 files when the older one won the lock race first, 2 when it was stale;
        // fewer than 2 means a name was shared
        if snaps.len() < 2 { same_name += 1; }
        let stop = !equal;
        if !equal {
            bad.push(json!({"trial": i, "snapshots": snaps, "manifest": man, "live": census_tags(&live),
                            "recovered": match &rec { Ok(r) => json!(census_tags(r)), Err(e) => json!({"error": e}) }}));
        }
        let _ = std::fs::remove_dir_all(&dir);
        if stop {
            return json!({"trials": i + 1, "oracle_failures": bad});
        }
    }
    let _ = same_name;
    json!({"trials": n, "oracle_failures": bad})
}

// ---------------------------------------------------------------------------------------------
// (iii) seeded stress
// ---------------------------------------------------------------------------------------------

#[derive(Clone, Debug, serde::Serialize, serde::Deserialize)]
struct StressCase {
    id: usize,
    interval: usize,
    max_wal: u64,
    cap: usize,
    writers: Vec<Vec<String>>, // calls rendered with render()
    snaps: usize,
    delays: Vec<(u32, String, u32, bool, u64)>, // (label, class, nth, phase Req?, ms)
}

fn render(c: &Call) -> String {
    match c {
        Call::Ins(i, v, m) => format!("I {} {} {}", i, v, m),
        Call::Del(i) => format!("D {}", i),
        Call::Upd(i, m) => format!("U {} {}", i, m),
        Call::Batch(ids) => format!("B {}", ids.iter().map(|x| x.to_string()).collect::<Vec<_>>().join(" ")),
        Call::Snap => "S".into(),
    }
}

fn parse(s: &str) -> Call {
    let p: Vec<&str> = s.split_whitespace().collect();
    let n = |i: usize| p.get(i).and_then(|x| x.parse::<u64>().ok()).unwrap_or(0);
    match p.first().copied() {
        Some("I") => Call::Ins(n(1), n(2), n(3)),
        Some("D") => Call::Del(n(1)),
        Some("U") => Call::Upd(n(1), n(2)),
        Some("B") => Call::Batch(p[1..].iter().filter_map(|x| x.parse().ok()).collect()),
        _ => Call::Snap,
    }
}

fn gen_case(id: usize, rng: &mut Rng) -> StressCase {
    let interval = *rng.pick(&[1usize, 2, 3, 3]);
    let max_wal = *rng.pick(&[1u64, 100, 150, 150]);
    let cap = *rng.pick(&[6usize, 7, 9, 12]);
    let nw = rng.range(1, 2) as usize;
    let mut writers = vec![];
    let mut tag = 10;
    for _ in 0..nw {
        let len = rng.range(10, 18);
        let mut ops = vec![];
        for _ in 0..len {
            let id = rng.range(1, 4);
            tag += 1;
            let c = match rng.below(10) {
                0..=4 => Call::Ins(id, tag, tag),
                5 | 6 => Call::Del(id),
                7 | 8 => Call::Upd(id, tag),
                _ => Call::Batch(vec![id, rng.range(1, 4), id]),
            };
            ops.push(render(&c));
        }
        writers.push(ops);
    }
    let snaps = rng.range(2, 6) as usize;
    let mut delays = vec![];
    for _ in 0..rng.range(3, 8) {
        let label = rng.range(1, (nw + 1) as u64) as u32;
        let class = rng.pick(&["snapshot_lock", "write_gate", "wal", "manifest_lock", "index", "doc_store", "inserts_since_snapshot"]).to_string();
        delays.push((label, class, rng.range(1, 12) as u32, rng.chance(1, 2), rng.range(1, 6)));
    }
    StressCase { id, interval, max_wal, cap, writers, snaps, delays }
}

fn run_stress_case(base: &Path, sc: &StressCase, lines: &HashMap<u32, String>) -> Value {
    let e = env(base, &format!("stress_{}", sc.id % 8), cfg(sc.interval, sc.max_wal, sc.cap), lines);
    for (label, class, nth, req, ms) in &sc.delays {
        // a delay = a gate that waits for an event nobody signals, with a short timeout
        vt::add_gate(vt::Gate {
            thread_label: *label,
            lock: vt::LockSel::Instance(*e.inst.get(class.as_str()).unwrap_or(&u64::MAX)),
            mode: None,
            op: None,
            nth: *nth,
            phase: if *req { vt::Phase::Req } else { vt::Phase::Done },
            signal: None,
            wait: Some(9_999),
            timeout_ms: *ms,
        });
    }
    let done = Arc::new(AtomicUsize::new(0));
    let stop = Arc::new(AtomicBool::new(false));
    let mut hs = vec![];
    for (i, ops) in sc.writers.iter().enumerate() {
        hs.push(spawn(&e, (i + 1) as u32, ops.iter().map(|s| parse(s)).collect(), done.clone()));
    }
    let snap_label = (sc.writers.len() + 1) as u32;
    let hsnap = {
        let b = e.b.clone();
        let n = sc.snaps;
        let stop = stop.clone();
        std::thread::spawn(move || {
            vt::set_thread_label(snap_label);
            let mut r = vec![];
            for _ in 0..n {
                if stop.load(Ordering::SeqCst) {
                    break;
                }
                r.push(do_call(&b, &Call::Snap));
                std::thread::yield_now();
            }
            r
        })
    };
    let t0 = Instant::now();
    let mut outs = vec![];
    for h in hs {
        outs.push(h.join().unwrap_or_else(|_| vec!["panic".into()]));
    }
    stop.store(true, Ordering::SeqCst);
    let so = hsnap.join().unwrap_or_else(|_| vec!["panic".into()]);
    let _ = done;
    vt::disable();
    let evs = vt::drain();
    vt::clear_gates();
    // how much real contention happened: snapshot_lock.write() requested while a reader holds it;
    // manifest_lock requested while held
    let snap_inst = *e.inst.get("snapshot_lock").unwrap_or(&0);
    let man_inst = *e.inst.get("manifest_lock").unwrap_or(&0);
    let mut readers = 0i64;
    let mut man_held = false;
    let (mut snap_contended, mut man_contended, mut captures) = (0usize, 0usize, 0usize);
    for ev in &evs {
        if ev.lock == snap_inst {
            match (ev.op, ev.phase, ev.mode) {
                (vt::Op::Acquire, vt::Phase::Done, vt::Mode::Read) => readers += 1,
                (vt::Op::Release, _, vt::Mode::Read) => readers -= 1,
                (vt::Op::Acquire, vt::Phase::Req, vt::Mode::Write) => {
                    captures += 1;
                    if readers > 0 {
                        snap_contended += 1
                    }
                }
                _ => {}
            }
        } else if ev.lock == man_inst {
            match (ev.op, ev.phase) {
                (vt::Op::Acquire, vt::Phase::Req) => {
                    if man_held {
                        man_contended += 1
                    }
                }
                (vt::Op::Acquire, vt::Phase::Done) => man_held = true,
                (vt::Op::Release, _) => man_held = false,
                _ => {}
            }
        }
    }
    let Env { b, c, dir, .. } = e;
    let live = eng::census(&b);
    let man = manifest_json(&dir);
    drop(b);
    let rec = recover_copy(&c, &dir);
    let equal = matches!(&rec, Ok(r) if *r == live);
    let mut hist: BTreeMap<String, usize> = BTreeMap::new();
    for (ops, out) in sc.writers.iter().zip(outs.iter()) {
        for (o, r) in ops.iter().zip(out.iter()) {
            let k = format!("{}:{}", &o[..1], if r.starts_with("err") { r.as_str() } else { r.split(':').next().unwrap_or("ok") });
            *hist.entry(k).or_insert(0) += 1;
        }
    }
    for r in &so {
        *hist.entry(format!("S:{}", if r.starts_with("err") { r.as_str() } else { "ok" })).or_insert(0) += 1;
    }
    let v = json!({
        "id": sc.id, "equal": equal, "live": census_tags(&live),
        "recovered": match &rec { Ok(r) => json!(census_tags(r)), Err(e) => json!({"error": e}) },
        "snapshot_seq": man["latest_snapshot_wal_seq"].as_u64().unwrap_or(0),
        "segments": man["wal_segments"].as_array().map(|a| a.len()).unwrap_or(0),
        "snap_contended": snap_contended, "manifest_contended": man_contended, "captures": captures,
        "hist": hist, "ms": t0.elapsed().as_millis() as u64,
    });
    let _ = std::fs::remove_dir_all(&dir);
    v
}

fn main() {
    let args: Vec<String> = std::env::args().collect();
    let get = |k: &str| args.iter().position(|a| a == k).and_then(|i| args.get(i + 1)).cloned();
    let out = PathBuf::from(get("--out").expect("--out DIR"));
    let n: usize = get("--n").and_then(|s| s.parse().ok()).unwrap_or(20);
    let skip_fixed = args.iter().any(|a| a == "--stress-only");
    std::fs::create_dir_all(&out).unwrap();
    let work = out.join("work");
    let _ = std::fs::remove_dir_all(&work);
    std::fs::create_dir_all(&work).unwrap();
    let lines = creation_lines();
    let mut rng = Rng::from_env();

    // watchdog: a hang is reported by C08, here it must not block the check
    {
        let out = out.clone();
        let budget = 600 + (n as u64) / 2;
        std::thread::spawn(move || {
            std::thread::sleep(Duration::from_secs(budget));
            let _ = std::fs::write(out.join("summary.json"), serde_json::to_vec(&json!({"hang": true})).unwrap());
            std::process::exit(3);
        });
    }

    if let Some(k) = get("--probe-fileid") {
        let v = probe_fileid(&work, &lines, k.parse().unwrap_or(100));
        std::fs::write(out.join("probe.json"), serde_json::to_vec_pretty(&v).unwrap()).unwrap();
        println!("probe: {}", v);
        return;
    }
    if let Some(rp) = get("--replay") {
        let v: Value = serde_json::from_slice(&std::fs::read(&rp).expect("replay file")).expect("json");
        let case = if v.get("case").is_some() { v["case"].clone() } else { v.clone() };
        let sc: StressCase = serde_json::from_value(case).expect("stress case");
        let mut fails = vec![];
        for i in 0..50 {
            let r = run_stress_case(&work, &sc, &lines);
            if !r["equal"].as_bool().unwrap_or(false) {
                fails.push(json!({"attempt": i, "result": r}));
                break;
            }
        }
        let s = json!({"replay": true, "stress": {"runs": 50, "failures": fails}});
        std::fs::write(out.join("summary.json"), serde_json::to_vec_pretty(&s).unwrap()).unwrap();
        println!("replay: {} failures", s["stress"]["failures"].as_array().unwrap().len());
        return;
    }

    let (skel_json, dir_res) = if skip_fixed {
        (json!({"n": 0, "cases": []}), vec![])
    } else {
        let (coq, sj) = run_skeleton(&work, &lines);
        std::fs::write(out.join("cases_0.v"), coq).unwrap();
        (sj, directed(&work, &lines))
    };

    let mut stress = vec![];
    let mut failures = vec![];
    let mut hist: BTreeMap<String, usize> = BTreeMap::new();
    let (mut nontrivial, mut snap_c, mut man_c, mut captures) = (0usize, 0usize, 0usize, 0usize);
    let mut all_cases = vec![];
    for i in 0..n {
        let mut r = rng.fork(i as u64);
        let sc = gen_case(i, &mut r);
        let v = run_stress_case(&work, &sc, &lines);
        if let Some(h) = v["hist"].as_object() {
            for (k, c) in h {
                *hist.entry(k.clone()).or_insert(0) += c.as_u64().unwrap_or(0) as usize;
            }
        }
        let sc_c = v["snap_contended"].as_u64().unwrap_or(0) as usize;
        let mc = v["manifest_contended"].as_u64().unwrap_or(0) as usize;
        snap_c += sc_c;
        man_c += mc;
        captures += v["captures"].as_u64().unwrap_or(0) as usize;
        if v["snapshot_seq"].as_u64().unwrap_or(0) > 0 && (sc_c > 0 || mc > 0) {
            nontrivial += 1;
        }
        if !v["equal"].as_bool().unwrap_or(false) {
            failures.push(json!({"why": "recovered census differs from live census after all calls returned", "case": sc, "result": v}));
        }
        all_cases.push(serde_json::to_value(&sc).unwrap());
        if stress.len() < 3 {
            stress.push(v);
        }
    }
    let summary = json!({
        "skeleton": skel_json,
        "directed": dir_res,
        "stress": {"runs": n, "failures": failures, "nontrivial": nontrivial, "histogram": hist,
                    "snapshot_lock_write_requests": captures, "snapshot_lock_write_requested_while_readers": snap_c,
                    "manifest_lock_requested_while_held": man_c, "samples": stress},
    });
    std::fs::write(out.join("summary.json"), serde_json::to_vec_pretty(&summary).unwrap()).unwrap();
    std::fs::write(out.join("all_cases.json"), serde_json::to_vec(&all_cases).unwrap()).unwrap();
    let _ = std::fs::remove_dir_all(&work);
    println!(
        "c09: skeleton {} cases, directed {} ({} ok), stress {} runs, {} failures",
        summary["skeleton"]["n"],
        summary["directed"].as_array().unwrap().len(),
        summary["directed"].as_array().unwrap().iter().filter(|d| d["ok"].as_bool().unwrap_or(false)).count(),
        n,
        summary["stress"]["failures"].as_array().unwrap().len()
    );
}

#[allow(dead_code)]
fn _unused(_: Meta) {}
