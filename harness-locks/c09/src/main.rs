fn main() { println!("stub"); }
