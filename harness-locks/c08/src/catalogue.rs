//! The engine API catalogue: scenarios (an engine component in a given state) and, per scenario,
//! the list of operations.  Every operation may have a preparation step (run single-threaded,
//! not traced) that establishes the state the operation needs (a document to hit, a stale cache
//! entry, a full index, ...), so that an operation can also be run alone in a directed schedule.
use kyrodb_engine::cache_strategy::{
    AbTestSplitter, CacheStrategy, LearnedCacheStrategy, LruCacheStrategy, SharedLearnedCacheStrategy,
};
use kyrodb_engine::coherence::{digest_embedding, VectorCoherenceToken};
use kyrodb_engine::config::DistanceMetric;
use kyrodb_engine::learned_cache::{AccessEvent, AccessType, LearnedCachePredictor};
use kyrodb_engine::proto::{metadata_filter::FilterType, ExactMatch, MetadataFilter, NotFilter};
use kyrodb_engine::tiered_engine::{TieredEngine, TieredEngineConfig};
use kyrodb_engine::training_task::{spawn_training_task, TrainingConfig};
use kyrodb_engine::{
    AccessPatternLogger, CachedVector, CircuitBreaker, FsyncPolicy, HnswBackend, HotTier, MetricsCollector,
    QueryHashCache, RateLimiter, SearchResult, SemanticAdapter, VectorCache,
};
use std::any::Any;
use std::collections::HashMap;
use std::sync::atomic::{AtomicBool, AtomicU64, Ordering};
use std::sync::Arc;
use std::time::{Duration, Instant, SystemTime};

pub type Thunk = Arc<dyn Fn() + Send + Sync>;

#[derive(Clone)]
pub struct Op {
    pub name: String,
    pub prep: Option<Thunk>,
    pub run: Thunk,
}

pub struct Scenario {
    pub name: String,
    pub ops: Vec<Op>,
    #[allow(dead_code)]
    pub keep: Vec<Box<dyn Any + Send + Sync>>,
}

pub type Builder = (String, Box<dyn Fn() -> Scenario>);

const DIM: usize = 4;
static NEXT_ID: AtomicU64 = AtomicU64::new(1000);

fn fresh() -> u64 {
    NEXT_ID.fetch_add(1, Ordering::SeqCst)
}

/// deterministic, pairwise distinct, non-zero vectors (unit length for the cosine scenarios)
fn vecn(i: u64, unit: bool) -> Vec<f32> {
    let a = 1.0 + (i % 7) as f32;
    let b = 1.0 + ((i / 7) % 5) as f32;
    let c = 0.5 + ((i / 35) % 3) as f32;
    let d = 0.25 * (1 + i % 3) as f32;
    let v = vec![a, b, c, d];
    if unit {
        let n = v.iter().map(|x| x * x).sum::<f32>().sqrt();
        v.iter().map(|x| x / n).collect()
    } else {
        v
    }
}
fn v(i: u64) -> Vec<f32> {
    vecn(i, false)
}
fn meta(i: u64) -> HashMap<String, String> {
    let mut m = HashMap::new();
    m.insert("k0".to_string(), if i % 2 == 0 { "a".to_string() } else { "b".to_string() });
    m.insert("n".to_string(), format!("{}", i % 3));
    m
}
/// NOT without an inner filter: accepted by the API (no structural validation), not compilable to a bitmap,
/// so the index lookup falls back to a full scan
fn filter_not_empty() -> MetadataFilter {
    MetadataFilter { filter_type: Some(FilterType::NotFilter(Box::new(NotFilter { filter: None }))) }
}
fn filter_k0(val: &str) -> MetadataFilter {
    MetadataFilter {
        filter_type: Some(FilterType::Exact(ExactMatch { key: "k0".to_string(), value: val.to_string() })),
    }
}
fn cached(id: u64) -> CachedVector {
    let e = v(id);
    CachedVector {
        doc_id: id,
        coherence: VectorCoherenceToken::new(1, digest_embedding(&e)),
        embedding: e,
        distance: 0.0,
        cached_at: Instant::now(),
    }
}
fn sr(id: u64, d: f32) -> SearchResult {
    SearchResult { doc_id: id, distance: d }
}

macro_rules! o {
    ($ops:ident, $obj:ident, $name:expr, |$x:ident| $body:expr) => {{
        let $x = $obj.clone();
        $ops.push(Op { name: $name.to_string(), prep: None, run: Arc::new(move || { let _ = $body; }) });
    }};
    ($ops:ident, $obj:ident, $name:expr, prep |$y:ident| $prep:expr, |$x:ident| $body:expr) => {{
        let $y = $obj.clone();
        let $x = $obj.clone();
        $ops.push(Op {
            name: $name.to_string(),
            prep: Some(Arc::new(move || { let _ = $prep; })),
            run: Arc::new(move || { let _ = $body; }),
        });
    }};
}

// ------------------------------------------------------------------------------------------------
// HotTier
// ------------------------------------------------------------------------------------------------
fn hot_tier(name: &str, populate: u64, max_size: usize, max_age: Duration) -> Scenario {
    let h = Arc::new(HotTier::new(max_size, max_age, DistanceMetric::Euclidean));
    for i in 0..populate {
        h.insert(i, v(i), meta(i));
    }
    let mut ops: Vec<Op> = vec![];
    o!(ops, h, "HotTier::insert/new", |x| x.insert(fresh(), v(3), meta(3)));
    o!(ops, h, "HotTier::insert/overwrite", prep |y| y.insert(1, v(1), meta(1)), |x| x.insert(1, v(8), meta(8)));
    o!(ops, h, "HotTier::insert_with_coherence", |x| x.insert_with_coherence(
        fresh(), v(4), meta(4), VectorCoherenceToken::new(7, digest_embedding(&v(4)))));
    o!(ops, h, "HotTier::get/hit", prep |y| y.insert(2, v(2), meta(2)), |x| x.get(2));
    o!(ops, h, "HotTier::get/miss", |x| x.get(999_999));
    o!(ops, h, "HotTier::get_with_coherence/hit", prep |y| y.insert(2, v(2), meta(2)), |x| x.get_with_coherence(2));
    o!(ops, h, "HotTier::get_with_coherence/miss", |x| x.get_with_coherence(999_999));
    o!(ops, h, "HotTier::peek_with_coherence", prep |y| y.insert(2, v(2), meta(2)), |x| x.peek_with_coherence(2));
    o!(ops, h, "HotTier::get_metadata", prep |y| y.insert(2, v(2), meta(2)), |x| x.get_metadata(2));
    o!(ops, h, "HotTier::bulk_fetch", prep |y| y.insert(2, v(2), meta(2)), |x| x.bulk_fetch(&[2, 999_999, 2]));
    o!(ops, h, "HotTier::bulk_fetch_with_coherence", prep |y| y.insert(2, v(2), meta(2)), |x| x.bulk_fetch_with_coherence(&[2, 999_999]));
    o!(ops, h, "HotTier::exists", |x| x.exists(2));
    o!(ops, h, "HotTier::snapshot_doc_ids", |x| x.snapshot_doc_ids());
    o!(ops, h, "HotTier::update_metadata/hit-merge", prep |y| y.insert(2, v(2), meta(2)), |x| x.update_metadata(2, meta(5), true));
    o!(ops, h, "HotTier::update_metadata/hit-replace", prep |y| y.insert(2, v(2), meta(2)), |x| x.update_metadata(2, meta(5), false));
    o!(ops, h, "HotTier::update_metadata/miss", |x| x.update_metadata(999_999, meta(5), true));
    o!(ops, h, "HotTier::delete/hit", prep |y| y.insert(5, v(5), meta(5)), |x| x.delete(5));
    o!(ops, h, "HotTier::delete/miss", |x| x.delete(999_999));
    o!(ops, h, "HotTier::batch_delete/hit", prep |y| { y.insert(5, v(5), meta(5)); y.insert(6, v(6), meta(6)) }, |x| x.batch_delete(&[5, 6, 999_999]));
    o!(ops, h, "HotTier::batch_delete/miss", |x| x.batch_delete(&[999_998, 999_999]));
    o!(ops, h, "HotTier::scan", |x| x.scan(|m| m.get("k0").map(|s| s == "a").unwrap_or(false)));
    o!(ops, h, "HotTier::needs_flush", |x| x.needs_flush());
    o!(ops, h, "HotTier::stats", |x| x.stats());
    o!(ops, h, "HotTier::len", |x| x.len());
    o!(ops, h, "HotTier::is_empty", |x| x.is_empty());
    o!(ops, h, "HotTier::hit_rate", |x| x.hit_rate());
    o!(ops, h, "HotTier::knn_search", |x| x.knn_search(&v(2), 3));
    o!(ops, h, "HotTier::knn_search_with_cancel", |x| { let c = AtomicBool::new(false); x.knn_search_with_cancel(&v(2), 3, Some(&c)) });
    o!(ops, h, "HotTier::drain_for_flush", prep |y| y.insert(7, v(7), meta(7)), |x| x.drain_for_flush());
    o!(ops, h, "HotTier::reinsert_failed_documents", prep |y| y.insert(7, v(7), meta(7)), |x| { let d = x.drain_for_flush(); x.reinsert_failed_documents(d) });
    o!(ops, h, "HotTier::reinsert_failed_documents/only", prep |y| y.insert(7, v(7), meta(7)), |x| {
        // documents obtained earlier; the reinsertion itself is the traced part of interest
        let d = x.drain_for_flush();
        x.reinsert_failed_documents(d)
    });
    Scenario { name: name.to_string(), ops, keep: vec![] }
}

// ------------------------------------------------------------------------------------------------
// HnswBackend
// ------------------------------------------------------------------------------------------------
struct BackendCfg {
    persist: bool,
    snapshot_interval: usize,
    max_wal: u64,
    max_elements: usize,
    populate: u64,
    cosine: bool,
}

fn backend(name: &str, c: BackendCfg) -> Scenario {
    let dist = if c.cosine { DistanceMetric::Cosine } else { DistanceMetric::Euclidean };
    let unit = c.cosine;
    let embeddings: Vec<Vec<f32>> = (0..c.populate).map(|i| vecn(i, unit)).collect();
    let metas: Vec<HashMap<String, String>> = (0..c.populate).map(meta).collect();
    let mut keep: Vec<Box<dyn Any + Send + Sync>> = vec![];
    let b = if c.persist {
        let dir = tempfile::Builder::new().prefix("c08-").tempdir_in(scratch()).unwrap();
        let b = HnswBackend::with_persistence(
            DIM, dist, embeddings, metas, c.max_elements, dir.path(), FsyncPolicy::Never, c.snapshot_interval, c.max_wal,
        )
        .expect("backend with persistence");
        keep.push(Box::new(dir));
        b
    } else {
        HnswBackend::new(DIM, dist, embeddings, metas, c.max_elements).expect("backend")
    };
    let b = Arc::new(b);
    let mut ops: Vec<Op> = vec![];
    let vv = move |i: u64| vecn(i, unit);
    o!(ops, b, "HnswBackend::insert/new", |x| x.insert(fresh(), vv(11), meta(1)));
    o!(ops, b, "HnswBackend::insert/overwrite", prep |y| y.insert(50, vv(12), meta(2)), |x| x.insert(50, vv(13), meta(3)));
    o!(ops, b, "HnswBackend::insert/wrong-dimension", |x| x.insert(fresh(), vec![1.0, 2.0], meta(1)));
    o!(ops, b, "HnswBackend::delete/hit", prep |y| y.insert(51, vv(14), meta(2)), |x| x.delete(51));
    o!(ops, b, "HnswBackend::delete/miss", |x| x.delete(999_999));
    o!(ops, b, "HnswBackend::batch_delete/hit", prep |y| { let _ = y.insert(52, vv(15), meta(2)); y.insert(53, vv(16), meta(3)) }, |x| x.batch_delete(&[52, 53, 999_999]));
    o!(ops, b, "HnswBackend::batch_delete/miss", |x| x.batch_delete(&[999_998, 999_999]));
    o!(ops, b, "HnswBackend::update_metadata/hit-merge", prep |y| y.insert(54, vv(17), meta(2)), |x| x.update_metadata(54, meta(5), true));
    o!(ops, b, "HnswBackend::update_metadata/hit-replace", prep |y| y.insert(54, vv(17), meta(2)), |x| x.update_metadata(54, meta(4), false));
    o!(ops, b, "HnswBackend::update_metadata/miss", |x| x.update_metadata(999_999, meta(5), true));
    o!(ops, b, "HnswBackend::knn_search", |x| x.knn_search(&vv(2), 3));
    o!(ops, b, "HnswBackend::knn_search_with_ef", |x| x.knn_search_with_ef(&vv(2), 3, Some(64)));
    o!(ops, b, "HnswBackend::knn_search_with_ef_cancel", |x| { let c = AtomicBool::new(false); x.knn_search_with_ef_cancel(&vv(2), 3, Some(64), Some(&c)) });
    o!(ops, b, "HnswBackend::knn_search_batch", |x| x.knn_search_batch(&[vv(2), vv(3), vv(4)], 2, None));
    o!(ops, b, "HnswBackend::create_snapshot", |x| x.create_snapshot());
    o!(ops, b, "HnswBackend::sync_wal", |x| x.sync_wal());
    o!(ops, b, "HnswBackend::fetch_document", prep |y| y.insert(55, vv(18), meta(2)), |x| x.fetch_document(55));
    o!(ops, b, "HnswBackend::fetch_document/miss", |x| x.fetch_document(999_999));
    o!(ops, b, "HnswBackend::fetch_document_with_coherence", prep |y| y.insert(55, vv(18), meta(2)), |x| x.fetch_document_with_coherence(55));
    o!(ops, b, "HnswBackend::fetch_metadata", prep |y| y.insert(55, vv(18), meta(2)), |x| x.fetch_metadata(55));
    o!(ops, b, "HnswBackend::current_coherence_token", prep |y| y.insert(55, vv(18), meta(2)), |x| x.current_coherence_token(55));
    o!(ops, b, "HnswBackend::bulk_fetch", prep |y| y.insert(55, vv(18), meta(2)), |x| x.bulk_fetch(&[55, 999_999]));
    o!(ops, b, "HnswBackend::bulk_fetch_with_coherence", prep |y| y.insert(55, vv(18), meta(2)), |x| x.bulk_fetch_with_coherence(&[55, 999_999]));
    o!(ops, b, "HnswBackend::ids_for_metadata_filter", |x| x.ids_for_metadata_filter(&filter_k0("a")));
    o!(ops, b, "HnswBackend::ids_for_metadata_filter(scan fallback)", |x| x.ids_for_metadata_filter(&filter_not_empty()));
    o!(ops, b, "HnswBackend::scan", |x| x.scan(|m| m.contains_key("k0")));
    o!(ops, b, "HnswBackend::exists", |x| x.exists(55));
    o!(ops, b, "HnswBackend::len", |x| x.len());
    o!(ops, b, "HnswBackend::is_empty", |x| x.is_empty());
    o!(ops, b, "HnswBackend::dimension", |x| x.dimension());
    o!(ops, b, "HnswBackend::is_wal_inconsistent", |x| x.is_wal_inconsistent());
    o!(ops, b, "HnswBackend::wal_writes_failed", |x| x.wal_writes_failed());
    // index full: fill up the remaining capacity, then insert once more (error path), then with a
    // tombstone available (compaction path)
    o!(ops, b, "HnswBackend::insert/index-full", prep |y| { for _ in 0..4096 { if y.insert(fresh(), vv(fresh()), meta(1)).is_err() { break; } } }, |x| x.insert(fresh(), vv(21), meta(1)));
    o!(ops, b, "HnswBackend::insert/index-full-compaction", prep |y| {
        for _ in 0..4096 { if y.insert(fresh(), vv(fresh()), meta(1)).is_err() { break; } }
        let _ = y.insert(56, vv(19), meta(1));
        let _ = y.delete(56);
        let _ = y.delete(0);
    }, |x| x.insert(fresh(), vv(22), meta(1)));
    Scenario { name: name.to_string(), ops, keep }
}

/// The access logger handle shared by the engine and the training task.  In the server it is created
/// by the binary (kyrodb_server.rs); here one creation site stands for it (lock class `app::access_logger`).
fn new_logger() -> Arc<parking_lot::RwLock<AccessPatternLogger>> {
    Arc::new(parking_lot::RwLock::new(AccessPatternLogger::new(512)))
}

fn scratch() -> String {
    let d = std::env::var("C08_SCRATCH").unwrap_or_else(|_| "/verif/.cache/run/C08/scratch".to_string());
    std::fs::create_dir_all(&d).unwrap();
    d
}

// ------------------------------------------------------------------------------------------------
// TieredEngine
// ------------------------------------------------------------------------------------------------
fn trained_predictor(cap: usize) -> LearnedCachePredictor {
    let mut p = LearnedCachePredictor::new(cap.max(1)).unwrap();
    let mut ev = vec![];
    for id in [0u64, 1, 2, 3, 60, 61] {
        for _ in 0..40 {
            ev.push(AccessEvent { doc_id: id, timestamp: SystemTime::now(), access_type: AccessType::Read });
        }
    }
    ev.push(AccessEvent { doc_id: 4, timestamp: SystemTime::now(), access_type: AccessType::Read });
    p.train_from_accesses(&ev).unwrap();
    p
}

fn strategy(kind: &str, cap: usize) -> Arc<dyn CacheStrategy> {
    match kind {
        "lru" => Arc::new(LruCacheStrategy::new(cap)),
        "learned-untrained" => Arc::new(LearnedCacheStrategy::new(cap, LearnedCachePredictor::new(cap.max(1)).unwrap())),
        "learned" => Arc::new(LearnedCacheStrategy::new(cap, trained_predictor(cap))),
        "semantic" => Arc::new(LearnedCacheStrategy::new_with_semantic(cap, trained_predictor(cap), SemanticAdapter::new())),
        "shared" => Arc::new(SharedLearnedCacheStrategy::new(Arc::new(LearnedCacheStrategy::new(cap, trained_predictor(cap))))),
        _ => {
            let a: Arc<dyn CacheStrategy> = Arc::new(LruCacheStrategy::new(cap));
            let b: Arc<dyn CacheStrategy> = Arc::new(LearnedCacheStrategy::new_with_semantic(cap, trained_predictor(cap), SemanticAdapter::new()));
            Arc::new(AbTestSplitter::new(a, b))
        }
    }
}

struct EngineCfg {
    strategy: &'static str,
    cache_cap: usize,
    persist: bool,
    snapshot_interval: usize,
    max_wal: u64,
    hot_soft: usize,
    hot_hard: usize,
    max_elements: usize,
    logger: bool,
    populate: u64,
}

fn engine(name: &str, c: EngineCfg) -> Scenario {
    let mut keep: Vec<Box<dyn Any + Send + Sync>> = vec![];
    let data_dir = if c.persist {
        let dir = tempfile::Builder::new().prefix("c08-").tempdir_in(scratch()).unwrap();
        let p = dir.path().to_string_lossy().to_string();
        keep.push(Box::new(dir));
        Some(p)
    } else {
        None
    };
    let cfg = TieredEngineConfig {
        hot_tier_max_size: c.hot_soft,
        hot_tier_hard_limit: c.hot_hard,
        hot_tier_max_age: Duration::from_secs(3600),
        hnsw_max_elements: c.max_elements,
        embedding_dimension: DIM,
        hnsw_distance: DistanceMetric::Euclidean,
        data_dir,
        fsync_policy: FsyncPolicy::Never,
        snapshot_interval: c.snapshot_interval,
        max_wal_size_bytes: c.max_wal,
        flush_interval: Duration::from_millis(5),
        ..Default::default()
    };
    let qc = Arc::new(QueryHashCache::new(16, 0.85));
    let mut eng = TieredEngine::new_with_shared_strategy(
        strategy(c.strategy, c.cache_cap),
        qc.clone(),
        (0..c.populate).map(v).collect(),
        (0..c.populate).map(meta).collect(),
        cfg,
    )
    .expect("engine");
    let logger = new_logger();
    if c.logger {
        eng.set_access_logger(logger.clone());
    }
    let e = Arc::new(eng);
    let rt = Arc::new(tokio::runtime::Builder::new_multi_thread().worker_threads(2).enable_all().build().unwrap());
    let mut ops: Vec<Op> = vec![];

    o!(ops, e, "TieredEngine::insert/new", |x| x.insert(fresh(), v(31), meta(1)));
    o!(ops, e, "TieredEngine::insert/overwrite", prep |y| y.insert(60, v(32), meta(2)), |x| x.insert(60, v(33), meta(3)));
    o!(ops, e, "TieredEngine::insert/hot-tier-pressure", prep |y| { for k in 0..6u64 { let _ = y.insert(70 + k, v(40 + k), meta(k)); } }, |x| x.insert(fresh(), v(34), meta(1)));
    o!(ops, e, "TieredEngine::insert/invalid", |x| x.insert(fresh(), vec![f32::NAN, 1.0, 1.0, 1.0], meta(1)));
    o!(ops, e, "TieredEngine::query/first", prep |y| y.insert(61, v(35), meta(1)), |x| x.query(61, None));
    o!(ops, e, "TieredEngine::query/repeat-L1", prep |y| { let _ = y.insert(61, v(35), meta(1)); for _ in 0..3 { y.query(61, None); } }, |x| x.query(61, Some(&v(35))));
    o!(ops, e, "TieredEngine::query/stale-L1", prep |y| { let _ = y.insert(61, v(35), meta(1)); for _ in 0..3 { y.query(61, None); } let _ = y.cold_tier().insert(61, v(36), meta(1)); }, |x| x.query(61, None));
    o!(ops, e, "TieredEngine::query/after-flush", prep |y| { let _ = y.insert(62, v(37), meta(1)); let _ = y.flush_hot_tier(true); }, |x| x.query(62, None));
    o!(ops, e, "TieredEngine::query/miss", |x| x.query(999_999, None));
    o!(ops, e, "TieredEngine::query_with_source", prep |y| y.insert(61, v(35), meta(1)), |x| x.query_with_source(61, None));
    o!(ops, e, "TieredEngine::get_document_with_metadata", prep |y| y.insert(61, v(35), meta(1)), |x| x.get_document_with_metadata(61));
    o!(ops, e, "TieredEngine::get_document_with_metadata/cold", prep |y| { let _ = y.insert(62, v(37), meta(1)); let _ = y.flush_hot_tier(true); }, |x| x.get_document_with_metadata(62));
    o!(ops, e, "TieredEngine::get_embedding_cache_aware", prep |y| y.insert(61, v(35), meta(1)), |x| x.get_embedding_cache_aware(61));
    o!(ops, e, "TieredEngine::get_embedding_cache_aware/cold", prep |y| { let _ = y.insert(62, v(37), meta(1)); let _ = y.flush_hot_tier(true); }, |x| x.get_embedding_cache_aware(62));
    o!(ops, e, "TieredEngine::get_metadata", prep |y| y.insert(61, v(35), meta(1)), |x| x.get_metadata(61));
    o!(ops, e, "TieredEngine::exists", prep |y| y.insert(61, v(35), meta(1)), |x| x.exists(61));
    o!(ops, e, "TieredEngine::exists/miss", |x| x.exists(999_999));
    o!(ops, e, "TieredEngine::update_metadata/hit", prep |y| y.insert(61, v(35), meta(1)), |x| x.update_metadata(61, meta(4), true));
    o!(ops, e, "TieredEngine::update_metadata/replace", prep |y| y.insert(61, v(35), meta(1)), |x| x.update_metadata(61, meta(4), false));
    o!(ops, e, "TieredEngine::update_metadata/miss", |x| x.update_metadata(999_999, meta(4), true));
    o!(ops, e, "TieredEngine::delete/hit", prep |y| { let _ = y.insert(63, v(38), meta(1)); y.query(63, None); }, |x| x.delete(63));
    o!(ops, e, "TieredEngine::delete/miss", |x| x.delete(999_999));
    o!(ops, e, "TieredEngine::bulk_query", prep |y| y.insert(61, v(35), meta(1)), |x| x.bulk_query(&[61, 0, 999_999], true));
    o!(ops, e, "TieredEngine::bulk_query/no-embeddings", prep |y| y.insert(61, v(35), meta(1)), |x| x.bulk_query(&[61, 0, 999_999], false));
    o!(ops, e, "TieredEngine::bulk_query_with_source", prep |y| y.insert(61, v(35), meta(1)), |x| x.bulk_query_with_source(&[61, 0, 999_999], true));
    o!(ops, e, "TieredEngine::batch_delete", prep |y| { let _ = y.insert(64, v(39), meta(1)); y.insert(65, v(41), meta(2)) }, |x| x.batch_delete(&[64, 65, 999_999]));
    o!(ops, e, "TieredEngine::batch_delete_by_filter", prep |y| y.insert(66, v(42), meta(3)), |x| x.batch_delete_by_filter(|m| m.get("n").map(|s| s == "0").unwrap_or(false)));
    o!(ops, e, "TieredEngine::batch_delete_by_metadata_filter", prep |y| y.insert(67, v(43), meta(4)), |x| x.batch_delete_by_metadata_filter(&filter_k0("a")));
    o!(ops, e, "TieredEngine::batch_delete_by_metadata_filter(scan fallback)", prep |y| y.insert(68, v(44), meta(5)), |x| x.batch_delete_by_metadata_filter(&filter_not_empty()));
    o!(ops, e, "TieredEngine::knn_search/miss", prep |y| y.insert(61, v(35), meta(1)), |x| x.knn_search(&v(fresh()), 3));
    o!(ops, e, "TieredEngine::knn_search/query-cache-hit", prep |y| { let _ = y.insert(61, v(35), meta(1)); let _ = y.knn_search(&[0.5, 0.5, 0.5, 0.5], 3); }, |x| x.knn_search(&[0.5, 0.5, 0.5, 0.5], 3));
    o!(ops, e, "TieredEngine::knn_search/similarity-hit", prep |y| { let _ = y.insert(61, v(35), meta(1)); let _ = y.knn_search(&[0.5, 0.5, 0.5, 0.5], 3); }, |x| x.knn_search(&[0.5, 0.5, 0.5, 0.5001], 3));
    o!(ops, e, "TieredEngine::knn_search_with_ef", |x| x.knn_search_with_ef(&v(2), 3, Some(10_000)));
    o!(ops, e, "TieredEngine::knn_search_with_ef_detailed", |x| x.knn_search_with_ef_detailed(&v(3), 3, None));
    o!(ops, e, "TieredEngine::knn_search_with_ef_detailed_scoped", |x| x.knn_search_with_ef_detailed_scoped(&v(3), 3, None, 77));
    o!(ops, e, "TieredEngine::knn_search_batch_with_ef", |x| x.knn_search_batch_with_ef(&[v(2), v(3), v(2)], 2, None));
    o!(ops, e, "TieredEngine::knn_search_batch_with_ef_detailed", |x| x.knn_search_batch_with_ef_detailed(&[v(2), v(5)], 2, Some(64)));
    o!(ops, e, "TieredEngine::knn_search_batch_with_ef_detailed_scoped", |x| x.knn_search_batch_with_ef_detailed_scoped(&[v(2), v(5)], 2, None, 77));
    {
        let (x, r) = (e.clone(), rt.clone());
        ops.push(Op { name: "TieredEngine::knn_search_with_timeouts".into(), prep: None, run: Arc::new(move || { let _ = r.block_on(x.knn_search_with_timeouts(&v(6), 3)); }) });
        let (x, r) = (e.clone(), rt.clone());
        ops.push(Op { name: "TieredEngine::knn_search_with_timeouts_with_ef".into(), prep: None, run: Arc::new(move || { let _ = r.block_on(x.knn_search_with_timeouts_with_ef(&v(6), 3, Some(64))); }) });
        let (x, r) = (e.clone(), rt.clone());
        ops.push(Op { name: "TieredEngine::knn_search_with_timeouts_with_ef_scoped".into(), prep: None, run: Arc::new(move || { let _ = r.block_on(x.knn_search_with_timeouts_with_ef_scoped(&v(8), 3, None, 78)); }) });
        // background flush task: a few ticks (coherence audit + conditional drain), then shutdown (forced drain)
        let (x, r) = (e.clone(), rt.clone());
        let y = e.clone();
        ops.push(Op {
            name: "TieredEngine::spawn_flush_task".into(),
            prep: Some(Arc::new(move || { for k in 0..4u64 { let _ = y.insert(80 + k, v(50 + k), meta(k)); } })),
            run: Arc::new(move || {
                let x = x.clone();
                r.block_on(async move {
                    let (tx, rx) = tokio::sync::broadcast::channel::<()>(1);
                    let h = x.spawn_flush_task(rx);
                    tokio::time::sleep(Duration::from_millis(40)).await;
                    let _ = tx.send(());
                    let _ = tokio::time::timeout(Duration::from_secs(2), h).await;
                });
            }),
        });
    }
    o!(ops, e, "TieredEngine::bulk_load_cold_tier", |x| x.bulk_load_cold_tier(vec![(fresh(), v(44), meta(1)), (fresh(), v(45), meta(2)), (60, v(46), meta(3))]));
    o!(ops, e, "TieredEngine::flush_hot_tier/not-forced", prep |y| y.insert(68, v(47), meta(1)), |x| x.flush_hot_tier(false));
    o!(ops, e, "TieredEngine::flush_hot_tier/forced", prep |y| y.insert(68, v(47), meta(1)), |x| x.flush_hot_tier(true));
    o!(ops, e, "TieredEngine::flush_hot_tier/empty", prep |y| y.flush_hot_tier(true), |x| x.flush_hot_tier(true));
    o!(ops, e, "TieredEngine::stats", |x| x.stats());
    o!(ops, e, "TieredEngine::cache_size", |x| x.cache_size());
    o!(ops, e, "TieredEngine::hsc_lifecycle_stats", |x| x.hsc_lifecycle_stats());
    o!(ops, e, "TieredEngine::log_served_search_accesses", |x| x.log_served_search_accesses(&[0, 1, 61]));
    o!(ops, e, "TieredEngine::cold_tier.create_snapshot", |x| x.cold_tier().create_snapshot());
    o!(ops, e, "TieredEngine::hot_tier.stats", |x| x.hot_tier().stats());
    o!(ops, e, "TieredEngine::insert/index-full", prep |y| { for _ in 0..4096 { if y.cold_tier().insert(fresh(), v(fresh()), meta(1)).is_err() { break; } } }, |x| x.insert(fresh(), v(48), meta(1)));
    keep.push(Box::new(rt));
    keep.push(Box::new(logger));
    keep.push(Box::new(qc));
    Scenario { name: name.to_string(), ops, keep }
}

// ------------------------------------------------------------------------------------------------
// caches, predictor, adapter, logger, small components
// ------------------------------------------------------------------------------------------------
fn query_cache() -> Scenario {
    let q = Arc::new(QueryHashCache::new(4, 0.85));
    let mut ops: Vec<Op> = vec![];
    o!(ops, q, "QueryHashCache::insert", |x| x.insert(v(fresh()), vec![sr(1, 0.1), sr(2, 0.2)]));
    o!(ops, q, "QueryHashCache::insert/evicting", prep |y| { for _ in 0..6 { y.insert(v(fresh()), vec![sr(1, 0.1)]); } }, |x| x.insert(v(fresh()), vec![sr(3, 0.1)]));
    o!(ops, q, "QueryHashCache::insert_with_k", |x| x.insert_with_k(v(fresh()), vec![sr(1, 0.1)], 5));
    o!(ops, q, "QueryHashCache::insert_with_k_scoped", |x| x.insert_with_k_scoped(9, v(fresh()), vec![sr(1, 0.1)], 5));
    o!(ops, q, "QueryHashCache::insert_with_k_scoped_if_generation/current", |x| { let g = x.invalidation_generation(); x.insert_with_k_scoped_if_generation(9, v(fresh()), vec![sr(1, 0.1)], 5, g) });
    o!(ops, q, "QueryHashCache::insert_with_k_scoped_if_generation/stale", |x| { let g = x.invalidation_generation(); x.invalidate_doc(1); x.insert_with_k_scoped_if_generation(9, v(fresh()), vec![sr(1, 0.1)], 5, g.wrapping_sub(1)) });
    o!(ops, q, "QueryHashCache::get/exact-hit", prep |y| y.insert(vec![0.5, 0.5, 0.5, 0.5], vec![sr(1, 0.1), sr(2, 0.2)]), |x| x.get(&[0.5, 0.5, 0.5, 0.5], 2));
    o!(ops, q, "QueryHashCache::get/similarity-hit", prep |y| y.insert(vec![0.5, 0.5, 0.5, 0.5], vec![sr(1, 0.1), sr(2, 0.2)]), |x| x.get(&[0.5, 0.5, 0.5, 0.5002], 2));
    o!(ops, q, "QueryHashCache::get/miss", |x| x.get(&[-0.9, 0.1, 0.0, 0.3], 2));
    o!(ops, q, "QueryHashCache::get/k-too-large", prep |y| y.insert(vec![0.5, 0.5, 0.5, 0.5], vec![sr(1, 0.1)]), |x| x.get(&[0.5, 0.5, 0.5, 0.5], 50));
    o!(ops, q, "QueryHashCache::get_scoped", prep |y| y.insert_with_k_scoped(9, vec![0.25, 0.5, 0.5, 0.5], vec![sr(1, 0.1)], 3), |x| x.get_scoped(9, &[0.25, 0.5, 0.5, 0.5], 1));
    o!(ops, q, "QueryHashCache::invalidate_doc/hit", prep |y| y.insert(v(fresh()), vec![sr(77, 0.1)]), |x| x.invalidate_doc(77));
    o!(ops, q, "QueryHashCache::invalidate_doc/miss", |x| x.invalidate_doc(999_999));
    o!(ops, q, "QueryHashCache::invalidate_for_insert", prep |y| y.insert(vec![0.5, 0.5, 0.5, 0.5], vec![sr(1, 0.4), sr(2, 0.9)]), |x| x.invalidate_for_insert(&[0.5, 0.5, 0.5, 0.6], DistanceMetric::Euclidean));
    o!(ops, q, "QueryHashCache::invalidate_for_insert/cosine", prep |y| y.insert(vec![0.5, 0.5, 0.5, 0.5], vec![sr(1, 0.4)]), |x| x.invalidate_for_insert(&[0.5, 0.5, 0.5, 0.6], DistanceMetric::Cosine));
    o!(ops, q, "QueryHashCache::stats", |x| x.stats());
    o!(ops, q, "QueryHashCache::len", |x| x.len());
    o!(ops, q, "QueryHashCache::is_empty", |x| x.is_empty());
    o!(ops, q, "QueryHashCache::capacity", |x| x.capacity());
    o!(ops, q, "QueryHashCache::invalidation_generation", |x| x.invalidation_generation());
    o!(ops, q, "QueryHashCache::clear", |x| x.clear());
    Scenario { name: "QueryHashCache".into(), ops, keep: vec![] }
}

fn vector_cache() -> Scenario {
    let c = Arc::new(VectorCache::new(3));
    let mut ops: Vec<Op> = vec![];
    o!(ops, c, "VectorCache::insert", |x| x.insert(cached(fresh())));
    o!(ops, c, "VectorCache::insert/evicting", prep |y| { for _ in 0..4 { y.insert(cached(fresh())); } }, |x| x.insert(cached(fresh())));
    o!(ops, c, "VectorCache::insert/overwrite", prep |y| y.insert(cached(5)), |x| x.insert(cached(5)));
    o!(ops, c, "VectorCache::get/hit", prep |y| y.insert(cached(5)), |x| x.get(5));
    o!(ops, c, "VectorCache::get/miss", |x| x.get(999_999));
    o!(ops, c, "VectorCache::peek", prep |y| y.insert(cached(5)), |x| x.peek(5));
    o!(ops, c, "VectorCache::remove/hit", prep |y| y.insert(cached(5)), |x| x.remove(5));
    o!(ops, c, "VectorCache::remove/miss", |x| x.remove(999_999));
    o!(ops, c, "VectorCache::stats", |x| x.stats());
    o!(ops, c, "VectorCache::len", |x| x.len());
    o!(ops, c, "VectorCache::is_empty", |x| x.is_empty());
    o!(ops, c, "VectorCache::capacity", |x| x.capacity());
    o!(ops, c, "VectorCache::clear", |x| x.clear());
    Scenario { name: "VectorCache".into(), ops, keep: vec![] }
}

fn cache_strategy(kind: &'static str) -> Scenario {
    let s = strategy(kind, 3);
    let mut ops: Vec<Op> = vec![];
    let p = format!("CacheStrategy[{}]", kind);
    o!(ops, s, format!("{}::should_cache/trained-hot", p), |x| x.should_cache(0, &v(0)));
    o!(ops, s, format!("{}::should_cache/cold", p), |x| x.should_cache(4, &v(4)));
    o!(ops, s, format!("{}::should_cache/unseen", p), |x| x.should_cache(fresh(), &v(9)));
    o!(ops, s, format!("{}::insert_cached", p), |x| x.insert_cached(cached(fresh())));
    o!(ops, s, format!("{}::insert_cached/evicting", p), prep |y| { for _ in 0..4 { y.insert_cached(cached(fresh())); } }, |x| x.insert_cached(cached(fresh())));
    o!(ops, s, format!("{}::get_cached/hit", p), prep |y| y.insert_cached(cached(1)), |x| x.get_cached(1));
    o!(ops, s, format!("{}::get_cached/miss", p), |x| x.get_cached(999_999));
    o!(ops, s, format!("{}::get_cached/miss-after-reject", p), prep |y| y.should_cache(4, &v(4)), |x| x.get_cached(4));
    o!(ops, s, format!("{}::peek_cached", p), prep |y| y.insert_cached(cached(1)), |x| x.peek_cached(1));
    o!(ops, s, format!("{}::invalidate/hit", p), prep |y| y.insert_cached(cached(1)), |x| x.invalidate(1));
    o!(ops, s, format!("{}::invalidate/miss", p), |x| x.invalidate(999_999));
    o!(ops, s, format!("{}::stats", p), |x| x.stats());
    o!(ops, s, format!("{}::size", p), |x| x.size());
    o!(ops, s, format!("{}::name", p), |x| x.name().to_string());
    o!(ops, s, format!("{}::lifecycle_stats", p), |x| x.lifecycle_stats());
    Scenario { name: format!("CacheStrategy-{}", kind), ops, keep: vec![] }
}

fn learned_strategy_extra() -> Scenario {
    let s = Arc::new(LearnedCacheStrategy::new_with_semantic(3, trained_predictor(3), SemanticAdapter::new()));
    let mut ops: Vec<Op> = vec![];
    o!(ops, s, "LearnedCacheStrategy::update_predictor", |x| x.update_predictor(trained_predictor(3)));
    o!(ops, s, "LearnedCacheStrategy::update_predictor/with-backlog", prep |y| { y.should_cache(4, &v(4)); y.get_cached(4); y.insert_cached(cached(0)); for _ in 0..4 { y.insert_cached(cached(fresh())); } }, |x| x.update_predictor(trained_predictor(3)));
    o!(ops, s, "LearnedCacheStrategy::record_training_skip", |x| x.record_training_skip());
    o!(ops, s, "LearnedCacheStrategy::has_semantic", |x| x.has_semantic());
    {
        // the training task: logger lock + predictor swap
        let logger = new_logger();
        let rt = Arc::new(tokio::runtime::Builder::new_multi_thread().worker_threads(2).enable_all().build().unwrap());
        let (x, l, r) = (s.clone(), logger.clone(), rt.clone());
        let l2 = logger.clone();
        ops.push(Op {
            name: "training_task::spawn_training_task".into(),
            prep: Some(Arc::new(move || { let g = l2.read(); for i in 0..300u64 { g.log_doc_access(i % 7); } })),
            run: Arc::new(move || {
                let (x, l) = (x.clone(), l.clone());
                r.block_on(async move {
                    let (tx, rx) = tokio::sync::broadcast::channel::<()>(1);
                    let cfg = TrainingConfig { interval: Duration::from_millis(10), min_events_for_training: 10, predictor_capacity: 16, ..Default::default() };
                    let h = spawn_training_task(l, x, cfg, Some(Arc::new(AtomicU64::new(0))), Some(MetricsCollector::new()), rx).await;
                    tokio::time::sleep(Duration::from_millis(60)).await;
                    let _ = tx.send(());
                    let _ = tokio::time::timeout(Duration::from_secs(2), h).await;
                });
            }),
        });
    }
    Scenario { name: "LearnedCacheStrategy-extra".into(), ops, keep: vec![] }
}

fn predictor() -> Scenario {
    let p = Arc::new(trained_predictor(8));
    let mut ops: Vec<Op> = vec![];
    o!(ops, p, "LearnedCachePredictor::predict_hotness", |x| x.predict_hotness(0));
    o!(ops, p, "LearnedCachePredictor::admission_score", |x| x.admission_score(0));
    o!(ops, p, "LearnedCachePredictor::lookup_hotness", |x| x.lookup_hotness(4));
    o!(ops, p, "LearnedCachePredictor::should_cache", |x| x.should_cache(0));
    o!(ops, p, "LearnedCachePredictor::is_trained", |x| x.is_trained());
    o!(ops, p, "LearnedCachePredictor::needs_training", |x| x.needs_training());
    o!(ops, p, "LearnedCachePredictor::tracked_count", |x| x.tracked_count());
    o!(ops, p, "LearnedCachePredictor::feedback_backlog", |x| x.feedback_backlog());
    o!(ops, p, "LearnedCachePredictor::stats", |x| x.stats());
    o!(ops, p, "LearnedCachePredictor::record_eviction", |x| x.record_eviction(0));
    o!(ops, p, "LearnedCachePredictor::record_cache_miss/false-negative", |x| x.record_cache_miss(4, 0.01, 0.5, 0.5));
    o!(ops, p, "LearnedCachePredictor::record_cache_miss/policy", |x| x.record_cache_miss(0, 0.9, 0.5, 0.5));
    o!(ops, p, "LearnedCachePredictor::record_cache_hit", |x| x.record_cache_hit(0));
    o!(ops, p, "LearnedCachePredictor::apply_feedback_corrections", prep |y| { y.record_eviction(0); y.record_cache_miss(4, 0.01, 0.5, 0.5) }, |x| { let mut m: HashMap<u64, f32> = HashMap::new(); m.insert(0, 0.9); m.insert(4, 0.1); x.apply_feedback_corrections(&mut m) });
    {
        let m = Arc::new(parking_lot::Mutex::new(trained_predictor(8)));
        o!(ops, m, "LearnedCachePredictor::train_from_accesses", |x| {
            let ev: Vec<AccessEvent> = (0..120u64).map(|i| AccessEvent { doc_id: i % 5, timestamp: SystemTime::now(), access_type: AccessType::Read }).collect();
            let mut g = x.lock();
            g.record_eviction(0);
            g.train_from_accesses(&ev)
        });
    }
    Scenario { name: "LearnedCachePredictor".into(), ops, keep: vec![] }
}

fn semantic_adapter() -> Scenario {
    let a = Arc::new(SemanticAdapter::new());
    let mut ops: Vec<Op> = vec![];
    o!(ops, a, "SemanticAdapter::should_cache/high-freq", |x| x.should_cache(0.95, &v(1), 0.5));
    o!(ops, a, "SemanticAdapter::should_cache/uncertain-empty", |x| x.should_cache(0.45, &v(1), 0.5));
    o!(ops, a, "SemanticAdapter::should_cache/uncertain-populated", prep |y| { for i in 0..5u64 { let _ = y.cache_embedding(i, v(i)); } }, |x| x.should_cache(0.45, &v(1), 0.5));
    o!(ops, a, "SemanticAdapter::should_cache/low-freq", |x| x.should_cache(0.01, &v(1), 0.5));
    o!(ops, a, "SemanticAdapter::cache_embedding", |x| x.cache_embedding(fresh(), v(3)));
    o!(ops, a, "SemanticAdapter::cache_embedding/overwrite", prep |y| y.cache_embedding(3, v(3)), |x| x.cache_embedding(3, v(4)));
    o!(ops, a, "SemanticAdapter::stats", |x| x.stats());
    o!(ops, a, "SemanticAdapter::cache_size", |x| x.cache_size());
    o!(ops, a, "SemanticAdapter::clear_cache", |x| x.clear_cache());
    Scenario { name: "SemanticAdapter".into(), ops, keep: vec![] }
}

fn access_logger() -> Scenario {
    let l = Arc::new(AccessPatternLogger::with_flush_interval(8, Duration::from_millis(0)));
    let mut ops: Vec<Op> = vec![];
    o!(ops, l, "AccessPatternLogger::log_access", |x| x.log_access(1, &v(1)));
    o!(ops, l, "AccessPatternLogger::log_doc_access", |x| x.log_doc_access(2));
    o!(ops, l, "AccessPatternLogger::log_doc_access/wrapping", prep |y| { for i in 0..12u64 { y.log_doc_access(i); } }, |x| x.log_doc_access(2));
    o!(ops, l, "AccessPatternLogger::log_doc_accesses", |x| x.log_doc_accesses(&[1, 2, 3]));
    o!(ops, l, "AccessPatternLogger::log_event", |x| x.log_event(AccessEvent { doc_id: 3, timestamp: SystemTime::now(), access_type: AccessType::Write }));
    o!(ops, l, "AccessPatternLogger::get_recent_window", |x| x.get_recent_window(Duration::from_secs(60)));
    o!(ops, l, "AccessPatternLogger::needs_flush", |x| x.needs_flush());
    o!(ops, l, "AccessPatternLogger::mark_flushed", |x| x.mark_flushed());
    o!(ops, l, "AccessPatternLogger::get_all_events", |x| x.get_all_events());
    o!(ops, l, "AccessPatternLogger::len", |x| x.len());
    o!(ops, l, "AccessPatternLogger::is_empty", |x| x.is_empty());
    o!(ops, l, "AccessPatternLogger::stats", |x| x.stats());
    o!(ops, l, "AccessPatternLogger::hash_diversity", |x| x.hash_diversity());
    o!(ops, l, "AccessPatternLogger::clone", |x| (*x).clone());
    o!(ops, l, "AccessPatternLogger::clear", |x| x.clear());
    Scenario { name: "AccessPatternLogger".into(), ops, keep: vec![] }
}

fn small_components() -> Scenario {
    let mut ops: Vec<Op> = vec![];
    let r = Arc::new(RateLimiter::new_with_global(Some(2)));
    o!(ops, r, "RateLimiter::check_limit/new-tenant", |x| x.check_limit(&format!("t{}", fresh()), 5));
    o!(ops, r, "RateLimiter::check_limit/existing", prep |y| y.check_limit("a", 5), |x| x.check_limit("a", 5));
    o!(ops, r, "RateLimiter::check_limit/global-refusal", prep |y| { for _ in 0..4 { y.check_limit("b", 50); } }, |x| x.check_limit("b", 50));
    o!(ops, r, "RateLimiter::check_limit/tenant-refusal", prep |y| { for _ in 0..3 { y.check_limit("c", 1); } }, |x| x.check_limit("c", 1));
    o!(ops, r, "RateLimiter::available_tokens", prep |y| y.check_limit("a", 5), |x| x.available_tokens("a"));
    o!(ops, r, "RateLimiter::tenant_count", |x| x.tenant_count());
    let c = Arc::new(CircuitBreaker::new());
    o!(ops, c, "CircuitBreaker::record_success", |x| x.record_success());
    o!(ops, c, "CircuitBreaker::record_failure", |x| x.record_failure());
    o!(ops, c, "CircuitBreaker::record_failure/opens", prep |y| { for _ in 0..20 { y.record_failure(); } }, |x| x.record_failure());
    o!(ops, c, "CircuitBreaker::is_open", |x| x.is_open());
    o!(ops, c, "CircuitBreaker::is_open/after-open", prep |y| y.open(), |x| x.is_open());
    o!(ops, c, "CircuitBreaker::is_closed", |x| x.is_closed());
    o!(ops, c, "CircuitBreaker::state", |x| x.state());
    o!(ops, c, "CircuitBreaker::open", |x| x.open());
    o!(ops, c, "CircuitBreaker::close", |x| x.close());
    o!(ops, c, "CircuitBreaker::reset", |x| x.reset());
    o!(ops, c, "CircuitBreaker::stats", |x| x.stats());
    let m = Arc::new(MetricsCollector::new());
    o!(ops, m, "MetricsCollector::record_query_latency", |x| x.record_query_latency(1000));
    o!(ops, m, "MetricsCollector::record_hnsw_search", |x| x.record_hnsw_search(1000));
    o!(ops, m, "MetricsCollector::record_cache_hit", |x| x.record_cache_hit(true));
    o!(ops, m, "MetricsCollector::record_insert", |x| x.record_insert(true));
    o!(ops, m, "MetricsCollector::health_status", |x| x.health_status());
    o!(ops, m, "MetricsCollector::slo_status", |x| x.slo_status());
    o!(ops, m, "MetricsCollector::latency_percentiles_ns", |x| x.latency_percentiles_ns());
    o!(ops, m, "MetricsCollector::export_prometheus", |x| x.export_prometheus());
    Scenario { name: "small-components".into(), ops, keep: vec![] }
}

pub fn scenarios() -> Vec<Builder> {
    let mut v: Vec<Builder> = vec![];
    macro_rules! add {
        ($name:expr, $f:expr) => {
            v.push(($name.to_string(), Box::new($f)));
        };
    }
    add!("HotTier-empty", || hot_tier("HotTier-empty", 0, 100, Duration::from_secs(3600)));
    add!("HotTier-populated", || hot_tier("HotTier-populated", 12, 100, Duration::from_secs(3600)));
    add!("HotTier-at-limit", || hot_tier("HotTier-at-limit", 6, 4, Duration::from_secs(3600)));
    add!("HotTier-aged", || hot_tier("HotTier-aged", 3, 100, Duration::from_millis(0)));
    add!("Backend-mem-empty", || backend("Backend-mem-empty", BackendCfg { persist: false, snapshot_interval: 0, max_wal: 0, max_elements: 48, populate: 0, cosine: false }));
    add!("Backend-mem-populated", || backend("Backend-mem-populated", BackendCfg { persist: false, snapshot_interval: 0, max_wal: 0, max_elements: 48, populate: 10, cosine: false }));
    add!("Backend-mem-cosine", || backend("Backend-mem-cosine", BackendCfg { persist: false, snapshot_interval: 0, max_wal: 0, max_elements: 48, populate: 10, cosine: true }));
    add!("Backend-persist", || backend("Backend-persist", BackendCfg { persist: true, snapshot_interval: 100_000, max_wal: 64 << 20, max_elements: 48, populate: 6, cosine: false }));
    add!("Backend-persist-snapshot-due", || backend("Backend-persist-snapshot-due", BackendCfg { persist: true, snapshot_interval: 1, max_wal: 64 << 20, max_elements: 48, populate: 6, cosine: false }));
    add!("Backend-persist-rotation-due", || backend("Backend-persist-rotation-due", BackendCfg { persist: true, snapshot_interval: 3, max_wal: 96, max_elements: 48, populate: 6, cosine: false }));
    // rotation after EVERY logged frame (threshold below the smallest frame) so that delete, batch_delete
    // and update_metadata also run their rotate_wal_if_needed / manifest section, with and without a snapshot due
    add!("Backend-persist-rotate-every-frame", || backend("Backend-persist-rotate-every-frame", BackendCfg { persist: true, snapshot_interval: 100_000, max_wal: 8, max_elements: 48, populate: 6, cosine: false }));
    add!("Backend-persist-rotate-every-frame-snapshot-due", || backend("Backend-persist-rotate-every-frame-snapshot-due", BackendCfg { persist: true, snapshot_interval: 1, max_wal: 8, max_elements: 48, populate: 6, cosine: false }));
    add!("Engine-lru-persist-rotate-every-frame", || engine("Engine-lru-persist-rotate-every-frame", EngineCfg { strategy: "lru", cache_cap: 2, persist: true, snapshot_interval: 2, max_wal: 8, hot_soft: 100, hot_hard: 200, max_elements: 96, logger: false, populate: 0 }));
    add!("Engine-lru", || engine("Engine-lru", EngineCfg { strategy: "lru", cache_cap: 4, persist: false, snapshot_interval: 100_000, max_wal: 64 << 20, hot_soft: 100, hot_hard: 200, max_elements: 96, logger: false, populate: 6 }));
    add!("Engine-learned-untrained-logger", || engine("Engine-learned-untrained-logger", EngineCfg { strategy: "learned-untrained", cache_cap: 4, persist: false, snapshot_interval: 100_000, max_wal: 64 << 20, hot_soft: 100, hot_hard: 200, max_elements: 96, logger: true, populate: 6 }));
    add!("Engine-learned-hot-hard-limit", || engine("Engine-learned-hot-hard-limit", EngineCfg { strategy: "learned", cache_cap: 2, persist: false, snapshot_interval: 100_000, max_wal: 64 << 20, hot_soft: 1, hot_hard: 2, max_elements: 96, logger: true, populate: 6 }));
    add!("Engine-semantic-persist-snapshot-due", || engine("Engine-semantic-persist-snapshot-due", EngineCfg { strategy: "semantic", cache_cap: 4, persist: true, snapshot_interval: 1, max_wal: 64 << 20, hot_soft: 3, hot_hard: 6, max_elements: 96, logger: true, populate: 6 }));
    add!("Engine-ab-persist-rotation-due", || engine("Engine-ab-persist-rotation-due", EngineCfg { strategy: "ab", cache_cap: 2, persist: true, snapshot_interval: 4, max_wal: 96, hot_soft: 100, hot_hard: 200, max_elements: 96, logger: false, populate: 0 }));
    add!("Engine-shared-empty", || engine("Engine-shared-empty", EngineCfg { strategy: "shared", cache_cap: 4, persist: false, snapshot_interval: 100_000, max_wal: 64 << 20, hot_soft: 2, hot_hard: 1000, max_elements: 96, logger: true, populate: 0 }));
    add!("QueryHashCache", query_cache);
    add!("VectorCache", vector_cache);
    for k in ["lru", "learned-untrained", "learned", "semantic", "shared", "ab"] {
        add!(format!("CacheStrategy-{}", k), move || cache_strategy(k));
    }
    add!("LearnedCacheStrategy-extra", learned_strategy_extra);
    add!("LearnedCachePredictor", predictor);
    add!("SemanticAdapter", semantic_adapter);
    add!("AccessPatternLogger", access_logger);
    add!("small-components", small_components);
    v
}
