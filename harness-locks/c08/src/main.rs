//! C08 driver: lock programs of the whole engine API catalogue, and directed schedules.
//!
//!   c08 trace    --out DIR            run every operation of every scenario alone, with the
//!                                     parking_lot recorder on; write DIR/traces.json
//!   c08 directed --plan FILE --out F  run 2..3 operations of one scenario concurrently under a gate
//!                                     plan with a watchdog; write the verdict to F (always exits,
//!                                     hung threads are abandoned with process::exit)
//!   c08 list                          print scenario/operation names
//!
//! Built in /verif/harness-locks against the recording copies of parking_lot and lock_api
//! (harness/vendor); see src/verif_trace.rs there.
mod catalogue;

use catalogue::{scenarios, Op, Scenario};
use parking_lot::verif_trace as vt;
use serde_json::{json, Value};
use std::sync::atomic::{AtomicBool, Ordering};
use std::sync::Arc;
use std::time::{Duration, Instant};

fn ev_json(e: &vt::Event) -> Value {
    json!({
        "seq": e.seq, "thread": e.thread, "label": e.thread_label, "lock": e.lock,
        "kind": format!("{:?}", e.kind), "op": format!("{:?}", e.op), "mode": format!("{:?}", e.mode),
        "phase": format!("{:?}", e.phase), "ok": e.ok,
        "created": e.created.map(|(f, l, c)| json!([f, l, c])),
        "site": e.site.map(|(f, l, c)| json!([f, l, c])),
        "text": e.text,
    })
}

fn run_guarded(name: &str, f: &(dyn Fn() + Send + Sync)) -> bool {
    let r = std::panic::catch_unwind(std::panic::AssertUnwindSafe(|| f()));
    if r.is_err() {
        eprintln!("operation {} panicked", name);
    }
    r.is_ok()
}

fn trace(out: &str, only: Option<&str>) {
    std::fs::create_dir_all(out).unwrap();
    let mut all: Vec<Value> = vec![];
    let mut panics: Vec<String> = vec![];
    let mut n_ops = 0usize;
    for builder in scenarios() {
        if let Some(o) = only {
            if !builder.0.contains(o) {
                continue;
            }
        }
        vt::clear();
        vt::enable();
        vt::mark(&format!("SCENARIO {}", builder.0));
        let scn: Scenario = (builder.1)();
        let main_thread = vt::current_thread_no();
        vt::mark("SETUP-END");
        for op in &scn.ops {
            if let Some(p) = &op.prep {
                vt::mark("PREP-BEGIN");
                run_guarded(&op.name, p.as_ref());
                vt::mark("PREP-END");
            }
            vt::mark(&format!("BEGIN {}", op.name));
            if !run_guarded(&op.name, op.run.as_ref()) {
                panics.push(format!("{}/{}", scn.name, op.name));
            }
            vt::mark(&format!("END {}", op.name));
            n_ops += 1;
        }
        // let background threads (runtime workers, rayon) settle before the scenario is torn down
        std::thread::sleep(Duration::from_millis(20));
        vt::mark("TEARDOWN");
        drop(scn);
        vt::disable();
        let evs: Vec<Value> = vt::drain().iter().map(ev_json).collect();
        all.push(json!({"scenario": builder.0, "main_thread": main_thread, "events": evs}));
    }
    let doc = json!({"scenarios": all, "ops_run": n_ops, "panics": panics});
    std::fs::write(format!("{}/traces.json", out), serde_json::to_vec(&doc).unwrap()).unwrap();
    println!("trace: {} operations, {} panics", n_ops, panics.len());
}

fn parse_mode(s: &str) -> Option<vt::Mode> {
    Some(match s {
        "Mutex" => vt::Mode::Mutex,
        "Read" => vt::Mode::Read,
        "ReadRecursive" => vt::Mode::ReadRecursive,
        "Upgradable" => vt::Mode::Upgradable,
        "Write" => vt::Mode::Write,
        _ => return None,
    })
}

/// plan: {"scenario": "...", "threads": [{"op": "...", "gates": [{"site_file": "...", "site_line": n,
///        "mode": "Write", "nth": 1, "phase": "Done"|"Req", "signal": e, "wait": e}], "start_after": e?}], "watchdog_ms": 5000}
fn directed(plan_path: &str, out: &str) {
    let plan: Value = serde_json::from_slice(&std::fs::read(plan_path).expect("plan file")).expect("plan json");
    let scn_name = plan["scenario"].as_str().unwrap().to_string();
    let watchdog = plan["watchdog_ms"].as_u64().unwrap_or(5000);
    let builder = scenarios().into_iter().find(|b| b.0 == scn_name).expect("unknown scenario");
    let scn: Scenario = (builder.1)();
    let threads = plan["threads"].as_array().unwrap().clone();
    let mut chosen: Vec<Op> = vec![];
    for t in &threads {
        let name = t["op"].as_str().unwrap();
        let op = scn.ops.iter().find(|o| o.name == name).unwrap_or_else(|| panic!("unknown op {}", name)).clone();
        chosen.push(op);
    }
    // preparation of every chosen operation, single-threaded, recorder off
    for op in &chosen {
        if let Some(p) = &op.prep {
            run_guarded(&op.name, p.as_ref());
        }
    }
    vt::clear();
    vt::reset_events();
    vt::clear_gates();
    for (i, t) in threads.iter().enumerate() {
        for g in t["gates"].as_array().cloned().unwrap_or_default() {
            let lock = if let Some(f) = g["site_file"].as_str() {
                vt::LockSel::Site { file_suffix: f.to_string(), line: g["site_line"].as_u64().unwrap() as u32 }
            } else if let Some(f) = g["created_file"].as_str() {
                vt::LockSel::Created { file_suffix: f.to_string(), line: g["created_line"].as_u64().unwrap() as u32 }
            } else {
                vt::LockSel::Any
            };
            vt::add_gate(vt::Gate {
                thread_label: (i + 1) as u32,
                lock,
                mode: g["mode"].as_str().and_then(parse_mode),
                op: None,
                nth: g["nth"].as_u64().unwrap_or(1) as u32,
                phase: if g["phase"].as_str() == Some("Req") { vt::Phase::Req } else { vt::Phase::Done },
                signal: g["signal"].as_u64().map(|x| x as u32),
                wait: g["wait"].as_u64().map(|x| x as u32),
                timeout_ms: g["timeout_ms"].as_u64().unwrap_or(2000),
            });
        }
    }
    vt::enable();
    let done: Vec<Arc<AtomicBool>> = chosen.iter().map(|_| Arc::new(AtomicBool::new(false))).collect();
    for (i, op) in chosen.iter().enumerate() {
        let op = op.clone();
        let d = done[i].clone();
        let start_after = threads[i]["start_after"].as_u64().map(|x| x as u32);
        std::thread::Builder::new()
            .name(format!("c08-t{}", i + 1))
            .spawn(move || {
                vt::set_thread_label((i + 1) as u32);
                if let Some(e) = start_after {
                    // phase plan: this thread starts only when an earlier thread has reached its gate
                    vt::wait_event(e, Duration::from_millis(4000));
                }
                vt::mark(&format!("BEGIN {}", op.name));
                run_guarded(&op.name, op.run.as_ref());
                vt::mark(&format!("END {}", op.name));
                d.store(true, Ordering::SeqCst);
            })
            .unwrap();
    }
    let t0 = Instant::now();
    let mut cycles = 0usize;
    let mut cycle_threads = 0usize;
    loop {
        if done.iter().all(|d| d.load(Ordering::SeqCst)) {
            break;
        }
        if t0.elapsed() > Duration::from_millis(watchdog) {
            break;
        }
        std::thread::sleep(Duration::from_millis(20));
        if t0.elapsed() > Duration::from_millis(300) {
            let dl = parking_lot::deadlock::check_deadlock();
            if !dl.is_empty() {
                cycles = dl.len();
                cycle_threads = dl.iter().map(|c| c.len()).sum();
                break;
            }
        }
    }
    let finished: Vec<bool> = done.iter().map(|d| d.load(Ordering::SeqCst)).collect();
    let hang = !finished.iter().all(|x| *x);
    vt::disable();
    let evs = vt::drain();
    // requests without completion = what each hung thread is waiting for
    let mut pending: Vec<Value> = vec![];
    for label in 1..=chosen.len() as u32 {
        let mine: Vec<&vt::Event> = evs.iter().filter(|e| e.thread_label == label && e.kind != vt::Kind::Marker).collect();
        if let Some(last) = mine.last() {
            if last.phase == vt::Phase::Req {
                pending.push(json!({"thread": label, "op": chosen[(label - 1) as usize].name, "waits_for": ev_json(last)}));
            }
        }
    }
    let verdict = json!({
        "scenario": scn_name,
        "ops": chosen.iter().map(|o| o.name.clone()).collect::<Vec<_>>(),
        "finished": finished,
        "hang": hang,
        "elapsed_ms": t0.elapsed().as_millis() as u64,
        "parking_lot_deadlock_cycles": cycles,
        "parking_lot_deadlock_threads": cycle_threads,
        "pending_requests": pending,
        "events": evs.iter().map(ev_json).collect::<Vec<_>>(),
    });
    std::fs::write(out, serde_json::to_vec_pretty(&verdict).unwrap()).unwrap();
    println!("directed: hang={} finished={:?} deadlock_cycles={}", hang, finished, cycles);
    // hung threads hold engine locks; do not run destructors
    std::process::exit(0);
}

fn main() {
    let args: Vec<String> = std::env::args().collect();
    let get = |k: &str| args.iter().position(|a| a == k).and_then(|i| args.get(i + 1)).cloned();
    // keep the engine's tracing output quiet; the engine's own debug deadlock detector is not started
    match args.get(1).map(|s| s.as_str()) {
        Some("trace") => trace(&get("--out").expect("--out"), get("--only").as_deref()),
        Some("directed") => directed(&get("--plan").expect("--plan"), &get("--out").expect("--out")),
        Some("list") => {
            for b in scenarios() {
                let s = (b.1)();
                for o in &s.ops {
                    println!("{}\t{}", s.name, o.name);
                }
            }
        }
        _ => {
            eprintln!("usage: c08 trace --out DIR [--only SCN] | directed --plan FILE --out FILE | list");
            std::process::exit(2);
        }
    }
}
