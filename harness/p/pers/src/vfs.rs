//! fsshim trace -> virtual file system -> crash / power-loss directory states.
use std::collections::BTreeMap;
use std::path::Path;

#[derive(Clone, Debug)]
pub struct Ev {
    pub idx: i64,
    pub kind: String, // open write fsync fdatasync ftruncate rename unlink mkdir
    pub path: String, // relative to the watched prefix ("" = the directory itself)
    pub off: i64,
    pub len: i64,
    pub ret: i64,
    pub errno: i64,
    pub doff: i64,
    pub path2: Option<String>,
    pub trunc: bool,
    pub short: bool,
}

#[derive(Clone, Debug)]
pub struct Marker {
    pub text: String,
    pub after: usize, // number of effect lines that precede this marker
}

#[derive(Clone, Debug, Default)]
pub struct Trace {
    pub evs: Vec<Ev>,
    pub markers: Vec<Marker>,
    pub data: Vec<u8>,
}

fn rel(prefix: &str, p: &str) -> String {
    let s = p.strip_prefix(prefix).unwrap_or(p);
    s.trim_start_matches('/').to_string()
}

pub fn parse(log_path: &Path, prefix: &str) -> Trace {
    let text = std::fs::read_to_string(log_path).unwrap_or_default();
    let data = std::fs::read(format!("{}.data", log_path.display())).unwrap_or_default();
    let mut t = Trace { data, ..Default::default() };
    for line in text.lines() {
        if let Some(m) = line.strip_prefix("M ") {
            t.markers.push(Marker { text: m.to_string(), after: t.evs.len() });
            continue;
        }
        if !line.starts_with("E ") {
            continue;
        }
        let (main, path2) = match line.split_once(" -> ") {
            Some((a, b)) => (a, Some(rel(prefix, b.trim()))),
            None => (line, None),
        };
        let toks: Vec<&str> = main.split(' ').collect();
        if toks.len() < 4 {
            continue;
        }
        let mut ev = Ev {
            idx: toks[1].parse().unwrap_or(0),
            kind: toks[2].to_string(),
            path: rel(prefix, toks[3]),
            off: 0, len: 0, ret: 0, errno: 0, doff: -1, path2, trunc: false, short: false,
        };
        for tk in &toks[4..] {
            if let Some(v) = tk.strip_prefix("off=") { ev.off = v.parse().unwrap_or(0) }
            else if let Some(v) = tk.strip_prefix("len=") { ev.len = v.parse().unwrap_or(0) }
            else if let Some(v) = tk.strip_prefix("ret=") { ev.ret = v.parse().unwrap_or(0) }
            else if let Some(v) = tk.strip_prefix("errno=") { ev.errno = v.parse().unwrap_or(0) }
            else if let Some(v) = tk.strip_prefix("doff=") { ev.doff = v.parse().unwrap_or(-1) }
            else if let Some(v) = tk.strip_prefix("flags=") { ev.trunc = v.contains("trunc") }
            else if *tk == "short" { ev.short = true }
        }
        t.evs.push(ev);
    }
    t
}

#[derive(Clone, Debug, Default)]
pub struct Inode {
    pub content: Vec<u8>,
    pub durable: Vec<u8>,
}

#[derive(Clone, Debug, Default)]
pub struct Vfs {
    pub inodes: Vec<Inode>,
    pub ns: BTreeMap<String, usize>,
    pub durable_ns: BTreeMap<String, usize>,
}

#[derive(Clone, Copy, Debug, PartialEq)]
pub enum Loss {
    /// process kill: every completed effect persists
    Kill,
    /// power loss: un-fsynced file bytes AND directory changes since the last directory fsync dropped
    PowerAll,
    /// power loss: only un-fsynced file bytes dropped
    PowerData,
    /// power loss: only directory changes since the last directory fsync dropped
    PowerDir,
}

impl Vfs {
    pub fn apply(&mut self, ev: &Ev, data: &[u8], torn: Option<usize>) {
        let failed = ev.ret < 0;
        match ev.kind.as_str() {
            "open" => {
                if failed { return }
                match self.ns.get(&ev.path) {
                    Some(&i) => { if ev.trunc { self.inodes[i].content.clear() } }
                    None => {
                        self.inodes.push(Inode::default());
                        self.ns.insert(ev.path.clone(), self.inodes.len() - 1);
                    }
                }
            }
            "write" => {
                let n = match torn { Some(t) => t.min(ev.len.max(0) as usize), None => if failed { 0 } else { ev.ret as usize } };
                if n == 0 { return }
                if let Some(&i) = self.ns.get(&ev.path) {
                    let off = if ev.off < 0 { self.inodes[i].content.len() } else { ev.off as usize };
                    let src: Vec<u8> = if ev.doff >= 0 && (ev.doff as usize) + n <= data.len() {
                        data[ev.doff as usize..ev.doff as usize + n].to_vec()
                    } else { vec![0u8; n] };
                    let c = &mut self.inodes[i].content;
                    if c.len() < off + n { c.resize(off + n, 0) }
                    c[off..off + n].copy_from_slice(&src);
                }
            }
            "ftruncate" => {
                if failed { return }
                if let Some(&i) = self.ns.get(&ev.path) {
                    self.inodes[i].content.resize(ev.off.max(0) as usize, 0);
                }
            }
            "fsync" | "fdatasync" => {
                if failed { return }
                if ev.path.is_empty() {
                    self.durable_ns = self.ns.clone();
                } else if let Some(&i) = self.ns.get(&ev.path) {
                    self.inodes[i].durable = self.inodes[i].content.clone();
                }
            }
            "rename" => {
                if failed { return }
                if let (Some(i), Some(b)) = (self.ns.remove(&ev.path), ev.path2.clone()) {
                    self.ns.insert(b, i);
                }
            }
            "unlink" => {
                if failed { return }
                self.ns.remove(&ev.path);
            }
            _ => {}
        }
    }

    /// Files (name -> bytes) of the directory under the given loss model.
    pub fn view(&self, loss: Loss) -> BTreeMap<String, Vec<u8>> {
        let (ns, durable_data) = match loss {
            Loss::Kill => (&self.ns, false),
            Loss::PowerAll => (&self.durable_ns, true),
            Loss::PowerData => (&self.ns, true),
            Loss::PowerDir => (&self.durable_ns, false),
        };
        ns.iter()
            .map(|(k, &i)| (k.clone(), if durable_data { self.inodes[i].durable.clone() } else { self.inodes[i].content.clone() }))
            .collect()
    }
}

/// State after the first `k` effects (0-based count) of the trace; `torn` = bytes of effect k
/// (which must be a write) that additionally reached the file.
pub fn state_at(t: &Trace, k: usize, torn: Option<usize>) -> Vfs {
    let mut v = Vfs::default();
    for ev in t.evs.iter().take(k) {
        v.apply(ev, &t.data, None);
    }
    if let Some(n) = torn {
        if let Some(ev) = t.evs.get(k) {
            if ev.kind == "write" {
                v.apply(ev, &t.data, Some(n));
            }
        }
    }
    v
}

pub fn materialise(files: &BTreeMap<String, Vec<u8>>, dir: &Path) -> std::io::Result<()> {
    if dir.exists() {
        std::fs::remove_dir_all(dir)?;
    }
    std::fs::create_dir_all(dir)?;
    for (name, bytes) in files {
        if name.is_empty() || name.contains('/') {
            continue;
        }
        std::fs::write(dir.join(name), bytes)?;
    }
    Ok(())
}
