//! Shared pieces of the persistence checks (C01 crash points, C03 faults, C13 damage, C12 backup):
//! history language + generator + shadow (abstract map) model, the runner that applies a history
//! to the real `HnswBackend`, census taking, start-up as the server does it, control of the
//! LD_PRELOAD fsshim, and the parser / virtual file system that turns an fsshim trace into crash
//! and power-loss directory states.
pub mod hist;
pub mod eng;
pub mod shim;
pub mod vfs;
