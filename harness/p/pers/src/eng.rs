use crate::hist::*;
use anyhow::Result;
use kyrodb_engine::config::DistanceMetric;
use kyrodb_engine::{FsyncPolicy, HnswBackend, MetricsCollector};
use std::collections::HashMap;
use std::path::Path;

pub fn metric_of(s: &str) -> DistanceMetric {
    match s {
        "cosine" => DistanceMetric::Cosine,
        "innerproduct" => DistanceMetric::InnerProduct,
        _ => DistanceMetric::Euclidean,
    }
}

pub fn fsync_of(s: &str) -> FsyncPolicy {
    if s == "always" {
        FsyncPolicy::Always
    } else if let Some(ms) = s.strip_prefix("periodic:") {
        FsyncPolicy::Periodic(ms.parse().unwrap_or(100))
    } else {
        FsyncPolicy::Never
    }
}

/// Start-up exactly as kyrodb_server decides it: recover (strict) when a MANIFEST exists,
/// otherwise a fresh persistent engine.
pub fn start(cfg: &Cfg, dir: &Path) -> Result<HnswBackend> {
    if dir.join("MANIFEST").exists() {
        HnswBackend::recover(
            cfg.dim,
            metric_of(&cfg.metric),
            dir,
            cfg.capacity,
            fsync_of(&cfg.fsync),
            cfg.snapshot_interval,
            cfg.max_wal_bytes,
            MetricsCollector::new(),
        )
    } else {
        HnswBackend::with_persistence(
            cfg.dim,
            metric_of(&cfg.metric),
            vec![],
            vec![],
            cfg.capacity,
            dir,
            fsync_of(&cfg.fsync),
            cfg.snapshot_interval,
            cfg.max_wal_bytes,
        )
    }
}

pub fn census(b: &HnswBackend) -> Census {
    let mut ids = b.scan(|_| true);
    ids.sort_unstable();
    let mut c = Census::new();
    for id in ids {
        let v = b.fetch_document(id).unwrap_or_default();
        let m: Meta = b.fetch_metadata(id).unwrap_or_default().into_iter().collect();
        c.insert(id, (bits(&v), m));
    }
    c
}

fn err_class(e: &anyhow::Error) -> String {
    let s = format!("{:#}", e).to_lowercase();
    if s.contains("after wal append") {
        format!("after-wal-append:{}", s.chars().take(60).collect::<String>())
    } else if s.contains("dimension") {
        "dimension".into()
    } else if s.contains("l2-normalized") {
        "not-normalizable".into()
    } else if s.contains("norm is zero") || s.contains("zero") {
        "zero-norm".into()
    } else if s.contains("finite") || s.contains("nan") {
        "non-finite".into()
    } else if s.contains("full") || s.contains("capacity") {
        "full".into()
    } else if s.contains("inconsistent") {
        "degraded".into()
    } else if s.contains("disk space") {
        "disk-space".into()
    } else {
        format!("io:{}", s.chars().take(80).collect::<String>())
    }
}

/// Applies one operation. `Restart` drops the engine and starts it again from `dir`.
pub fn apply(b: &mut Option<HnswBackend>, cfg: &Cfg, dir: &Path, op: &Op) -> Out {
    match op {
        Op::Restart => {
            *b = None; // drop
            match start(cfg, dir) {
                Ok(nb) => {
                    *b = Some(nb);
                    Out::Ok
                }
                Err(e) => Out::Err(format!("restart:{}", err_class(&e))),
            }
        }
        _ => {
            let be = match b.as_ref() {
                Some(x) => x,
                None => return Out::Err("no-engine".into()),
            };
            match op {
                Op::Insert { id, vec, meta } => {
                    let m: HashMap<String, String> = meta.clone().into_iter().collect();
                    match be.insert(*id, vec.clone(), m) {
                        Ok(()) => Out::Ok,
                        Err(e) => Out::Err(err_class(&e)),
                    }
                }
                Op::InsertBits { id, bits: b, meta } => {
                    let m: HashMap<String, String> = meta.clone().into_iter().collect();
                    let v: Vec<f32> = b.iter().map(|x| f32::from_bits(*x)).collect();
                    match be.insert(*id, v, m) {
                        Ok(()) => Out::Ok,
                        Err(e) => Out::Err(err_class(&e)),
                    }
                }
                Op::Delete { id } => match be.delete(*id) {
                    Ok(x) => Out::OkBool(x),
                    Err(e) => Out::Err(err_class(&e)),
                },
                Op::BatchDelete { ids } => match be.batch_delete(ids) {
                    Ok(n) => Out::OkCount(n),
                    Err(e) => Out::Err(err_class(&e)),
                },
                Op::UpdateMeta { id, meta, merge } => {
                    let m: HashMap<String, String> = meta.clone().into_iter().collect();
                    match be.update_metadata(*id, m, *merge) {
                        Ok(x) => Out::OkBool(x),
                        Err(e) => Out::Err(err_class(&e)),
                    }
                }
                Op::Snapshot => match be.create_snapshot() {
                    Ok(()) => Out::Ok,
                    Err(e) => Out::Err(err_class(&e)),
                },
                Op::Restart => unreachable!(),
            }
        }
    }
}

pub fn is_ok(o: &Out) -> bool {
    !matches!(o, Out::Err(_))
}
