use kvh::rng::Rng;
use serde::{Deserialize, Serialize};
use std::collections::BTreeMap;

pub type Meta = BTreeMap<String, String>;

#[derive(Clone, Debug, Serialize, Deserialize, PartialEq)]
pub enum Op {
    Insert { id: u64, vec: Vec<f32>, meta: Meta },
    /// insert whose vector is given as f32 bit patterns (so NaN / inf / overflowing values survive JSON)
    InsertBits { id: u64, bits: Vec<u32>, meta: Meta },
    Delete { id: u64 },
    BatchDelete { ids: Vec<u64> },
    UpdateMeta { id: u64, meta: Meta, merge: bool },
    Snapshot,
    Restart,
}

#[derive(Clone, Debug, Serialize, Deserialize, PartialEq)]
pub struct Cfg {
    pub dim: usize,
    pub metric: String, // "euclidean" | "cosine" | "innerproduct"
    pub capacity: usize,
    pub snapshot_interval: usize,
    pub max_wal_bytes: u64,
    pub fsync: String, // "always" | "never" | "periodic:<ms>"
}

#[derive(Clone, Debug, Serialize, Deserialize, PartialEq)]
pub struct History {
    pub cfg: Cfg,
    pub ops: Vec<Op>,
}

/// Census: id -> (f32 bit patterns, sorted metadata)
pub type Census = BTreeMap<u64, (Vec<u32>, Meta)>;

/// Outcome class of one operation (canonical, small).
#[derive(Clone, Debug, Serialize, Deserialize, PartialEq)]
pub enum Out {
    Ok,
    OkBool(bool),
    OkCount(u64),
    Err(String),
}

pub fn bits(v: &[f32]) -> Vec<u32> {
    v.iter().map(|x| x.to_bits()).collect()
}

/// The abstract specification: apply one *successful* operation to the map.
/// `stored` is the vector as the engine stores it (after normalisation), supplied by the caller.
pub fn shadow_apply(c: &mut Census, op: &Op, stored: Option<Vec<u32>>) {
    match op {
        Op::Insert { id, vec, meta } => {
            c.insert(*id, (stored.unwrap_or_else(|| bits(vec)), meta.clone()));
        }
        Op::InsertBits { id, bits: b, meta } => {
            c.insert(*id, (stored.unwrap_or_else(|| b.clone()), meta.clone()));
        }
        Op::Delete { id } => {
            c.remove(id);
        }
        Op::BatchDelete { ids } => {
            for id in ids {
                c.remove(id);
            }
        }
        Op::UpdateMeta { id, meta, merge } => {
            if let Some(e) = c.get_mut(id) {
                if *merge {
                    for (k, v) in meta {
                        e.1.insert(k.clone(), v.clone());
                    }
                } else {
                    e.1 = meta.clone();
                }
            }
        }
        Op::Snapshot | Op::Restart => {}
    }
}

pub struct GenParams {
    pub max_ops: usize,
    pub ids: u64,
    pub allow_restart: bool,
    pub allow_batch: bool,
}

impl Default for GenParams {
    fn default() -> Self {
        GenParams { max_ops: 14, ids: 5, allow_restart: true, allow_batch: true }
    }
}

pub fn gen_vec(r: &mut Rng, dim: usize) -> Vec<f32> {
    // small dyadic components, never all zero, occasionally axis / duplicate-prone
    let pool = [0.5f32, -0.5, 1.0, -1.0, 0.25, 2.0, 0.75, -1.5, 3.0];
    let mut v: Vec<f32> = (0..dim).map(|_| *r.pick(&pool)).collect();
    if r.chance(1, 5) {
        for x in v.iter_mut().skip(1) {
            *x = 0.0;
        }
    }
    if v.iter().all(|x| *x == 0.0) {
        v[0] = 1.0;
    }
    v
}

pub fn gen_meta(r: &mut Rng) -> Meta {
    let mut m = Meta::new();
    let keys = ["k", "color", "n"];
    let vals = ["a", "b", "1", "2.5", "", "red"];
    for _ in 0..r.below(3) {
        m.insert(r.pick(&keys).to_string(), r.pick(&vals).to_string());
    }
    m
}

pub fn gen_cfg(r: &mut Rng, fsync: &str) -> Cfg {
    Cfg {
        dim: *r.pick(&[1usize, 2, 3, 8]),
        metric: r.pick(&["euclidean", "euclidean", "cosine", "innerproduct"]).to_string(),
        capacity: *r.pick(&[3usize, 4, 64]),
        snapshot_interval: *r.pick(&[0usize, 1, 2, 3, 5, 1000]),
        // one frame of a tiny document is ~60-100 bytes: 1 => rotate after every frame
        max_wal_bytes: *r.pick(&[1u64, 200, 400, 1 << 20]),
        fsync: fsync.to_string(),
    }
}

pub fn gen_history(r: &mut Rng, cfg: Cfg, p: &GenParams) -> History {
    let n = r.range(3, p.max_ops as u64) as usize;
    let mut ops = vec![];
    for _ in 0..n {
        let id = r.range(1, p.ids);
        let op = match r.below(20) {
            0..=8 => Op::Insert { id, vec: gen_vec(r, cfg.dim), meta: gen_meta(r) },
            9..=11 => Op::Delete { id },
            12..=13 if p.allow_batch => {
                let k = r.range(1, 4);
                Op::BatchDelete { ids: (0..k).map(|_| r.range(1, p.ids + 1)).collect() }
            }
            14..=15 => Op::UpdateMeta { id, meta: gen_meta(r), merge: r.chance(1, 2) },
            16..=17 => Op::Snapshot,
            18 if p.allow_restart => Op::Restart,
            _ => Op::Insert { id, vec: gen_vec(r, cfg.dim), meta: gen_meta(r) },
        };
        ops.push(op);
    }
    History { cfg, ops }
}
