//! Run-time control of the LD_PRELOAD fsshim (when loaded); every function is a no-op otherwise.
use std::ffi::CString;

unsafe fn sym(name: &str) -> *mut libc::c_void {
    let c = CString::new(name).unwrap();
    libc::dlsym(libc::RTLD_DEFAULT, c.as_ptr())
}

pub fn loaded() -> bool {
    unsafe { !sym("fsshim_mark").is_null() }
}

pub fn mark(text: &str) {
    unsafe {
        let p = sym("fsshim_mark");
        if !p.is_null() {
            let f: extern "C" fn(*const libc::c_char) = std::mem::transmute(p);
            let c = CString::new(text).unwrap();
            f(c.as_ptr());
        }
    }
}

pub fn reset() {
    unsafe {
        let p = sym("fsshim_reset");
        if !p.is_null() {
            let f: extern "C" fn() = std::mem::transmute(p);
            f();
        }
    }
}

pub fn set_crash(k: i64, torn: i64) {
    unsafe {
        let p = sym("fsshim_set_crash");
        if !p.is_null() {
            let f: extern "C" fn(libc::c_long, libc::c_long) = std::mem::transmute(p);
            f(k as libc::c_long, torn as libc::c_long);
        }
    }
}

pub fn set_fault(spec: &str) {
    unsafe {
        let p = sym("fsshim_set_fault");
        if !p.is_null() {
            let f: extern "C" fn(*const libc::c_char) = std::mem::transmute(p);
            let c = CString::new(spec).unwrap();
            f(c.as_ptr());
        }
    }
}

pub fn count() -> i64 {
    unsafe {
        let p = sym("fsshim_count");
        if p.is_null() {
            return -1;
        }
        let f: extern "C" fn() -> libc::c_long = std::mem::transmute(p);
        f() as i64
    }
}
