//! C13 driver: strict recovery never silently returns damaged state.
//!   c13 --out DIR --n N [--tier T] [--replay FILE]
//! For directories produced by seeded histories (clean shutdown), applies every single damage of
//! the enumerated classes to a copy, starts the REAL engine (strict) and checks: refuses to start,
//! or recovers exactly the pre-damage collection.
use kvh::rng::Rng;
use kvh_pers::eng;
use kvh_pers::hist::*;
use serde::{Deserialize, Serialize};
use serde_json::json;
use std::collections::BTreeMap;
use std::path::{Path, PathBuf};
use std::sync::Mutex;

type Files = BTreeMap<String, Vec<u8>>;

#[derive(Clone, Debug, Serialize, Deserialize, PartialEq)]
enum Damage {
    Delete { file: String },
    Truncate { file: String, len: usize },
    Flip { file: String, offset: usize, bit: u8 },
}

#[derive(Clone, Debug)]
struct Frame { start: usize, len_field: u32, end: usize }

/// Independent parser of the WAL framing: [magic 4][len u32 | payload | crc u32]*
fn wal_frames(b: &[u8]) -> Vec<Frame> {
    let mut v = vec![];
    let mut p = 4usize;
    while p + 4 <= b.len() {
        let l = u32::from_le_bytes([b[p], b[p + 1], b[p + 2], b[p + 3]]);
        let end = p + 4 + l as usize + 4;
        if end > b.len() { break }
        v.push(Frame { start: p, len_field: l, end });
        p = end;
    }
    v
}

fn read_dir(dir: &Path) -> Files {
    let mut f = Files::new();
    if let Ok(rd) = std::fs::read_dir(dir) {
        for e in rd.flatten() {
            if e.path().is_file() {
                f.insert(e.file_name().to_string_lossy().to_string(), std::fs::read(e.path()).unwrap_or_default());
            }
        }
    }
    f
}

fn write_dir(files: &Files, dir: &Path) {
    let _ = std::fs::remove_dir_all(dir);
    std::fs::create_dir_all(dir).unwrap();
    for (n, b) in files { std::fs::write(dir.join(n), b).unwrap(); }
}

fn apply_damage(files: &Files, d: &Damage) -> Files {
    let mut f = files.clone();
    match d {
        Damage::Delete { file } => { f.remove(file); }
        Damage::Truncate { file, len } => { if let Some(b) = f.get_mut(file) { b.truncate(*len) } }
        Damage::Flip { file, offset, bit } => { if let Some(b) = f.get_mut(file) { if *offset < b.len() { b[*offset] ^= 1 << bit } } }
    }
    f
}

fn manifest_info(files: &Files) -> (Option<String>, Vec<String>) {
    let v: serde_json::Value = files.get("MANIFEST").and_then(|b| serde_json::from_slice(b).ok()).unwrap_or(json!({}));
    let snap = v["latest_snapshot"].as_str().map(|s| s.to_string());
    let segs = v["wal_segments"].as_array().map(|a| a.iter().filter_map(|x| x.as_str().map(|s| s.to_string())).collect()).unwrap_or_default();
    (snap, segs)
}

fn enumerate(files: &Files, r: &mut Rng, tier: &str) -> Vec<Damage> {
    let (_snap, segs) = manifest_info(files);
    let newest = segs.last().cloned();
    let mut out = vec![];
    for (name, b) in files {
        out.push(Damage::Delete { file: name.clone() });
        let is_wal = name.ends_with(".wal");
        let mut flips: Vec<usize> = vec![];
        let mut truncs: Vec<usize> = vec![];
        if is_wal {
            for o in 0..4.min(b.len()) { flips.push(o) }
            for fr in wal_frames(b) {
                for o in fr.start..fr.start + 4 { flips.push(o) }
                flips.push(fr.start + 4);
                flips.push(fr.start + 4 + (fr.len_field as usize) / 2);
                flips.push(fr.end - 5);
                for o in fr.end - 4..fr.end { flips.push(o) }
                truncs.extend([fr.start.saturating_sub(1), fr.start, fr.start + 1, fr.start + 3, fr.start + 4 + (fr.len_field as usize) / 2, fr.end - 1]);
            }
            truncs.extend([0usize, 1, 3, 4, 5]);
            // "loss confined to a truncated tail of the newest log segment" is C01's crash case: excluded
            if Some(name) == newest.as_ref() { truncs.clear() }
        } else if name.ends_with(".snap") {
            for o in 0..16.min(b.len()) { flips.push(o) }
            if b.len() > 20 { flips.extend([b.len() / 2, b.len() - 5, b.len() - 4, b.len() - 3, b.len() - 2, b.len() - 1]); }
            truncs.extend([0usize, 1, 4, 11, 12, 13, b.len() / 2, b.len().saturating_sub(5), b.len().saturating_sub(4), b.len().saturating_sub(1)]);
        } else {
            // MANIFEST (json): every byte
            for o in 0..b.len() { flips.push(o) }
            truncs.extend([0usize, 1, b.len() / 2, b.len().saturating_sub(2), b.len().saturating_sub(1)]);
        }
        for _ in 0..(if tier == "thorough" { 24 } else { 6 }) { if !b.is_empty() { flips.push(r.below(b.len() as u64) as usize) } }
        flips.sort_unstable(); flips.dedup();
        for o in flips {
            if o >= b.len() { continue }
            let bits: Vec<u8> = if tier == "thorough" || !is_wal && !name.ends_with(".snap") { if tier == "thorough" { (0..8).collect() } else { vec![(o % 8) as u8, ((o + 5) % 8) as u8] } } else { vec![0, 7, (o % 6 + 1) as u8] };
            for bit in bits { out.push(Damage::Flip { file: name.clone(), offset: o, bit }) }
        }
        truncs.sort_unstable(); truncs.dedup();
        for t in truncs { if t < b.len() { out.push(Damage::Truncate { file: name.clone(), len: t }) } }
    }
    out
}

fn recover_census(cfg: &Cfg, dir: &Path) -> Result<Census, String> {
    let r = std::panic::catch_unwind(|| match eng::start(cfg, dir) {
        Ok(b) => Ok(eng::census(&b)),
        Err(e) => Err(format!("{:#}", e)),
    });
    match r { Ok(x) => x, Err(_) => Err("panic during recovery".into()) }
}

/// Classification of the recorded defect classes (specific damage classes only).
fn classify(files: &Files, d: &Damage) -> Option<String> {
    let (snap, segs) = manifest_info(files);
    let newest = segs.last().cloned();
    match d {
        Damage::Delete { file } if file == "MANIFEST" => Some("C13-manifest-deleted-fresh-start".into()),
        Damage::Flip { file, .. } if file == "MANIFEST" => {
            // which field of the (still valid) JSON did the flip change?
            let f2 = apply_damage(files, d);
            let old: serde_json::Value = serde_json::from_slice(&files["MANIFEST"]).unwrap_or(json!({}));
            let new: serde_json::Value = match serde_json::from_slice(&f2["MANIFEST"]) { Ok(v) => v, Err(_) => return None };
            let same = |k: &str| old.get(k) == new.get(k);
            if !same("latest_snapshot") && same("wal_segments") {
                let older = files.keys().any(|k| k.ends_with(".snap") && Some(k) != snap.as_ref());
                let target_missing = new["latest_snapshot"].as_str().map(|n| !files.contains_key(n)).unwrap_or(true);
                if older && target_missing { return Some("C13-snapshot-unreadable-falls-back-to-older".into()) }
                if new.get("latest_snapshot").is_none() || new["latest_snapshot"].is_null() { return Some("C13-manifest-field-altered".into()) }
                return None;
            }
            if !same("latest_snapshot_wal_seq") && same("latest_snapshot") && same("wal_segments") { return Some("C13-manifest-field-altered".into()) }
            if new.get("latest_snapshot").is_none() && old.get("latest_snapshot").is_some() { return Some("C13-manifest-field-altered".into()) }
            None
        }
        Damage::Flip { file, offset, bit } if file.ends_with(".wal") => {
            let b = &files[file];
            for fr in wal_frames(b) {
                if *offset >= fr.start && *offset < fr.start + 4 {
                    let mut lb = fr.len_field.to_le_bytes();
                    lb[offset - fr.start] ^= 1 << bit;
                    let nl = u32::from_le_bytes(lb) as usize;
                    if fr.start + 4 + nl + 4 > b.len() { return Some("C13-wal-frame-length-runs-past-eof".into()) }
                }
            }
            None
        }
        Damage::Truncate { file, len } if file.ends_with(".wal") && Some(file) != newest.as_ref() && segs.contains(file) && *len >= 4 =>
            Some("C13-non-newest-segment-truncated".into()),
        Damage::Delete { file } | Damage::Truncate { file, .. } | Damage::Flip { file, .. } if Some(file) == snap.as_ref() => {
            let older = files.keys().any(|k| k.ends_with(".snap") && Some(k) != snap.as_ref());
            if older { Some("C13-snapshot-unreadable-falls-back-to-older".into()) } else { None }
        }
        _ => None,
    }
}

struct DirResult { damages: u64, refused: u64, aborted: u64, exact: u64, changed_parse: u64, fails: Vec<serde_json::Value>, kinds: BTreeMap<String, u64>, files: usize }

/// worker process: `c13 worker <jobdir>`; reads base files + job.json (cfg, damages, from), prints one
/// line per damage: "<idx> R" refused | "<idx> E" exact | "<idx> D <json census ids>" different.
/// Recoveries run in a child so that an abort (e.g. a huge allocation driven by a damaged size
/// field) cannot take the driver down; an abort counts as a refusal to start.
fn worker(jobdir: &str) {
    let jd = Path::new(jobdir);
    let job: serde_json::Value = serde_json::from_str(&std::fs::read_to_string(jd.join("job.json")).unwrap()).unwrap();
    let cfg: Cfg = serde_json::from_value(job["cfg"].clone()).unwrap();
    let dmgs: Vec<Damage> = serde_json::from_value(job["damages"].clone()).unwrap();
    let from = job["from"].as_u64().unwrap_or(0) as usize;
    let c0: Census = serde_json::from_value(job["c0"].clone()).unwrap();
    let files = read_dir(&jd.join("base"));
    let scratch = jd.join("dmg");
    use std::io::Write;
    let out = std::io::stdout();
    for (i, d) in dmgs.iter().enumerate().skip(from) {
        let f2 = apply_damage(&files, d);
        { let mut o = out.lock(); writeln!(o, "{} B", i).unwrap(); o.flush().unwrap(); }
        write_dir(&f2, &scratch);
        let line = match recover_census(&cfg, &scratch) {
            Err(_) => format!("{} R", i),
            Ok(c) if c == c0 => format!("{} E", i),
            Ok(c) => format!("{} D {}", i, serde_json::to_string(&c.keys().collect::<Vec<_>>()).unwrap()),
        };
        let mut o = out.lock(); writeln!(o, "{}", line).unwrap(); o.flush().unwrap();
    }
}

fn check_dir(h: &History, work: &Path, tag: &str, tier: &str, seed_rng: &mut Rng, only: Option<&Damage>) -> DirResult {
    let jd = work.join(format!("{}_job", tag));
    let _ = std::fs::remove_dir_all(&jd);
    let base = jd.join("base");
    std::fs::create_dir_all(&base).unwrap();
    let mut res = DirResult { damages: 0, refused: 0, aborted: 0, exact: 0, changed_parse: 0, fails: vec![], kinds: BTreeMap::new(), files: 0 };
    {
        let mut be = eng::start(&h.cfg, &base).ok();
        for op in &h.ops { let _ = eng::apply(&mut be, &h.cfg, &base, op); }
        drop(be); // clean shutdown
    }
    let files = read_dir(&base);
    res.files = files.len();
    let scratch = jd.join("probe");
    write_dir(&files, &scratch);
    let c0 = match recover_census(&h.cfg, &scratch) {
        Ok(c) => c,
        Err(e) => { res.fails.push(json!({"why": format!("undamaged directory does not recover: {}", e), "class": null, "history": h})); return res }
    };
    let dmgs: Vec<Damage> = match only { Some(d) => vec![d.clone()], None => enumerate(&files, seed_rng, tier) }
        .into_iter().filter(|d| apply_damage(&files, d) != files).collect();
    let mut outcome: Vec<Option<(char, String)>> = vec![None; dmgs.len()];
    let mut from = 0usize;
    while from < dmgs.len() {
        std::fs::write(jd.join("job.json"), serde_json::to_string(&json!({"cfg": h.cfg, "damages": dmgs, "from": from, "c0": c0})).unwrap()).unwrap();
        let o = std::process::Command::new(std::env::current_exe().unwrap()).arg("worker").arg(&jd)
            .env("RUST_LOG", "off").env("RUST_BACKTRACE", "0").stderr(std::process::Stdio::null()).output();
        let text = o.map(|o| String::from_utf8_lossy(&o.stdout).to_string()).unwrap_or_default();
        let mut began: Option<usize> = None;
        let mut last_done: Option<usize> = None;
        for line in text.lines() {
            let mut it = line.splitn(3, ' ');
            let idx: usize = match it.next().and_then(|x| x.parse().ok()) { Some(i) => i, None => continue };
            let tag = it.next().unwrap_or("");
            let rest = it.next().unwrap_or("").to_string();
            match tag { "B" => began = Some(idx), "R" | "E" | "D" => { outcome[idx] = Some((tag.chars().next().unwrap(), rest)); last_done = Some(idx) } _ => {} }
        }
        match (began, last_done) {
            (Some(b), ld) if ld != Some(b) => { outcome[b] = Some(('A', String::new())); from = b + 1 } // died inside damage b
            (_, Some(ld)) => { from = ld + 1; if from < dmgs.len() && began.is_none() { break } }
            _ => break,
        }
        if last_done == Some(dmgs.len() - 1) { break }
    }
    for (d, o) in dmgs.iter().zip(outcome.iter()) {
        res.damages += 1;
        *res.kinds.entry(match d { Damage::Delete { file } => format!("delete:{}", kind_of(file)), Damage::Truncate { file, .. } => format!("truncate:{}", kind_of(file)), Damage::Flip { file, .. } => format!("flip:{}", kind_of(file)) }).or_insert(0) += 1;
        match o {
            Some(('R', _)) => { res.refused += 1; res.changed_parse += 1 }
            Some(('A', _)) => { res.refused += 1; res.aborted += 1; res.changed_parse += 1 }
            Some(('E', _)) => res.exact += 1,
            Some(('D', ids)) => {
                res.changed_parse += 1;
                res.fails.push(json!({
                    "why": "strict start-up succeeded on a damaged directory with a different collection",
                    "class": classify(&files, d), "damage": d, "history": h,
                    "expected_ids": c0.keys().collect::<Vec<_>>(), "recovered_ids": serde_json::from_str::<serde_json::Value>(ids).unwrap_or(json!(null)),
                    "files": files.iter().map(|(n, b)| (n.clone(), b.len())).collect::<BTreeMap<_, _>>(),
                }));
            }
            _ => res.fails.push(json!({"why": "damage was not evaluated (worker failure)", "class": null, "damage": d, "history": h})),
        }
    }
    let _ = std::fs::remove_dir_all(&jd);
    res
}

/// Reader-level correspondence: real WalReader / Snapshot::load on (mutated) bytes vs Model/WalBytes.v.
/// Writes cases_<k>.v under `out`. Returns (number of cases, samples).
fn reader_cases(files_list: &[Files], r: &mut Rng, out: &Path, per_file: usize) -> (usize, Vec<serde_json::Value>) {
    use kyrodb_engine::{WalEntry, WalReader, Snapshot};
    let mut cases: Vec<String> = vec![];
    let mut samples = vec![];
    let tmp = out.join("reader_tmp");
    let _ = std::fs::create_dir_all(&tmp);
    let fmt_bytes = |b: &[u8]| format!("[{}]", b.iter().map(|x| x.to_string()).collect::<Vec<_>>().join(";"));
    for files in files_list {
        for (name, orig) in files {
            if !(name.ends_with(".wal") || name.ends_with(".snap")) || orig.len() > 1200 { continue }
            let mut variants: Vec<(String, Vec<u8>)> = vec![("intact".into(), orig.clone())];
            for _ in 0..per_file {
                let mut b = orig.clone();
                let what = match r.below(5) {
                    0 => { let n = r.below(b.len() as u64 + 1) as usize; b.truncate(n); format!("truncate {}", n) }
                    1 if name.ends_with(".wal") => {
                        // flip inside a frame's length field
                        let frs = wal_frames(orig);
                        if frs.is_empty() { continue }
                        let fr = r.pick(&frs).clone();
                        let o = fr.start + r.below(4) as usize; let bit = r.below(8) as u8; b[o] ^= 1 << bit; format!("flip len-field {}:{}", o, bit)
                    }
                    2 => { b.extend((0..r.range(1, 12)).map(|_| r.below(256) as u8)); "append garbage".to_string() }
                    _ => { if b.is_empty() { continue } let o = r.below(b.len() as u64) as usize; let bit = r.below(8) as u8; b[o] ^= 1 << bit; format!("flip {}:{}", o, bit) }
                };
                variants.push((what, b));
            }
            for (what, b) in variants {
                let path = tmp.join("f.bin");
                std::fs::write(&path, &b).unwrap();
                if name.ends_with(".wal") {
                    // independent frame walk to tell Coq which payloads bincode accepts
                    let mut good: Vec<Vec<u8>> = vec![];
                    // (payload bytes, canonical rendering of the entry) in file order; metadata is a
                    // HashMap, so re-serialising a returned entry would not reproduce the bytes
                    let canon = |e: &WalEntry| serde_json::to_string(&serde_json::to_value(e).unwrap_or(json!(null))).unwrap_or_default();
                    let mut in_order: Vec<(Vec<u8>, String)> = vec![];
                    for fr in wal_frames(&b) {
                        let p = &b[fr.start + 4..fr.end - 4];
                        if let Ok(e) = bincode::deserialize::<WalEntry>(p) {
                            in_order.push((p.to_vec(), canon(&e)));
                            if !good.iter().any(|g| g == p) { good.push(p.to_vec()) }
                        }
                    }
                    let obs = match WalReader::open(&path) {
                        Err(_) => "None".to_string(),
                        Ok(mut rd) => match rd.read_all() {
                            Err(_) => continue,
                            Ok(es) => {
                                let mut pos = 0usize;
                                let mut outp: Vec<String> = vec![];
                                for e in &es {
                                    let c = canon(e);
                                    match in_order[pos.min(in_order.len())..].iter().position(|(_, k)| *k == c) {
                                        Some(off) => { outp.push(fmt_bytes(&in_order[pos + off].0)); pos += off + 1 }
                                        None => outp.push("[999]".to_string()), // an entry no frame of the file explains
                                    }
                                }
                                format!("(Some ([{}], {}%N))", outp.join("; "), rd.corrupted_entries())
                            }
                        },
                    };
                    cases.push(format!("CWal {} [{}] {}", fmt_bytes(&b), good.iter().map(|g| fmt_bytes(g)).collect::<Vec<_>>().join("; "), obs));
                    if samples.len() < 3 { samples.push(json!({"file": name, "kind": "wal", "mutation": what, "len": b.len(), "observed": obs.chars().take(80).collect::<String>()})) }
                } else {
                    // snapshot envelope only: does the file pass magic/size/checksum? (bincode of the
                    // payload is outside the model; a load that fails AFTER the checksum is skipped)
                    // a damaged size field makes Snapshot::load allocate `size` bytes up front; beyond
                    // 16 MiB we do not call it (the process would abort = refuses to start) and record
                    // the refusal directly
                    let huge = b.len() >= 12 && u64::from_le_bytes(b[4..12].try_into().unwrap()) > (1 << 24);
                    let ok = if huge { false } else { Snapshot::load(&path).is_ok() };
                    let env_ok = b.len() >= 16 && {
                        let size = u64::from_le_bytes(b[4..12].try_into().unwrap()) as usize;
                        b[0..4] == [0x50, 0x41, 0x4e, 0x53] && b.len() >= 16usize.saturating_add(size) && size < (1 << 30) && {
                            let data = &b[12..12 + size];
                            let ck = u32::from_le_bytes(b[12 + size..16 + size].try_into().unwrap());
                            crc32fast_hash(data) == ck
                        }
                    };
                    if env_ok && !ok { continue }
                    cases.push(format!("CSnap {} {}", fmt_bytes(&b), if ok { "true" } else { "false" }));
                    if samples.len() < 3 { samples.push(json!({"file": name, "kind": "snapshot", "mutation": what, "len": b.len(), "loads": ok})) }
                }
            }
        }
    }
    let shard = 60usize;
    let mut k = 0;
    for ch in cases.chunks(shard) {
        let body: Vec<String> = ch.iter().enumerate().map(|(i, c)| format!("({}%N, {})", k * shard + i, c)).collect();
        let text = format!("From Coq Require Import List NArith Bool.\nFrom Kyro Require Import Model.WalBytes Proofs.WalBytesProofs.\nImport ListNotations.\nOpen Scope N_scope.\nInductive rcase := CWal (file : bytes) (good : list bytes) (ob : option (list bytes * N)) | CSnap (file : bytes) (loads : bool).\nDefinition ok (c : rcase) : bool := match c with\n | CWal f good ob => obs_eqb (read_all crc32m (fun p => mem_bytes p good) f) ob\n | CSnap f loads => Bool.eqb (match snapshot_load crc32m f with Some _ => true | None => false end) loads end.\nDefinition cases : list (N * rcase) := [\n {}\n].\nDefinition bad : list N := map fst (filter (fun c => negb (ok (snd c))) cases).\nGoal True. idtac \"@@bad\". Abort.\nEval vm_compute in bad.\nGoal True. idtac \"@@count\". Abort.\nEval vm_compute in (N.of_nat (length cases)).\n", body.join(";\n "));
        std::fs::write(out.join(format!("cases_{}.v", k)), text).unwrap();
        k += 1;
    }
    let _ = std::fs::remove_dir_all(&tmp);
    (cases.len(), samples)
}

fn crc32fast_hash(b: &[u8]) -> u32 {
    // plain bitwise CRC-32 (IEEE), independent of the engine's crc32fast
    let mut c: u32 = 0xFFFF_FFFF;
    for &x in b { c ^= x as u32; for _ in 0..8 { c = if c & 1 != 0 { (c >> 1) ^ 0xEDB8_8320 } else { c >> 1 } } }
    c ^ 0xFFFF_FFFF
}

fn kind_of(f: &str) -> &'static str { if f.ends_with(".wal") { "wal" } else if f.ends_with(".snap") { "snapshot" } else if f == "MANIFEST" { "manifest" } else { "other" } }

fn main() {
    let args: Vec<String> = std::env::args().collect();
    if args.len() >= 3 && args[1] == "worker" { worker(&args[2]); return }
    let mut out = String::from("/verif/.cache/run/C13");
    let mut n = 4usize;
    let mut tier = String::from("quick");
    let mut replay: Option<String> = None;
    let mut i = 1;
    while i < args.len() {
        match args[i].as_str() {
            "--out" => { out = args[i + 1].clone(); i += 1 }
            "--n" => { n = args[i + 1].parse().unwrap(); i += 1 }
            "--tier" => { tier = args[i + 1].clone(); i += 1 }
            "--replay" => { replay = Some(args[i + 1].clone()); i += 1 }
            _ => {}
        }
        i += 1;
    }
    let work = PathBuf::from(&out);
    std::fs::create_dir_all(&work).unwrap();
    let mut jobs: Vec<(History, Option<Damage>)> = vec![];
    if let Some(p) = &replay {
        let v: serde_json::Value = serde_json::from_str(&std::fs::read_to_string(p).unwrap()).unwrap();
        let h: History = serde_json::from_value(v["history"].clone()).unwrap();
        let d: Option<Damage> = serde_json::from_value(v["damage"].clone()).ok();
        jobs.push((h, d));
    } else {
        let mut rng = Rng::from_env();
        for k in 0..n {
            let mut r = rng.fork(k as u64);
            let mut cfg = gen_cfg(&mut r, "never");
            // directories with several snapshots and rotated / compacted segments
            cfg.max_wal_bytes = *r.pick(&[1u64, 150, 300]);
            cfg.snapshot_interval = *r.pick(&[2usize, 3, 4, 0]);
            cfg.capacity = 64;
            let p = GenParams { max_ops: if tier == "thorough" { 24 } else { 16 }, ids: 7, ..Default::default() };
            let mut h = gen_history(&mut r, cfg, &p);
            // make sure there is something to lose
            if h.ops.len() < 8 { let extra = gen_history(&mut r, h.cfg.clone(), &p); h.ops.extend(extra.ops) }
            jobs.push((h, None));
        }
    }
    let results: Mutex<Vec<(usize, DirResult)>> = Mutex::new(vec![]);
    let next = std::sync::atomic::AtomicUsize::new(0);
    let seed = Rng::from_env().next_u64();
    std::thread::scope(|s| {
        for _ in 0..16.min(jobs.len().max(1)) {
            s.spawn(|| loop {
                let j = next.fetch_add(1, std::sync::atomic::Ordering::SeqCst);
                if j >= jobs.len() { break }
                let mut r = Rng::new(seed ^ (j as u64 + 1));
                let res = check_dir(&jobs[j].0, &work, &format!("d{}", j), &tier, &mut r, jobs[j].1.as_ref());
                results.lock().unwrap().push((j, res));
            });
        }
    });
    let mut results = results.into_inner().unwrap();
    results.sort_by_key(|x| x.0);
    // reader-level correspondence cases from fresh directories of the same histories
    let mut files_list: Vec<Files> = vec![];
    for (j, (h, _)) in jobs.iter().enumerate().take(6) {
        let base = work.join(format!("r{}_base", j));
        let _ = std::fs::remove_dir_all(&base);
        std::fs::create_dir_all(&base).unwrap();
        { let mut be = eng::start(&h.cfg, &base).ok(); for op in &h.ops { let _ = eng::apply(&mut be, &h.cfg, &base, op); } }
        files_list.push(read_dir(&base));
        let _ = std::fs::remove_dir_all(&base);
    }
    for f in std::fs::read_dir(&work).unwrap().flatten() { if f.file_name().to_string_lossy().starts_with("cases_") { let _ = std::fs::remove_file(f.path()); } }
    let mut rr = Rng::new(seed ^ 0xC13);
    let (reader_n, reader_samples) = reader_cases(&files_list, &mut rr, &work, if tier == "thorough" { 40 } else { 8 });
    let mut fails = vec![];
    let (mut damages, mut refused, mut exact, mut changed, mut files, mut aborted) = (0u64, 0u64, 0u64, 0u64, 0usize, 0u64);
    let mut kinds: BTreeMap<String, u64> = BTreeMap::new();
    for (j, r) in results {
        damages += r.damages; aborted += r.aborted; refused += r.refused; exact += r.exact; changed += r.changed_parse; files += r.files;
        for (k, v) in r.kinds { *kinds.entry(k).or_insert(0) += v }
        for mut f in r.fails { f["dir_index"] = json!(j); fails.push(f) }
    }
    let summary = json!({"directories": jobs.len(), "files": files, "damages": damages, "refused": refused, "of_which_process_aborts": aborted, "recovered_exact": exact,
        "damages_that_changed_the_parse": changed, "damage_kinds": kinds, "failures": fails.len(),
        "reader_cases": reader_n, "reader_samples": reader_samples,
        "samples": jobs.iter().take(1).map(|j| &j.0).collect::<Vec<_>>()});
    std::fs::write(work.join("summary.json"), serde_json::to_string_pretty(&summary).unwrap()).unwrap();
    std::fs::write(work.join("failures.json"), serde_json::to_string(&fails).unwrap()).unwrap();
    println!("c13: {} dirs, {} damages, {} refused, {} exact, {} failures", jobs.len(), damages, refused, exact, fails.len());
}
