//! C19 correspondence + oracle driver: RateLimiter under the H1 mock clock.
//! usage: c19 --out DIR --n N [--replay FILE]
use kvh::coqfmt as cf;
use kvh::rng::Rng;
use kyrodb_engine::rate_limiter::{verif_clock, RateLimiter};
use serde_json::json;
use std::fmt::Write as _;

#[derive(Clone, Debug)]
enum Op {
    Advance(u64), // ticks of 1/512 s
    Check(u64),   // tenant index
    Avail(u64),
}
#[derive(Clone, Debug)]
enum Obs {
    None,
    Bool(bool),
    Tokens(Option<f64>),
}
#[derive(Clone, Debug)]
struct Case {
    global: Option<u32>,
    qps: Vec<u32>, // per tenant index
    ops: Vec<Op>,
}

const TICK_NANOS: u64 = 1_953_125; // 1/512 s, exactly representable after as_secs_f64()

fn gen_case(r: &mut Rng) -> Case {
    let qps_pool = [1u32, 1, 2, 3, 5, 8, 64, 1000];
    let nt = r.range(1, 3) as usize;
    let qps: Vec<u32> = (0..nt).map(|_| *r.pick(&qps_pool)).collect();
    let global = if r.chance(2, 3) { Some(*r.pick(&[1u32, 2, 4, 16])) } else { None };
    let n = r.range(4, 40) as usize;
    let mut ops = vec![];
    for _ in 0..n {
        let t = r.below(nt as u64);
        match r.below(10) {
            0..=5 => ops.push(Op::Check(t)),
            6..=7 => {
                // dt near the refill boundary of the tenant: 1/qps seconds is 512/qps ticks
                let q = qps[t as usize] as u64;
                let base = 512 / q.max(1);
                let dt = match r.below(5) {
                    0 => 1,
                    1 => base.max(1),
                    2 => base.saturating_sub(1).max(1),
                    3 => base + 1,
                    _ => r.range(1, 2048),
                };
                ops.push(Op::Advance(dt));
            }
            _ => ops.push(Op::Avail(t)),
        }
    }
    Case { global, qps, ops }
}

fn run_impl(c: &Case) -> Vec<Obs> {
    kvh::panicrec::set_input_debug(c);
    let lim = RateLimiter::new_with_global(c.global);
    let mut out = vec![];
    for op in &c.ops {
        match op {
            Op::Advance(k) => {
                verif_clock::advance_nanos(k * TICK_NANOS);
                out.push(Obs::None);
            }
            Op::Check(t) => out.push(Obs::Bool(lim.check_limit(&format!("t{}", t), c.qps[*t as usize]))),
            Op::Avail(t) => out.push(Obs::Tokens(lim.available_tokens(&format!("t{}", t)))),
        }
    }
    out
}

/// The property stated over implementation observations only (sequential runs, so no call is in
/// flight at any interval boundary): for every tenant and every window of its check calls,
/// admitted <= cap + rate * elapsed; same for the global bucket; a refusal by the global bucket
/// leaves the tenant's tokens unchanged; without a global limit a tenant holding >= 1 token is admitted.
fn oracle(c: &Case, obs: &[Obs]) -> Option<String> {
    let mut time = vec![0u64; c.ops.len()];
    let mut t = 0u64;
    for (i, op) in c.ops.iter().enumerate() {
        if let Op::Advance(k) = op {
            t += k;
        }
        time[i] = t;
    }
    // windows per tenant
    let nt = c.qps.len();
    for tenant in 0..=nt {
        // tenant == nt means "global"
        let (cap, idxs): (u64, Vec<usize>) = if tenant == nt {
            match c.global {
                None => continue,
                Some(g) => (g as u64, (0..c.ops.len()).filter(|&i| matches!(c.ops[i], Op::Check(_))).collect()),
            }
        } else {
            (
                c.qps[tenant] as u64,
                (0..c.ops.len()).filter(|&i| matches!(c.ops[i], Op::Check(x) if x as usize == tenant)).collect(),
            )
        };
        for a in 0..idxs.len() {
            let mut admitted = 0u64;
            for b in a..idxs.len() {
                if matches!(obs[idxs[b]], Obs::Bool(true)) {
                    admitted += 1;
                }
                let dt = time[idxs[b]] - time[idxs[a]];
                // admitted <= cap + cap*dt/512  <=>  512*admitted <= 512*cap + cap*dt
                if 512 * admitted > 512 * cap + cap * dt {
                    return Some(format!(
                        "bound exceeded for {} in ops[{}..={}]: admitted={} cap=rate={} elapsed_ticks={}",
                        if tenant == nt { "global".to_string() } else { format!("tenant {}", tenant) },
                        idxs[a], idxs[b], admitted, cap, dt
                    ));
                }
            }
        }
    }
    for i in 0..c.ops.len() {
        if let (Op::Avail(t0), Obs::Tokens(Some(before))) = (&c.ops[i], &obs[i]) {
            if i + 1 < c.ops.len() {
                if let (Op::Check(t1), Obs::Bool(res)) = (&c.ops[i + 1], &obs[i + 1]) {
                    if t0 == t1 && *before >= 1.0 {
                        if c.global.is_none() && !*res {
                            return Some(format!("tenant {} refused at op {} with {} tokens and no global limit", t0, i + 1, before));
                        }
                        if !*res && i + 2 < c.ops.len() {
                            if let (Op::Avail(t2), Obs::Tokens(Some(after))) = (&c.ops[i + 2], &obs[i + 2]) {
                                if t2 == t0 && after != before {
                                    return Some(format!(
                                        "global refusal at op {} changed tenant {} tokens {} -> {}",
                                        i + 1, t0, before, after
                                    ));
                                }
                            }
                        }
                    }
                }
            }
        }
    }
    None
}

fn case_json(c: &Case, obs: &[Obs]) -> serde_json::Value {
    json!({
        "global": c.global, "qps": c.qps,
        "ops": c.ops.iter().map(|o| match o { Op::Advance(k) => format!("advance {}/512s", k), Op::Check(t) => format!("check t{}", t), Op::Avail(t) => format!("avail t{}", t) }).collect::<Vec<_>>(),
        "ops_raw": c.ops.iter().map(|o| match o { Op::Advance(k) => json!(["A", k]), Op::Check(t) => json!(["C", t]), Op::Avail(t) => json!(["V", t]) }).collect::<Vec<_>>(),
        "obs": obs.iter().map(|o| match o { Obs::None => json!(null), Obs::Bool(b) => json!(b), Obs::Tokens(t) => json!(t) }).collect::<Vec<_>>(),
    })
}

fn case_from_json(v: &serde_json::Value) -> Case {
    let global = v["global"].as_u64().map(|x| x as u32);
    let qps = v["qps"].as_array().unwrap().iter().map(|x| x.as_u64().unwrap() as u32).collect();
    let ops = v["ops_raw"].as_array().unwrap().iter().map(|o| {
        let k = o[1].as_u64().unwrap();
        match o[0].as_str().unwrap() { "A" => Op::Advance(k), "C" => Op::Check(k), _ => Op::Avail(k) }
    }).collect();
    Case { global, qps, ops }
}

fn coq_case(id: usize, c: &Case, obs: &[Obs]) -> String {
    let ops: Vec<String> = c.ops.iter().map(|o| match o {
        Op::Advance(k) => format!("OAdvance ({} # 512)", k),
        Op::Check(t) => format!("OCheck {} {}", cf::n(*t), cf::n(c.qps[*t as usize] as u64)),
        Op::Avail(t) => format!("OAvail {}", cf::n(*t)),
    }).collect();
    let ob: Vec<String> = obs.iter().map(|o| match o {
        Obs::None => "BNone".to_string(),
        Obs::Bool(b) => format!("BBool {}", cf::b(*b)),
        Obs::Tokens(None) => "BTokens None".to_string(),
        Obs::Tokens(Some(q)) => format!("BTokens (Some {})", cf::f64_q(*q)),
    }).collect();
    format!(
        "({}, {}, [{}], [{}])",
        cf::n(id as u64),
        match c.global { None => "None".to_string(), Some(g) => format!("(Some {})", cf::n(g as u64)) },
        ops.join("; "),
        ob.join("; ")
    )
}

/// Real concurrency with the clock FROZEN (hook H1: nobody advances it during a round): N threads
/// released by a barrier hit one limiter; because no time passes, the bound is exact:
/// admitted(tenant) <= qps and admitted(all) <= global. Exercises first contact of a fresh tenant
/// (bucket creation under the write lock) and steady state. Returns (rounds, failures).
fn concurrent_stream(rounds: usize, seed: u64) -> (usize, Vec<serde_json::Value>) {
    use std::sync::{Arc, Barrier};
    let mut r = Rng::new(seed ^ 0xC0_19);
    let mut fails = vec![];
    for round in 0..rounds {
        let threads = *r.pick(&[2usize, 4, 8, 8]);
        let calls = *r.pick(&[1usize, 1, 2, 4]);
        let qps = *r.pick(&[1u32, 1, 2, 3, 5]);
        let global = if r.chance(1, 3) { Some(*r.pick(&[1u32, 2, 4])) } else { None };
        let tenants = if r.chance(1, 4) { 2usize } else { 1 };
        let lim = Arc::new(RateLimiter::new_with_global(global));
        // half of the rounds: buckets already exist (steady state); other half: first contact
        let warm = r.chance(1, 2);
        if warm {
            for t in 0..tenants { let _ = lim.available_tokens(&format!("r{}t{}", round, t)); }
        }
        let barrier = Arc::new(Barrier::new(threads));
        let mut hs = vec![];
        for th in 0..threads {
            let lim = Arc::clone(&lim);
            let barrier = Arc::clone(&barrier);
            hs.push(std::thread::spawn(move || {
                barrier.wait();
                let mut adm = vec![0u64; tenants];
                for c in 0..calls {
                    let t = (th + c) % tenants;
                    if lim.check_limit(&format!("r{}t{}", round, t), qps) { adm[t] += 1 }
                }
                adm
            }));
        }
        let mut adm = vec![0u64; tenants];
        for h in hs { let a = h.join().unwrap(); for t in 0..tenants { adm[t] += a[t] } }
        let total: u64 = adm.iter().sum();
        let mut why = None;
        for t in 0..tenants { if adm[t] > qps as u64 { why = Some(format!("tenant {} admitted {} > burst {} with NO time elapsed ({} threads x {} calls, {})", t, adm[t], qps, threads, calls, if warm { "existing bucket" } else { "first contact" })) } }
        if let Some(g) = global { if total > g as u64 { why = Some(format!("total admitted {} > global burst {} with NO time elapsed", total, g)) } }
        if let Some(w) = why {
            fails.push(json!({"id": format!("concurrent-{}", round), "why": w, "case": {"kind": "concurrent", "threads": threads, "calls_per_thread": calls, "qps": qps, "global": global, "tenants": tenants, "warm": warm, "admitted": adm, "rounds": rounds, "seed": seed}}));
        }
    }
    (rounds, fails)
}

fn main() {
    kvh::panicrec::install();
    let args: Vec<String> = std::env::args().collect();
    let mut out = String::from("/tmp");
    let mut n = 300usize;
    let mut replay: Option<String> = None;
    let mut i = 1;
    while i < args.len() {
        match args[i].as_str() {
            "--out" => { out = args[i + 1].clone(); i += 1 }
            "--n" => { n = args[i + 1].parse().unwrap(); i += 1 }
            "--replay" => { replay = Some(args[i + 1].clone()); i += 1 }
            _ => {}
        }
        i += 1;
    }
    std::fs::create_dir_all(&out).unwrap();
    let mut cases: Vec<Case> = vec![];
    if let Some(p) = &replay {
        let v: serde_json::Value = serde_json::from_str(&std::fs::read_to_string(p).unwrap()).unwrap();
        let cv = if v.get("case").is_some() { v["case"].clone() } else { v };
        if cv["kind"] == "concurrent" {
            let (nr, fails) = concurrent_stream(cv["rounds"].as_u64().unwrap_or(600) as usize, cv["seed"].as_u64().unwrap_or(1));
            println!("c19 replay (concurrent): {} rounds, {} failures", nr, fails.len());
            let summary = json!({"cases": 0, "shards": 0, "concurrent_rounds": nr, "oracle_failures": fails, "distinct": 0, "nontrivial": 0, "histogram": {}, "samples": []});
            std::fs::write(format!("{}/summary.json", out), serde_json::to_string_pretty(&summary).unwrap()).unwrap();
            std::fs::write(format!("{}/all_cases.json", out), "[]").unwrap();
            return;
        }
        cases.push(case_from_json(&cv));
    } else {
        // corpus first
        if let Ok(rd) = std::fs::read_dir("/verif/corpus/C19") {
            let mut ps: Vec<_> = rd.filter_map(|e| e.ok()).map(|e| e.path()).collect();
            ps.sort();
            for p in ps {
                if let Ok(s) = std::fs::read_to_string(&p) {
                    if let Ok(v) = serde_json::from_str::<serde_json::Value>(&s) {
                        cases.push(case_from_json(&v));
                    }
                }
            }
        }
        let mut rng = Rng::from_env();
        for k in 0..n {
            let mut r = rng.fork(k as u64);
            cases.push(gen_case(&mut r));
        }
    }
    let mut oracle_fail = vec![];
    let mut samples = vec![];
    let mut all = vec![];
    let (mut n_check, mut n_adm, mut n_ref, mut n_adv, mut n_avail, mut n_glob_refused) = (0u64, 0u64, 0u64, 0u64, 0u64, 0u64);
    let mut distinct = std::collections::HashSet::new();
    let mut nontrivial = 0u64;
    let shard = 100usize;
    let mut shards: Vec<String> = vec![];
    let mut cur = String::new();
    for (id, c) in cases.iter().enumerate() {
        let obs = run_impl(c);
        let mut saw_refusal = false;
        let mut saw_admit_after_refusal = false;
        for (o, b) in c.ops.iter().zip(obs.iter()) {
            match (o, b) {
                (Op::Check(_), Obs::Bool(true)) => { n_check += 1; n_adm += 1; if saw_refusal { saw_admit_after_refusal = true } }
                (Op::Check(_), Obs::Bool(false)) => { n_check += 1; n_ref += 1; saw_refusal = true }
                (Op::Advance(_), _) => n_adv += 1,
                (Op::Avail(_), _) => n_avail += 1,
                _ => {}
            }
        }
        // global refusals (tenant had >= 1 token right before)
        for w in 0..c.ops.len().saturating_sub(1) {
            if let (Op::Avail(a), Obs::Tokens(Some(q)), Op::Check(b), Obs::Bool(false)) = (&c.ops[w], &obs[w], &c.ops[w + 1], &obs[w + 1]) {
                if a == b && *q >= 1.0 { n_glob_refused += 1 }
            }
        }
        let key = format!("{:?}{:?}", c, obs);
        if distinct.insert(key) && saw_admit_after_refusal {
            nontrivial += 1;
        }
        if let Some(why) = oracle(c, &obs) {
            oracle_fail.push(json!({"id": id, "why": why, "case": case_json(c, &obs)}));
        }
        if samples.len() < 3 { samples.push(case_json(c, &obs)); }
        all.push(case_json(c, &obs));
        if id % shard == 0 && !cur.is_empty() {
            shards.push(std::mem::take(&mut cur));
        }
        if !cur.is_empty() { cur.push_str(";\n  "); }
        let _ = write!(cur, "{}", coq_case(id, c, &obs));
    }
    if !cur.is_empty() { shards.push(cur); }
    for (k, body) in shards.iter().enumerate() {
        let text = format!(
            "From Coq Require Import QArith List NArith ZArith Bool.\nFrom Kyro Require Import Model.RateLimit.\nImport ListNotations.\nOpen Scope Q_scope.\nDefinition cases : list (N * option N * list op * list obs) := [\n  {}\n].\nDefinition bad : list N := map (fun c => match c with (id, _, _, _) => id end) (filter (fun c => match c with (_, g, ops, ob) => negb (obs_list_eqb (run (limiter_new g 0) ops) ob) end) cases).\nGoal True. idtac \"@@bad\". Abort.\nEval vm_compute in bad.\nGoal True. idtac \"@@count\". Abort.\nEval vm_compute in (N.of_nat (length cases)).\n",
            body
        );
        std::fs::write(format!("{}/cases_{}.v", out, k), text).unwrap();
    }
    let conc_rounds = if replay.is_some() { 0 } else { (n * 2).max(200) };
    let (conc_n, conc_fails) = concurrent_stream(conc_rounds, Rng::from_env().next_u64());
    for f in conc_fails.into_iter().take(3) { oracle_fail.push(f); }
    let summary = json!({
        "cases": cases.len(), "shards": shards.len(), "concurrent_rounds": conc_n,
        "oracle_failures": oracle_fail,
        "distinct": distinct.len(), "nontrivial": nontrivial,
        "histogram": {"check": n_check, "admitted": n_adm, "refused": n_ref, "refused_by_global_observed": n_glob_refused, "advance": n_adv, "avail": n_avail},
        "samples": samples,
        "clock_offset_nanos": verif_clock::offset_nanos(),
    });
    std::fs::write(format!("{}/summary.json", out), serde_json::to_string_pretty(&summary).unwrap()).unwrap();
    std::fs::write(format!("{}/all_cases.json", out), serde_json::to_string(&all).unwrap()).unwrap();
    println!("c19: {} cases, {} oracle failures", cases.len(), summary["oracle_failures"].as_array().unwrap().len());
}
