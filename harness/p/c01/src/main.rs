//! C01 driver: crash-point and power-loss enumeration on the REAL engine.
//!
//!   c01 child <hist.json> <dir>          run a history under the LD_PRELOAD fsshim (markers per op)
//!   c01 --out DIR --n N [--tier T]       generate histories, trace each once, then materialise every
//!                                        crash / torn / power-loss state from the trace, start the
//!                                        real engine on it (strict recovery) and check the oracle
//!   c01 --out DIR --replay FILE          re-run one recorded failing state
use kvh::rng::Rng;
use kvh_pers::eng;
use kvh_pers::hist::*;
use kvh_pers::shim;
use kvh_pers::vfs::{self, Loss, Trace};
use serde_json::json;
use std::collections::{BTreeMap, HashMap};
use std::path::{Path, PathBuf};
use std::process::Command;
use std::sync::Mutex;

const SHIM: &str = "/verif/shims/fsshim.so";

fn child(hist_path: &str, dir: &str) {
    let h: History = serde_json::from_str(&std::fs::read_to_string(hist_path).unwrap()).unwrap();
    let dirp = Path::new(dir);
    shim::mark("BEGIN start");
    let mut be = match eng::start(&h.cfg, dirp) {
        Ok(b) => Some(b),
        Err(e) => {
            shim::mark(&format!("ACK start {}", json!({"out": Out::Err(format!("{:#}", e))})));
            return;
        }
    };
    shim::mark(&format!("ACK start {}", json!({"out": Out::Ok})));
    for (i, op) in h.ops.iter().enumerate() {
        shim::mark(&format!("BEGIN {}", i));
        let out = eng::apply(&mut be, &h.cfg, dirp, op);
        let stored = match (op, &be) {
            (Op::Insert { id, .. }, Some(b)) | (Op::InsertBits { id, .. }, Some(b)) if eng::is_ok(&out) => b.fetch_document(*id).map(|v| bits(&v)),
            _ => None,
        };
        shim::mark(&format!("ACK {} {}", i, json!({"out": out, "stored": stored})));
    }
    shim::mark("END");
    // no clean shutdown work: drop happens here
}

#[derive(Clone, Debug)]
struct OpSpan {
    begin_after: usize, // effects preceding BEGIN
    ack_after: Option<usize>,
    out: Option<Out>,
    stored: Option<Vec<u32>>,
}

/// index 0 = engine start ("start"), index i+1 = ops[i]
fn spans(t: &Trace, nops: usize) -> Vec<OpSpan> {
    let mut v: Vec<OpSpan> = vec![];
    for m in &t.markers {
        if let Some(rest) = m.text.strip_prefix("BEGIN ") {
            let _ = rest;
            v.push(OpSpan { begin_after: m.after, ack_after: None, out: None, stored: None });
        } else if let Some(rest) = m.text.strip_prefix("ACK ") {
            let js = rest.splitn(2, ' ').nth(1).unwrap_or("{}");
            let val: serde_json::Value = serde_json::from_str(js).unwrap_or(json!({}));
            if let Some(last) = v.last_mut() {
                last.ack_after = Some(m.after);
                last.out = serde_json::from_value(val["out"].clone()).ok();
                last.stored = serde_json::from_value(val["stored"].clone()).ok().flatten();
            }
        }
    }
    let _ = nops;
    v
}

fn run_child(h: &History, work: &Path, tag: &str, crash: Option<String>) -> (PathBuf, Trace) {
    let dir = work.join(format!("{}_data", tag));
    let _ = std::fs::remove_dir_all(&dir);
    std::fs::create_dir_all(&dir).unwrap();
    let hp = work.join(format!("{}_hist.json", tag));
    std::fs::write(&hp, serde_json::to_string(h).unwrap()).unwrap();
    let log = work.join(format!("{}_trace.log", tag));
    let _ = std::fs::remove_file(&log);
    let _ = std::fs::remove_file(format!("{}.data", log.display()));
    let mut cmd = Command::new(std::env::current_exe().unwrap());
    cmd.arg("child").arg(&hp).arg(&dir)
        .env("LD_PRELOAD", SHIM)
        .env("FSSHIM_PREFIX", dir.to_str().unwrap())
        .env("FSSHIM_LOG", log.to_str().unwrap())
        .env("FSSHIM_LOGDATA", "1")
        .env("RUST_LOG", "off")
        .stdout(std::process::Stdio::null())
        .stderr(std::process::Stdio::null());
    if let Some(c) = crash {
        cmd.env("FSSHIM_CRASH", c);
    }
    let _ = cmd.status();
    let t = vfs::parse(&log, dir.to_str().unwrap());
    (dir, t)
}

/// Start the real engine on a materialised directory; Ok(census) or Err(text).
fn recover_census(cfg: &Cfg, dir: &Path) -> Result<Census, String> {
    let r = std::panic::catch_unwind(|| match eng::start(cfg, dir) {
        Ok(b) => Ok(eng::census(&b)),
        Err(e) => Err(format!("{:#}", e)),
    });
    match r {
        Ok(x) => x,
        Err(_) => Err("panic during recovery".into()),
    }
}

fn hash_files(f: &BTreeMap<String, Vec<u8>>) -> u64 {
    use std::hash::{Hash, Hasher};
    let mut h = std::collections::hash_map::DefaultHasher::new();
    f.hash(&mut h);
    h.finish()
}

#[derive(Clone, Debug)]
struct Fail {
    why: String,
    class: Option<String>,
    detail: serde_json::Value,
}

struct HistResult {
    states: u64,
    distinct_states: u64,
    recoveries: u64,
    effects: usize,
    fails: Vec<Fail>,
    kinds: BTreeMap<String, u64>,
    effect_kinds: BTreeMap<String, u64>,
    midop_states: u64,
}

/// Allowed censuses at crash point k: shadow(acked) and shadow(acked + in-flight).
/// Also returns all "partial batch" censuses (for classifying the known batch-delete finding).
fn expectations(h: &History, sp: &[OpSpan], k: usize) -> (Census, Option<Census>, Vec<Census>, Option<usize>) {
    let mut acked = Census::new();
    let mut inflight: Option<usize> = None;
    for (j, s) in sp.iter().enumerate() {
        let done = matches!(s.ack_after, Some(a) if a <= k);
        if j == 0 { if !done && s.begin_after <= k { inflight = Some(0) } continue }
        let op = &h.ops[j - 1];
        if done {
            if s.out.as_ref().map(eng::is_ok).unwrap_or(false) {
                shadow_apply(&mut acked, op, s.stored.clone());
            }
        } else if s.begin_after <= k && inflight.is_none() {
            inflight = Some(j);
        }
    }
    let mut with = None;
    let mut partials = vec![];
    if let Some(j) = inflight {
        if j > 0 {
            let op = &h.ops[j - 1];
            let s = &sp[j];
            // an op that (in the full run) failed leaves nothing; otherwise its effect
            let ok = s.out.as_ref().map(eng::is_ok).unwrap_or(true);
            let mut c = acked.clone();
            if ok { shadow_apply(&mut c, op, s.stored.clone()) }
            with = Some(c);
            if let Op::BatchDelete { ids } = op {
                let mut c2 = acked.clone();
                for id in ids {
                    c2.remove(id);
                    partials.push(c2.clone());
                }
            }
        }
    }
    (acked, with, partials, inflight)
}

fn check_history(h: &History, work: &Path, tag: &str, tier: &str) -> HistResult {
    let (_dir, t) = run_child(h, work, tag, None);
    let sp = spans(&t, h.ops.len());
    let mut res = HistResult { states: 0, distinct_states: 0, recoveries: 0, effects: t.evs.len(), fails: vec![], kinds: BTreeMap::new(), effect_kinds: BTreeMap::new(), midop_states: 0 };
    for e in &t.evs { *res.effect_kinds.entry(e.kind.clone()).or_insert(0) += 1; }
    let full_ok = sp.len() == h.ops.len() + 1 && sp.iter().all(|s| s.ack_after.is_some());
    if !full_ok {
        res.fails.push(Fail { why: "uncrashed run did not complete every operation".into(), class: None, detail: json!({"spans": sp.len(), "ops": h.ops.len()}) });
        return res;
    }
    let always = h.cfg.fsync == "always";
    let mut cache: HashMap<u64, Result<Census, String>> = HashMap::new();
    let scratch = work.join(format!("{}_crash", tag));
    // enumerate
    let mut plans: Vec<(usize, Option<usize>, Loss)> = vec![];
    for k in 0..=t.evs.len() {
        plans.push((k, None, Loss::Kill));
        if always {
            plans.push((k, None, Loss::PowerAll));
            if tier == "thorough" {
                plans.push((k, None, Loss::PowerData));
                plans.push((k, None, Loss::PowerDir));
            }
        }
        if let Some(ev) = t.evs.get(k) {
            if ev.kind == "write" && ev.ret > 1 {
                let len = ev.ret as usize;
                let mut cuts = vec![1usize, len - 1];
                if len > 8 { cuts.push(4); cuts.push(len - 4); cuts.push(len / 2) }
                if tier == "thorough" { for c in [2usize, 3, 5, 8, len.saturating_sub(5), len.saturating_sub(8)] { if c > 0 && c < len { cuts.push(c) } } }
                cuts.sort_unstable(); cuts.dedup();
                for c in cuts { if c > 0 && c < len { plans.push((k, Some(c), Loss::Kill)) } }
            }
        }
    }
    // incremental vfs: plans are ordered by k
    let mut v = vfs::Vfs::default();
    let mut applied = 0usize;
    for (k, torn, loss) in plans {
        while applied < k { v.apply(&t.evs[applied], &t.data, None); applied += 1; }
        let files = match torn {
            None => v.view(loss),
            Some(n) => { let mut v2 = v.clone(); v2.apply(&t.evs[k], &t.data, Some(n)); v2.view(loss) }
        };
        res.states += 1;
        *res.kinds.entry(format!("{:?}{}", loss, if torn.is_some() { "+torn" } else { "" })).or_insert(0) += 1;
        let (acked, with, partials, inflight) = expectations(h, &sp, k);
        if inflight.is_some() { res.midop_states += 1 }
        let key = hash_files(&files);
        let rec = match cache.get(&key) {
            Some(r) => r.clone(),
            None => {
                vfs::materialise(&files, &scratch).unwrap();
                let r = recover_census(&h.cfg, &scratch);
                res.recoveries += 1;
                res.distinct_states += 1;
                cache.insert(key, r.clone());
                r
            }
        };
        let ok = match &rec {
            Ok(c) => *c == acked || with.as_ref().map(|w| c == w).unwrap_or(false),
            Err(_) => false,
        };
        if !ok {
            let infl_op = inflight.and_then(|j| if j > 0 { Some(h.ops[j - 1].clone()) } else { None });
            let mut class = None;
            // --- classification of recorded defect classes (specific input classes only)
            let op_effects: Vec<&vfs::Ev> = match inflight { Some(j) => t.evs[sp[j].begin_after..k.min(t.evs.len())].iter().collect(), None => vec![] };
            match &rec {
                Err(e) if e.contains("required WAL segment missing")
                    && op_effects.iter().any(|e| e.kind == "unlink" && e.path.starts_with("wal_"))
                    && loss == Loss::Kill => class = Some("C01-snapshot-compaction-unlink-before-manifest".to_string()),
                Ok(c) if matches!(infl_op, Some(Op::BatchDelete { .. })) && partials.iter().any(|p| p == c) =>
                    class = Some("C01-batch-delete-partial".to_string()),
                _ => {}
            }
            res.fails.push(Fail {
                why: match &rec { Ok(_) => "recovered collection is neither acked nor acked+in-flight".into(), Err(e) => format!("strict start-up failed: {}", e.chars().take(200).collect::<String>()) },
                class,
                detail: json!({
                    "history": h, "crash_before_effect": k, "torn_bytes": torn, "loss": format!("{:?}", loss),
                    "in_flight": infl_op, "in_flight_index": inflight.map(|j| j as i64 - 1),
                    "effects_of_in_flight_so_far": op_effects.iter().map(|e| format!("{} {}{}", e.kind, e.path, e.path2.as_ref().map(|p| format!(" -> {}", p)).unwrap_or_default())).collect::<Vec<_>>(),
                    "next_effect": t.evs.get(k).map(|e| format!("{} {}", e.kind, e.path)),
                    "expected_acked": acked, "expected_with_in_flight": with,
                    "recovered": match &rec { Ok(c) => json!(c), Err(e) => json!({"error": e}) },
                    "files": files.iter().map(|(n, b)| (n.clone(), b.len())).collect::<BTreeMap<_, _>>(),
                }),
            });
        }
    }
    let _ = std::fs::remove_dir_all(&scratch);
    res
}

fn main() {
    let args: Vec<String> = std::env::args().collect();
    if args.len() >= 4 && args[1] == "child" {
        child(&args[2], &args[3]);
        return;
    }
    let mut out = String::from("/verif/.cache/run/C01");
    let mut n = 6usize;
    let mut tier = String::from("quick");
    let mut replay: Option<String> = None;
    let mut i = 1;
    while i < args.len() {
        match args[i].as_str() {
            "--out" => { out = args[i + 1].clone(); i += 1 }
            "--n" => { n = args[i + 1].parse().unwrap(); i += 1 }
            "--tier" => { tier = args[i + 1].clone(); i += 1 }
            "--replay" => { replay = Some(args[i + 1].clone()); i += 1 }
            _ => {}
        }
        i += 1;
    }
    let work = PathBuf::from(&out);
    std::fs::create_dir_all(&work).unwrap();
    let mut hists: Vec<History> = vec![];
    if let Some(p) = &replay {
        let v: serde_json::Value = serde_json::from_str(&std::fs::read_to_string(p).unwrap()).unwrap();
        let hv = if v.get("detail").is_some() { v["detail"]["history"].clone() } else if v.get("history").is_some() { v["history"].clone() } else { v };
        hists.push(serde_json::from_value(hv).unwrap());
    } else {
        if let Ok(rd) = std::fs::read_dir("/verif/corpus/C01") {
            let mut ps: Vec<_> = rd.filter_map(|e| e.ok()).map(|e| e.path()).collect();
            ps.sort();
            for p in ps {
                if let Ok(s) = std::fs::read_to_string(&p) {
                    if let Ok(h) = serde_json::from_str::<History>(&s) { hists.push(h) }
                }
            }
        }
        let mut rng = Rng::from_env();
        for k in 0..n {
            let mut r = rng.fork(k as u64);
            let fsync = if k % 3 == 2 { "never" } else { "always" };
            let cfg = gen_cfg(&mut r, fsync);
            let p = GenParams { max_ops: if tier == "thorough" { 18 } else { 12 }, ..Default::default() };
            hists.push(gen_history(&mut r, cfg, &p));
        }
    }
    let results: Mutex<Vec<(usize, HistResult)>> = Mutex::new(vec![]);
    let next = std::sync::atomic::AtomicUsize::new(0);
    std::thread::scope(|s| {
        for _ in 0..16.min(hists.len().max(1)) {
            s.spawn(|| loop {
                let j = next.fetch_add(1, std::sync::atomic::Ordering::SeqCst);
                if j >= hists.len() { break }
                let r = check_history(&hists[j], &work, &format!("h{}", j), &tier);
                results.lock().unwrap().push((j, r));
            });
        }
    });
    let mut results = results.into_inner().unwrap();
    results.sort_by_key(|x| x.0);
    let mut fails = vec![];
    let (mut states, mut distinct, mut recov, mut effects, mut midop) = (0u64, 0u64, 0u64, 0usize, 0u64);
    let mut kinds: BTreeMap<String, u64> = BTreeMap::new();
    let mut ekinds: BTreeMap<String, u64> = BTreeMap::new();
    for (j, r) in &results {
        states += r.states; distinct += r.distinct_states; recov += r.recoveries; effects += r.effects; midop += r.midop_states;
        for (k, v) in &r.kinds { *kinds.entry(k.clone()).or_insert(0) += v }
        for (k, v) in &r.effect_kinds { *ekinds.entry(k.clone()).or_insert(0) += v }
        for f in &r.fails {
            fails.push(json!({"history_index": j, "why": f.why, "class": f.class, "detail": f.detail}));
        }
    }
    let mut opk: BTreeMap<String, u64> = BTreeMap::new();
    for h in &hists { for o in &h.ops { let k = match o { Op::Insert{..}|Op::InsertBits{..}=>"insert", Op::Delete{..}=>"delete", Op::BatchDelete{..}=>"batch_delete", Op::UpdateMeta{..}=>"update_metadata", Op::Snapshot=>"snapshot", Op::Restart=>"restart" }; *opk.entry(k.into()).or_insert(0) += 1 } }
    let summary = json!({
        "histories": hists.len(), "effects": effects, "states": states, "distinct_states": distinct,
        "recoveries": recov, "mid_operation_states": midop, "state_kinds": kinds, "effect_kinds": ekinds, "op_kinds": opk,
        "failures": fails.len(),
        "samples": hists.iter().take(2).collect::<Vec<_>>(),
    });
    std::fs::write(work.join("summary.json"), serde_json::to_string_pretty(&summary).unwrap()).unwrap();
    std::fs::write(work.join("failures.json"), serde_json::to_string(&fails).unwrap()).unwrap();
    std::fs::write(work.join("histories.json"), serde_json::to_string(&hists).unwrap()).unwrap();
    println!("c01: {} histories, {} effects, {} states ({} distinct), {} failures", hists.len(), effects, states, distinct, fails.len());
}
