//! C01 driver: crash-point and power-loss enumeration on the REAL engine.
//!
//!   c01 child <hist.json> <dir>          run a history under the LD_PRELOAD fsshim (markers per op)
//!   c01 --out DIR --n N [--tier T]       generate histories, trace each once, then materialise every
//!                                        crash / torn / power-loss state from the trace, start the
//!                                        real engine on it (strict recovery) and check the oracle
//!   c01 --out DIR --replay FILE          re-run one recorded failing state
mod abs;
use kvh::rng::Rng;
use kvh_pers::eng;
use kvh_pers::hist::*;
use kvh_pers::shim;
use kvh_pers::vfs::{self, Loss, Trace};
use serde_json::json;
use std::collections::{BTreeMap, HashMap};
use std::path::{Path, PathBuf};
use std::process::Command;
use std::sync::Mutex;

const SHIM: &str = "/verif/shims/fsshim.so";

fn child(hist_path: &str, dir: &str) {
    let h: History = serde_json::from_str(&std::fs::read_to_string(hist_path).unwrap()).unwrap();
    let dirp = Path::new(dir);
    shim::mark("BEGIN start");
    let mut be = match eng::start(&h.cfg, dirp) {
        Ok(b) => Some(b),
        Err(e) => {
            shim::mark(&format!("ACK start {}", json!({"out": Out::Err(format!("{:#}", e))})));
            return;
        }
    };
    shim::mark(&format!("ACK start {}", json!({"out": Out::Ok})));
    for (i, op) in h.ops.iter().enumerate() {
        shim::mark(&format!("BEGIN {}", i));
        let out = eng::apply(&mut be, &h.cfg, dirp, op);
        let stored = match (op, &be) {
            (Op::Insert { id, .. }, Some(b)) | (Op::InsertBits { id, .. }, Some(b)) if eng::is_ok(&out) => b.fetch_document(*id).map(|v| bits(&v)),
            _ => None,
        };
        shim::mark(&format!("ACK {} {}", i, json!({"out": out, "stored": stored})));
    }
    if let Ok(ms) = std::env::var("C01_IDLE_MS") {
        // directed periodic-fsync scenario: stay idle (engine alive) before the power loss
        std::thread::sleep(std::time::Duration::from_millis(ms.parse().unwrap_or(0)));
    }
    shim::mark("END");
    drop(be);
    // no clean shutdown work: drop happens here
}

#[derive(Clone, Debug)]
struct OpSpan {
    begin_after: usize, // effects preceding BEGIN
    ack_after: Option<usize>,
    out: Option<Out>,
    stored: Option<Vec<u32>>,
}

/// index 0 = engine start ("start"), index i+1 = ops[i]
fn spans(t: &Trace, nops: usize) -> Vec<OpSpan> {
    let mut v: Vec<OpSpan> = vec![];
    for m in &t.markers {
        if let Some(rest) = m.text.strip_prefix("BEGIN ") {
            let _ = rest;
            v.push(OpSpan { begin_after: m.after, ack_after: None, out: None, stored: None });
        } else if let Some(rest) = m.text.strip_prefix("ACK ") {
            let js = rest.splitn(2, ' ').nth(1).unwrap_or("{}");
            let val: serde_json::Value = serde_json::from_str(js).unwrap_or(json!({}));
            if let Some(last) = v.last_mut() {
                last.ack_after = Some(m.after);
                last.out = serde_json::from_value(val["out"].clone()).ok();
                last.stored = serde_json::from_value(val["stored"].clone()).ok().flatten();
            }
        }
    }
    let _ = nops;
    v
}

fn run_child(h: &History, work: &Path, tag: &str, crash: Option<String>) -> (PathBuf, Trace) {
    let dir = work.join(format!("{}_data", tag));
    let _ = std::fs::remove_dir_all(&dir);
    std::fs::create_dir_all(&dir).unwrap();
    let hp = work.join(format!("{}_hist.json", tag));
    std::fs::write(&hp, serde_json::to_string(h).unwrap()).unwrap();
    let log = work.join(format!("{}_trace.log", tag));
    let _ = std::fs::remove_file(&log);
    let _ = std::fs::remove_file(format!("{}.data", log.display()));
    let mut cmd = Command::new(std::env::current_exe().unwrap());
    cmd.arg("child").arg(&hp).arg(&dir)
        .env("LD_PRELOAD", SHIM)
        .env("FSSHIM_PREFIX", dir.to_str().unwrap())
        .env("FSSHIM_LOG", log.to_str().unwrap())
        .env("FSSHIM_LOGDATA", "1")
        .env("RUST_LOG", "off")
        .stdout(std::process::Stdio::null())
        .stderr(std::process::Stdio::null());
    if let Some(c) = crash {
        cmd.env("FSSHIM_CRASH", c);
    }
    let _ = cmd.status();
    let t = vfs::parse(&log, dir.to_str().unwrap());
    (dir, t)
}

/// Start the real engine on a materialised directory; Ok(census) or Err(text).
fn recover_census(cfg: &Cfg, dir: &Path) -> Result<Census, String> {
    let r = std::panic::catch_unwind(|| match eng::start(cfg, dir) {
        Ok(b) => Ok(eng::census(&b)),
        Err(e) => Err(format!("{:#}", e)),
    });
    match r {
        Ok(x) => x,
        Err(_) => Err("panic during recovery".into()),
    }
}


/// After a crash state has been recovered, the engine must keep working: one more acknowledged insert
/// followed by a clean restart must be preserved (this is where "recovery appends behind a torn tail" or
/// "recovery does not list its new segment" would show).  Returns a description of the failure, if any.
fn post_recovery_write_check(cfg: &Cfg, dir: &Path) -> Option<String> {
    let r = std::panic::catch_unwind(|| -> Option<String> {
        let b = match eng::start(cfg, dir) { Ok(b) => b, Err(_) => return None }; // start-up failure is reported by the main oracle
        let before = eng::census(&b);
        let id = 9_999u64;
        let v: Vec<f32> = (0..cfg.dim).map(|i| if i == 0 { 1.0 } else { 0.0 }).collect();
        let mut bo = Some(b);
        let out = eng::apply(&mut bo, cfg, dir, &Op::Insert { id, vec: v, meta: Meta::new() });
        if !eng::is_ok(&out) { return None } // e.g. index full: nothing acknowledged
        let live = eng::census(bo.as_ref().unwrap());
        drop(bo);
        match eng::start(cfg, dir) {
            Err(e) => Some(format!("restart after a post-recovery insert failed: {:#}", e)),
            Ok(b2) => {
                let after = eng::census(&b2);
                if after != live { Some(format!("post-recovery insert not preserved by the next restart: before={:?} live={:?} after={:?}", before.keys().collect::<Vec<_>>(), live.keys().collect::<Vec<_>>(), after.keys().collect::<Vec<_>>())) } else { None }
            }
        }
    });
    r.unwrap_or(Some("panic in post-recovery write check".into()))
}

fn hash_files(f: &BTreeMap<String, Vec<u8>>) -> u64 {
    use std::hash::{Hash, Hasher};
    let mut h = std::collections::hash_map::DefaultHasher::new();
    f.hash(&mut h);
    h.finish()
}

#[derive(Clone, Debug)]
struct Fail {
    why: String,
    class: Option<String>,
    detail: serde_json::Value,
}

struct HistResult {
    states: u64,
    distinct_states: u64,
    recoveries: u64,
    effects: usize,
    fails: Vec<Fail>,
    kinds: BTreeMap<String, u64>,
    effect_kinds: BTreeMap<String, u64>,
    midop_states: u64,
    /// abstracted real effects: [0] = first start-up, [i+1] = ops[i]
    abs_ops: Vec<Vec<abs::AEff>>,
    /// sampled kill crash points: (model effect index, torn, recovered census or error)
    starts: Vec<(usize, bool, Result<Census, String>)>,
    continuations: u64,
}

/// Allowed censuses at crash point k: shadow(acked) and shadow(acked + in-flight).
/// Also returns all "partial batch" censuses (for classifying the known batch-delete finding).
fn expectations(h: &History, sp: &[OpSpan], k: usize) -> (Census, Option<Census>, Vec<Census>, Option<usize>) {
    let mut acked = Census::new();
    let mut inflight: Option<usize> = None;
    for (j, s) in sp.iter().enumerate() {
        let done = matches!(s.ack_after, Some(a) if a <= k);
        if j == 0 { if !done && s.begin_after <= k { inflight = Some(0) } continue }
        let op = &h.ops[j - 1];
        if done {
            if s.out.as_ref().map(eng::is_ok).unwrap_or(false) {
                shadow_apply(&mut acked, op, s.stored.clone());
            }
        } else if s.begin_after <= k && inflight.is_none() {
            inflight = Some(j);
        }
    }
    let mut with = None;
    let mut partials = vec![];
    if let Some(j) = inflight {
        if j > 0 {
            let op = &h.ops[j - 1];
            let s = &sp[j];
            // an op that (in the full run) failed leaves nothing; otherwise its effect
            let ok = s.out.as_ref().map(eng::is_ok).unwrap_or(true);
            let mut c = acked.clone();
            if ok { shadow_apply(&mut c, op, s.stored.clone()) }
            with = Some(c);
            if let Op::BatchDelete { ids } = op {
                let mut c2 = acked.clone();
                for id in ids {
                    c2.remove(id);
                    partials.push(c2.clone());
                }
            }
        }
    }
    (acked, with, partials, inflight)
}

fn check_history(h: &History, work: &Path, tag: &str, tier: &str) -> HistResult {
    let (_dir, t) = run_child(h, work, tag, None);
    let sp = spans(&t, h.ops.len());
    let mut res = HistResult { states: 0, distinct_states: 0, recoveries: 0, effects: t.evs.len(), fails: vec![], kinds: BTreeMap::new(), effect_kinds: BTreeMap::new(), midop_states: 0, abs_ops: vec![], starts: vec![], continuations: 0 };
    for e in &t.evs { *res.effect_kinds.entry(e.kind.clone()).or_insert(0) += 1; }
    let full_ok = sp.len() == h.ops.len() + 1 && sp.iter().all(|s| s.ack_after.is_some());
    if !full_ok {
        res.fails.push(Fail { why: "uncrashed run did not complete every operation".into(), class: None, detail: json!({"spans": sp.len(), "ops": h.ops.len()}) });
        return res;
    }
    let ab = abs::abstract_trace(&t);
    for s in &sp {
        let (b, e) = (s.begin_after, s.ack_after.unwrap_or(t.evs.len()));
        res.abs_ops.push((0..ab.effs.len()).filter(|&j| ab.first_real[j] >= b && ab.first_real[j] < e).map(|j| ab.effs[j].clone()).collect());
    }
    let max_samples = if tier == "thorough" { 60 } else { 24 };
    let always = h.cfg.fsync == "always";
    let mut cache: HashMap<u64, Result<Census, String>> = HashMap::new();
    let scratch = work.join(format!("{}_crash", tag));
    // enumerate
    let mut plans: Vec<(usize, Option<usize>, Loss)> = vec![];
    for k in 0..=t.evs.len() {
        plans.push((k, None, Loss::Kill));
        if always {
            plans.push((k, None, Loss::PowerAll));
            if tier == "thorough" {
                plans.push((k, None, Loss::PowerData));
                plans.push((k, None, Loss::PowerDir));
            }
        }
        if let Some(ev) = t.evs.get(k) {
            if ev.kind == "write" && ev.ret > 1 {
                let len = ev.ret as usize;
                let mut cuts = vec![1usize, len - 1];
                if len > 8 { cuts.push(4); cuts.push(len - 4); cuts.push(len / 2) }
                if tier == "thorough" { for c in [2usize, 3, 5, 8, len.saturating_sub(5), len.saturating_sub(8)] { if c > 0 && c < len { cuts.push(c) } } }
                cuts.sort_unstable(); cuts.dedup();
                for c in cuts { if c > 0 && c < len { plans.push((k, Some(c), Loss::Kill)) } }
            }
        }
    }
    // incremental vfs: plans are ordered by k
    let mut v = vfs::Vfs::default();
    let mut applied = 0usize;
    for (k, torn, loss) in plans {
        while applied < k { v.apply(&t.evs[applied], &t.data, None); applied += 1; }
        let files = match torn {
            None => v.view(loss),
            Some(n) => { let mut v2 = v.clone(); v2.apply(&t.evs[k], &t.data, Some(n)); v2.view(loss) }
        };
        res.states += 1;
        *res.kinds.entry(format!("{:?}{}", loss, if torn.is_some() { "+torn" } else { "" })).or_insert(0) += 1;
        let (acked, with, partials, inflight) = expectations(h, &sp, k);
        if inflight.is_some() { res.midop_states += 1 }
        let key = hash_files(&files);
        let rec = match cache.get(&key) {
            Some(r) => r.clone(),
            None => {
                vfs::materialise(&files, &scratch).unwrap();
                let r = recover_census(&h.cfg, &scratch);
                res.recoveries += 1;
                res.distinct_states += 1;
                cache.insert(key, r.clone());
                r
            }
        };
        if loss == Loss::Kill && res.starts.len() < max_samples && (res.states % 7 == 3 || torn.is_some() && res.states % 5 == 0) {
            let (n, partial) = abs::model_point(&ab, k, torn.is_some());
            res.starts.push((n, partial, rec.clone()));
            // continuation check on the same sampled crash state
            if rec.is_ok() {
                vfs::materialise(&files, &scratch).unwrap();
                res.continuations += 1;
                if let Some(why) = post_recovery_write_check(&h.cfg, &scratch) {
                    res.fails.push(Fail { why, class: None, detail: json!({"history": h, "crash_before_effect": k, "torn_bytes": torn, "loss": "Kill", "check": "post-recovery insert + restart"}) });
                }
            }
        }
        let ok = match &rec {
            Ok(c) => *c == acked || with.as_ref().map(|w| c == w).unwrap_or(false),
            Err(_) => false,
        };
        if !ok {
            let infl_op = inflight.and_then(|j| if j > 0 { Some(h.ops[j - 1].clone()) } else { None });
            let mut class = None;
            // --- classification of recorded defect classes (specific input classes only)
            let op_effects: Vec<&vfs::Ev> = match inflight { Some(j) => t.evs[sp[j].begin_after..k.min(t.evs.len())].iter().collect(), None => vec![] };
            match &rec {
                Err(e) if e.contains("required WAL segment missing")
                    && op_effects.iter().any(|e| e.kind == "unlink" && e.path.starts_with("wal_"))
                    && loss == Loss::Kill => class = Some("C01-snapshot-compaction-unlink-before-manifest".to_string()),
                Ok(c) if matches!(infl_op, Some(Op::BatchDelete { .. })) && partials.iter().any(|p| p == c) =>
                    class = Some("C01-batch-delete-partial".to_string()),
                _ => {}
            }
            res.fails.push(Fail {
                why: match &rec { Ok(_) => "recovered collection is neither acked nor acked+in-flight".into(), Err(e) => format!("strict start-up failed: {}", e.chars().take(200).collect::<String>()) },
                class,
                detail: json!({
                    "history": h, "crash_before_effect": k, "torn_bytes": torn, "loss": format!("{:?}", loss),
                    "in_flight": infl_op, "in_flight_index": inflight.map(|j| j as i64 - 1),
                    "effects_of_in_flight_so_far": op_effects.iter().map(|e| format!("{} {}{}", e.kind, e.path, e.path2.as_ref().map(|p| format!(" -> {}", p)).unwrap_or_default())).collect::<Vec<_>>(),
                    "next_effect": t.evs.get(k).map(|e| format!("{} {}", e.kind, e.path)),
                    "expected_acked": acked, "expected_with_in_flight": with,
                    "recovered": match &rec { Ok(c) => json!(c), Err(e) => json!({"error": e}) },
                    "files": files.iter().map(|(n, b)| (n.clone(), b.len())).collect::<BTreeMap<_, _>>(),
                }),
            });
        }
    }
    let _ = std::fs::remove_dir_all(&scratch);
    res
}


// ------------------------------------------------------------------------------------------------
// Correspondence with Model/Backend.v + Model/Crash.v (evaluated by coqc): per history the REAL effect
// sequence of every operation, and sampled real start-ups on crash states
// ------------------------------------------------------------------------------------------------

fn coq_meta(m: &Meta, it: &mut kvh_c02lib::Intern) -> String {
    let v: kvh_c02lib::Meta = m.iter().map(|(k, v)| (k.clone(), v.clone())).collect();
    it.meta(&kvh_c02lib::canon_meta(&v))
}

fn coq_history(id: usize, full: bool, h: &History, r: &HistResult, it: &mut kvh_c02lib::Intern) -> String {
    let metric = kvh_c02lib::metric_code(&h.cfg.metric);
    let mut ops = vec![];
    for o in &h.ops {
        ops.push(match o {
            Op::Insert { id, vec, meta } => {
                let b = bits(vec);
                if b.len() == h.cfg.dim { it.note_insert(metric, &b) }
                format!("OInsert {} {} {}", id, it.v(&b), coq_meta(meta, it))
            }
            Op::InsertBits { id, bits: b, meta } => {
                if b.len() == h.cfg.dim { it.note_insert(metric, b) }
                format!("OInsert {} {} {}", id, it.v(b), coq_meta(meta, it))
            }
            Op::Delete { id } => format!("ODelete {}", id),
            Op::BatchDelete { ids } => format!("OBatchDelete [{}]", ids.iter().map(|x| x.to_string()).collect::<Vec<_>>().join("; ")),
            Op::UpdateMeta { id, meta, merge } => format!("OUpdate {} {} {}", id, coq_meta(meta, it), merge),
            Op::Snapshot => "OSnapshot".into(),
            Op::Restart => "ORestart".into(),
        });
    }
    let effs = |l: &Vec<abs::AEff>, it: &mut kvh_c02lib::Intern| format!("[{}]", l.iter().map(|e| abs::coq_eff(e, it)).collect::<Vec<_>>().join("; "));
    let e0 = effs(&r.abs_ops[0], it);
    let eops: Vec<String> = r.abs_ops[1..].iter().map(|l| effs(l, it)).collect();
    let starts: Vec<String> = r.starts.iter().map(|(n, torn, rec)| {
        let cen = match rec {
            Err(_) => "None".to_string(),
            Ok(c) => format!("(Some [{}])", c.iter().map(|(id, (v, m))| format!("({}, D {} {})", id, it.v(v), coq_meta(m, it))).collect::<Vec<_>>().join("; ")),
        };
        format!("({}%nat, {}, {})", n, torn, cen)
    }).collect();
    format!(
        "({}, {}, {},\n   [{}],\n   {},\n   [{}],\n   [{}])",
        id, full,
        it.cfg(metric, h.cfg.dim, h.cfg.snapshot_interval, h.cfg.max_wal_bytes, h.cfg.capacity, &h.cfg.fsync),
        ops.join("; "), e0, eops.join(";\n    "), starts.join("; ")
    )
}

fn coq_cases_file(body: &str, it: &kvh_c02lib::Intern) -> String {
    let mut s = it.prelude("From Coq Require Import List NArith ZArith Bool.\nFrom Kyro Require Import Model.Amap Model.Backend Model.Crash.\nImport ListNotations.\nOpen Scope N_scope.\n");
    s.push_str("Definition chk (h : N * bool * cfg * list op * list eff * list (list eff) * list (nat * bool * option store)) : list (N * N) :=\n  match h with (id, full, c, ops, o0, os, st) =>\n    let '(a, b, k, p) := check_c01 full c ops o0 os st in\n    (match a with Some i => [(id, 1000000 + i)] | None => [] end)\n    ++ map (fun n => (id, 2000000 + N.of_nat n)) b\n    ++ map (fun x : nat * bool => (id, 3000000 + N.of_nat (fst x))) k\n    ++ map (fun x : nat * nat => (id, 4000000 + N.of_nat (fst x))) p\n  end.\n");
    s.push_str("Goal True. idtac \"@@res\". Abort.\n");
    s.push_str(&format!("Eval vm_compute in (let hs : list (N * bool * cfg * list op * list eff * list (list eff) * list (nat * bool * option store)) := [\n  {}\n] in (N.of_nat (length hs), flat_map chk hs)).\n", body));
    s
}

/// Directed scenario for the periodic-fsync clause: Periodic(50 ms), one acknowledged insert, idle for
/// 200 ms, power loss (un-synced bytes and directory changes dropped).  Is the acknowledged write lost?
fn periodic_idle_tail(work: &Path) -> serde_json::Value {
    let cfg = Cfg { dim: 2, metric: "euclidean".into(), capacity: 64, snapshot_interval: 0, max_wal_bytes: 1 << 20, fsync: "periodic:50".into() };
    let mut meta = Meta::new();
    meta.insert("k".into(), "a".into());
    let h = History { cfg: cfg.clone(), ops: vec![Op::Insert { id: 1, vec: vec![1.0, 2.0], meta: meta.clone() }, Op::Insert { id: 2, vec: vec![0.5, 0.25], meta }] };
    let hp = work.join("periodic_hist.json");
    let dir = work.join("periodic_data");
    let _ = std::fs::remove_dir_all(&dir);
    std::fs::create_dir_all(&dir).unwrap();
    std::fs::write(&hp, serde_json::to_string(&h).unwrap()).unwrap();
    let log = work.join("periodic_trace.log");
    let _ = std::fs::remove_file(&log);
    let _ = std::fs::remove_file(format!("{}.data", log.display()));
    let _ = Command::new(std::env::current_exe().unwrap())
        .arg("child").arg(&hp).arg(&dir)
        .env("C01_IDLE_MS", "200")
        .env("LD_PRELOAD", SHIM).env("FSSHIM_PREFIX", dir.to_str().unwrap()).env("FSSHIM_LOG", log.to_str().unwrap())
        .env("FSSHIM_LOGDATA", "1").env("RUST_LOG", "off")
        .stdout(std::process::Stdio::null()).stderr(std::process::Stdio::null()).status();
    let t = vfs::parse(&log, dir.to_str().unwrap());
    let sp = spans(&t, h.ops.len());
    let complete = sp.len() == 3 && sp.iter().all(|s| s.ack_after.is_some());
    let v = vfs::state_at(&t, t.evs.len(), None);
    let scratch = work.join("periodic_crash");
    let mut out = serde_json::Map::new();
    for (name, loss) in [("kill", Loss::Kill), ("power_all", Loss::PowerAll)] {
        vfs::materialise(&v.view(loss), &scratch).unwrap();
        let rec = recover_census(&cfg, &scratch);
        out.insert(name.into(), match rec { Ok(c) => json!({"recovered_ids": c.keys().collect::<Vec<_>>()}), Err(e) => json!({"error": e}) });
    }
    let _ = std::fs::remove_dir_all(&scratch);
    let wal_syncs_after_first_insert = sp.get(1).map(|s| t.evs[s.begin_after..].iter().filter(|e| (e.kind == "fsync" || e.kind == "fdatasync") && e.path.starts_with("wal_")).count()).unwrap_or(0);
    let ids_of = |name: &str| out.get(name).and_then(|x| x.get("recovered_ids")).and_then(|x| x.as_array()).map(|a| a.len());
    // tight classification: the run completed (both inserts acknowledged), the idle gap (200 ms) exceeds the
    // interval (50 ms), the kill view recovers every acknowledged write and the power-loss view does not
    let lost = complete && ids_of("kill") == Some(2) && ids_of("power_all").map(|n| n < 2).unwrap_or(false);
    let other_failure = !complete || ids_of("kill") != Some(2) || ids_of("power_all").is_none();
    json!({
        "scenario": "fsync=Periodic(50ms); insert 1; insert 2 (both acknowledged); idle 200 ms; power loss",
        "complete": complete, "acked_ops": 2, "idle_ms": 200,
        "wal_syncs_issued_after_first_insert": wal_syncs_after_first_insert,
        "views": out, "acked_write_lost_on_power_loss": lost,
        "scenario_itself_failed": other_failure,
        "class": if lost { json!("C01-periodic-idle-tail-never-synced") } else { json!(null) },
    })
}

fn main() {
    let args: Vec<String> = std::env::args().collect();
    if args.len() >= 4 && args[1] == "child" {
        child(&args[2], &args[3]);
        return;
    }
    let mut out = String::from("/verif/.cache/run/C01");
    let mut n = 6usize;
    let mut tier = String::from("quick");
    let mut replay: Option<String> = None;
    let mut i = 1;
    while i < args.len() {
        match args[i].as_str() {
            "--out" => { out = args[i + 1].clone(); i += 1 }
            "--n" => { n = args[i + 1].parse().unwrap(); i += 1 }
            "--tier" => { tier = args[i + 1].clone(); i += 1 }
            "--replay" => { replay = Some(args[i + 1].clone()); i += 1 }
            _ => {}
        }
        i += 1;
    }
    let work = PathBuf::from(&out);
    std::fs::create_dir_all(&work).unwrap();
    let mut hists: Vec<History> = vec![];
    let mut replay_periodic = false;
    if let Some(p) = &replay {
        let v: serde_json::Value = serde_json::from_str(&std::fs::read_to_string(p).unwrap()).unwrap();
        if v.get("detail").and_then(|d| d.get("scenario")).is_some() {
            replay_periodic = true; // the directed periodic-fsync scenario: no history to re-enumerate
        }
        let hv = if replay_periodic { json!(null) } else if v.get("detail").is_some() { v["detail"]["history"].clone() } else if v.get("history").is_some() { v["history"].clone() } else { v };
        if !replay_periodic { hists.push(serde_json::from_value(hv).unwrap()); }
    } else {
        if let Ok(rd) = std::fs::read_dir("/verif/corpus/C01") {
            let mut ps: Vec<_> = rd.filter_map(|e| e.ok()).map(|e| e.path()).collect();
            ps.sort();
            for p in ps {
                if let Ok(s) = std::fs::read_to_string(&p) {
                    if let Ok(h) = serde_json::from_str::<History>(&s) { hists.push(h) }
                }
            }
        }
        let mut rng = Rng::from_env();
        for k in 0..n {
            let mut r = rng.fork(k as u64);
            let fsync = if k % 3 == 2 { "never" } else { "always" };
            let cfg = gen_cfg(&mut r, fsync);
            let p = GenParams { max_ops: if tier == "thorough" { 18 } else { 12 }, ..Default::default() };
            hists.push(gen_history(&mut r, cfg, &p));
        }
    }
    let results: Mutex<Vec<(usize, HistResult)>> = Mutex::new(vec![]);
    let next = std::sync::atomic::AtomicUsize::new(0);
    std::thread::scope(|s| {
        for _ in 0..16.min(hists.len().max(1)) {
            s.spawn(|| loop {
                let j = next.fetch_add(1, std::sync::atomic::Ordering::SeqCst);
                if j >= hists.len() { break }
                let r = check_history(&hists[j], &work, &format!("h{}", j), &tier);
                results.lock().unwrap().push((j, r));
            });
        }
    });
    let mut results = results.into_inner().unwrap();
    results.sort_by_key(|x| x.0);
    let mut fails = vec![];
    let (mut states, mut distinct, mut recov, mut effects, mut midop) = (0u64, 0u64, 0u64, 0usize, 0u64);
    let mut kinds: BTreeMap<String, u64> = BTreeMap::new();
    let mut ekinds: BTreeMap<String, u64> = BTreeMap::new();
    for (j, r) in &results {
        states += r.states; distinct += r.distinct_states; recov += r.recoveries; effects += r.effects; midop += r.midop_states;
        for (k, v) in &r.kinds { *kinds.entry(k.clone()).or_insert(0) += v }
        for (k, v) in &r.effect_kinds { *ekinds.entry(k.clone()).or_insert(0) += v }
        for f in &r.fails {
            fails.push(json!({"history_index": j, "why": f.why, "class": f.class, "detail": f.detail}));
        }
    }
    let mut opk: BTreeMap<String, u64> = BTreeMap::new();
    for h in &hists { for o in &h.ops { let k = match o { Op::Insert{..}|Op::InsertBits{..}=>"insert", Op::Delete{..}=>"delete", Op::BatchDelete{..}=>"batch_delete", Op::UpdateMeta{..}=>"update_metadata", Op::Snapshot=>"snapshot", Op::Restart=>"restart" }; *opk.entry(k.into()).or_insert(0) += 1 } }
    // Coq cases (5 histories per shard)
    let mut it = kvh_c02lib::Intern::default();
    let mut bodies: Vec<Vec<String>> = vec![];
    let mut coq_histories = 0usize;
    let mut coq_oracle_histories = 0usize;
    let mut start_samples = 0usize;
    let mut ops_compared = 0usize;
    for (j, r) in &results {
        if r.abs_ops.len() != hists[*j].ops.len() + 1 { continue }
        if coq_histories % 5 == 0 { bodies.push(vec![]) }
        // the model's own oracles at every crash index are quadratic: 2 of 5 histories per shard in the quick tier
        let full = tier == "thorough" || coq_histories % 5 < 2;
        if full { coq_oracle_histories += 1 }
        bodies.last_mut().unwrap().push(coq_history(*j, full, &hists[*j], r, &mut it));
        coq_histories += 1;
        start_samples += r.starts.len();
        ops_compared += r.abs_ops.len();
    }
    let mut k = 0;
    while work.join(format!("cases_{}.v", k)).exists() { let _ = std::fs::remove_file(work.join(format!("cases_{}.v", k))); k += 1 }
    for (k, b) in bodies.iter().enumerate() {
        std::fs::write(work.join(format!("cases_{}.v", k)), coq_cases_file(&b.join(";\n  "), &it)).unwrap();
    }
    let periodic = if replay.is_none() || replay_periodic { periodic_idle_tail(&work) } else { json!(null) };
    if periodic.get("acked_write_lost_on_power_loss").and_then(|x| x.as_bool()).unwrap_or(false)
        || periodic.get("scenario_itself_failed").and_then(|x| x.as_bool()).unwrap_or(false) {
        fails.push(json!({
            "history_index": null,
            "why": "periodic fsync: a write acknowledged 200 ms (4 flush intervals) before a power loss is lost - nothing syncs an idle WAL tail",
            "class": periodic["class"], "detail": periodic,
        }));
    }
    let summary = json!({
        "post_recovery_write_checks": results.iter().map(|(_, r)| r.continuations).sum::<u64>(),
        "coq_shards": bodies.len(), "coq_histories": coq_histories, "coq_model_oracle_histories": coq_oracle_histories, "coq_start_samples": start_samples,
        "coq_op_effect_lists_compared": ops_compared,
        "norm_idem_checked": it.idem_checked, "norm_idem_failures": it.idem_failed,
        "periodic_idle_tail": periodic,
        "histories": hists.len(), "effects": effects, "states": states, "distinct_states": distinct,
        "recoveries": recov, "mid_operation_states": midop, "state_kinds": kinds, "effect_kinds": ekinds, "op_kinds": opk,
        "failures": fails.len(),
        "samples": hists.iter().take(2).collect::<Vec<_>>(),
    });
    std::fs::write(work.join("summary.json"), serde_json::to_string_pretty(&summary).unwrap()).unwrap();
    std::fs::write(work.join("failures.json"), serde_json::to_string(&fails).unwrap()).unwrap();
    std::fs::write(work.join("histories.json"), serde_json::to_string(&hists).unwrap()).unwrap();
    println!("c01: {} histories, {} effects, {} states ({} distinct), {} failures", hists.len(), effects, states, distinct, fails.len());
}
