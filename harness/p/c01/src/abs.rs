//! Abstraction of an fsshim trace into the effect language of coq/Model/Backend.v (`eff`), so that the
//! REAL effect sequence of every operation can be compared, inside coqc, with the model's `step`.
//!  * files are renamed by the model's own rule: a new numeric file id becomes 1 + the largest model id
//!    present in the directory (MANIFEST / MANIFEST.tmp carry no id; snapshot_N.tmp and snapshot_N.snap share one);
//!  * kinds: create(trunc?) / append / fsync / fdatasync / rename / unlink / fsyncdir / write-file;
//!  * consecutive writes to one temp file are collapsed into one write-file effect whose content is decoded
//!    with the engine's own types (Manifest JSON, Snapshot envelope + bincode);
//!  * WAL writes are decoded to the 4-byte magic or to one frame (bincode `WalEntry`).
use kvh_c02lib::{bits, canon_meta, Intern, Meta};
use kvh_pers::vfs::Trace;
use kyrodb_engine::{Manifest, Snapshot, WalEntry, WalOp};
use std::collections::{BTreeMap, HashMap};

#[derive(Clone, Debug, PartialEq)]
pub enum AName {
    Manifest,
    ManifestTmp,
    Wal(u64),
    Snap(u64),
    SnapTmp(u64),
    Other(String),
}

#[derive(Clone, Debug)]
pub struct AEntry {
    pub op: u8, // 0 Ins 1 Del 2 Upd
    pub id: u64,
    pub vec: Vec<u32>,
    pub meta: Meta,
    pub seq: u64,
}

#[derive(Clone, Debug)]
pub enum AEff {
    Create(AName, bool),
    Header(AName),
    Frame(AName, AEntry),
    RawAppend(AName),
    Fsync(AName),
    FsyncData(AName),
    FsyncDir,
    Rename(AName, AName),
    Unlink(AName),
    Trunc(AName),
    WriteManifest(AName, Option<(Option<AName>, Option<u64>, Vec<AName>)>),
    WriteSnap(AName, Option<(usize, u8, Vec<(u64, Vec<u32>, Meta)>, u64)>),
    WriteOther(AName),
}

#[derive(Default)]
pub struct Abs {
    pub effs: Vec<AEff>,
    pub first_real: Vec<usize>,
    pub last_real: Vec<usize>,
}

enum Raw {
    Manifest,
    ManifestTmp,
    Wal(u64),
    Snap(u64),
    SnapTmp(u64),
    Dir,
    Other,
}

fn classify(path: &str) -> Raw {
    if path.is_empty() {
        return Raw::Dir;
    }
    if path == "MANIFEST" {
        return Raw::Manifest;
    }
    if path == "MANIFEST.tmp" {
        return Raw::ManifestTmp;
    }
    if let Some(r) = path.strip_prefix("wal_").and_then(|r| r.strip_suffix(".wal")) {
        if let Ok(n) = r.parse::<u64>() {
            return Raw::Wal(n);
        }
    }
    if let Some(r) = path.strip_prefix("snapshot_") {
        if let Some(n) = r.strip_suffix(".snap").and_then(|x| x.parse::<u64>().ok()) {
            return Raw::Snap(n);
        }
        if let Some(n) = r.strip_suffix(".tmp").and_then(|x| x.parse::<u64>().ok()) {
            return Raw::SnapTmp(n);
        }
    }
    Raw::Other
}

struct Namer {
    idmap: HashMap<u64, u64>,
    present: BTreeMap<String, u64>, // real name -> model id (0 for id-less names)
}

impl Namer {
    fn id_of(&mut self, real: u64, creating: bool) -> u64 {
        if let Some(x) = self.idmap.get(&real) {
            return *x;
        }
        let _ = creating;
        let m = 1 + self.present.values().copied().max().unwrap_or(0);
        self.idmap.insert(real, m);
        m
    }
    fn name(&mut self, path: &str, creating: bool) -> AName {
        match classify(path) {
            Raw::Manifest => AName::Manifest,
            Raw::ManifestTmp => AName::ManifestTmp,
            Raw::Wal(n) => AName::Wal(self.id_of(n, creating)),
            Raw::Snap(n) => AName::Snap(self.id_of(n, creating)),
            Raw::SnapTmp(n) => AName::SnapTmp(self.id_of(n, creating)),
            _ => AName::Other(path.to_string()),
        }
    }
    fn model_id(n: &AName) -> u64 {
        match n {
            AName::Wal(k) | AName::Snap(k) | AName::SnapTmp(k) => *k,
            _ => 0,
        }
    }
}

fn decode_manifest(bytes: &[u8], nm: &mut Namer) -> Option<(Option<AName>, Option<u64>, Vec<AName>)> {
    let m: Manifest = serde_json::from_slice(bytes).ok()?;
    let snap = m.latest_snapshot.as_ref().map(|s| nm.name(s, false));
    let segs = m.wal_segments.iter().map(|s| nm.name(s, false)).collect();
    Some((snap, m.latest_snapshot_wal_seq, segs))
}

fn decode_snapshot(bytes: &[u8]) -> Option<(usize, u8, Vec<(u64, Vec<u32>, Meta)>, u64)> {
    if bytes.len() < 16 {
        return None;
    }
    let size = u64::from_le_bytes(bytes[4..12].try_into().ok()?) as usize;
    if bytes.len() < 12 + size + 4 {
        return None;
    }
    let s: Snapshot = bincode::deserialize(&bytes[12..12 + size]).ok()?;
    let metric = match format!("{:?}", s.distance).as_str() {
        "Cosine" => 1,
        "InnerProduct" => 2,
        _ => 0,
    };
    let mut metas: HashMap<u64, Meta> = HashMap::new();
    for (id, m) in s.metadata {
        metas.insert(id, canon_meta(&m.into_iter().collect()));
    }
    let mut docs: Vec<(u64, Vec<u32>, Meta)> = s.documents.iter().map(|(id, v)| (*id, bits(v), metas.get(id).cloned().unwrap_or_default())).collect();
    docs.sort_by_key(|d| d.0);
    Some((s.dimension, metric, docs, s.last_wal_seq))
}

fn decode_frame(bytes: &[u8]) -> Option<AEntry> {
    if bytes.len() < 8 {
        return None;
    }
    let n = u32::from_le_bytes(bytes[0..4].try_into().ok()?) as usize;
    if bytes.len() != n + 8 {
        return None;
    }
    let e: WalEntry = bincode::deserialize(&bytes[4..4 + n]).ok()?;
    Some(AEntry {
        op: match e.op {
            WalOp::Insert => 0,
            WalOp::Delete => 1,
            WalOp::UpdateMetadata => 2,
        },
        id: e.doc_id,
        vec: bits(&e.embedding),
        meta: canon_meta(&e.metadata.into_iter().collect()),
        seq: e.seq_no,
    })
}

pub fn abstract_trace(t: &Trace) -> Abs {
    let mut a = Abs::default();
    let mut nm = Namer { idmap: HashMap::new(), present: BTreeMap::new() };
    // pending collapsed temp-file write: (path, bytes, first_real, last_real)
    let mut pending: Option<(String, Vec<u8>, usize, usize)> = None;
    fn flush(p: &mut Option<(String, Vec<u8>, usize, usize)>, a: &mut Abs, nm: &mut Namer) {
        if let Some((path, bytes, f, l)) = p.take() {
            let name = nm.name(&path, false);
            let e = match classify(&path) {
                Raw::ManifestTmp | Raw::Manifest => AEff::WriteManifest(name, decode_manifest(&bytes, nm)),
                Raw::SnapTmp(_) | Raw::Snap(_) => AEff::WriteSnap(name, decode_snapshot(&bytes)),
                _ => AEff::WriteOther(name),
            };
            a.effs.push(e);
            a.first_real.push(f);
            a.last_real.push(l);
        }
    }
    for (i, ev) in t.evs.iter().enumerate() {
        let is_tmp_write = ev.kind == "write" && !matches!(classify(&ev.path), Raw::Wal(_));
        if !is_tmp_write || pending.as_ref().map(|p| p.0 != ev.path).unwrap_or(false) {
            flush(&mut pending, &mut a, &mut nm);
        }
        let push = |e: AEff, a: &mut Abs| {
            a.effs.push(e);
            a.first_real.push(i);
            a.last_real.push(i);
        };
        if ev.ret < 0 && ev.kind != "write" {
            continue; // failed call (e.g. mkdir EEXIST): no effect
        }
        match ev.kind.as_str() {
            "open" => {
                // the shim logs an open only when it creates or truncates the file (flags=create / +trunc)
                let name = nm.name(&ev.path, true);
                nm.present.insert(ev.path.clone(), Namer::model_id(&name));
                push(AEff::Create(name, ev.trunc), &mut a);
            }
            "write" => {
                let n = if ev.ret > 0 { ev.ret as usize } else { 0 };
                let data: &[u8] = if ev.doff >= 0 && (ev.doff as usize) + n <= t.data.len() { &t.data[ev.doff as usize..ev.doff as usize + n] } else { &[] };
                match classify(&ev.path) {
                    Raw::Wal(_) => {
                        let name = nm.name(&ev.path, false);
                        if ev.off == 0 && n == 4 && ev.ret == ev.len {
                            push(AEff::Header(name), &mut a);
                        } else if let (true, Some(e)) = (ev.ret == ev.len, decode_frame(data)) {
                            push(AEff::Frame(name, e), &mut a);
                        } else {
                            push(AEff::RawAppend(name), &mut a);
                        }
                    }
                    _ => match &mut pending {
                        Some(p) => {
                            p.1.extend_from_slice(data);
                            p.3 = i;
                        }
                        None => pending = Some((ev.path.clone(), data.to_vec(), i, i)),
                    },
                }
            }
            "fsync" => {
                if ev.path.is_empty() {
                    push(AEff::FsyncDir, &mut a)
                } else {
                    let name = nm.name(&ev.path, false);
                    push(AEff::Fsync(name), &mut a)
                }
            }
            "fdatasync" => {
                let name = nm.name(&ev.path, false);
                push(AEff::FsyncData(name), &mut a)
            }
            "ftruncate" => {
                let name = nm.name(&ev.path, false);
                push(AEff::Trunc(name), &mut a)
            }
            "rename" => {
                let b = ev.path2.clone().unwrap_or_default();
                let na = nm.name(&ev.path, false);
                let nb = nm.name(&b, false);
                nm.present.remove(&ev.path);
                nm.present.insert(b, Namer::model_id(&nb));
                push(AEff::Rename(na, nb), &mut a);
            }
            "unlink" => {
                let name = nm.name(&ev.path, false);
                nm.present.remove(&ev.path);
                push(AEff::Unlink(name), &mut a);
            }
            _ => {}
        }
    }
    flush(&mut pending, &mut a, &mut nm);
    a
}

/// model crash index for "crash before real event k (plus `torn` bytes of event k)": number of abstract
/// effects completely applied, and whether the next abstract effect is partially applied.
pub fn model_point(a: &Abs, k: usize, torn: bool) -> (usize, bool) {
    let mut n = 0;
    for j in 0..a.effs.len() {
        if a.last_real[j] < k {
            n = j + 1;
        } else {
            break;
        }
    }
    if n < a.effs.len() {
        let partial = a.first_real[n] < k || (torn && a.first_real[n] <= k && k <= a.last_real[n]);
        return (n, partial);
    }
    (n, false)
}

// ------------------------------------------------------------------------------------------------
// Gallina printing
// ------------------------------------------------------------------------------------------------

pub fn coq_name(n: &AName) -> String {
    match n {
        AName::Manifest => "NManifest".into(),
        AName::ManifestTmp => "NManifestTmp".into(),
        AName::Wal(k) => format!("(NWal {})", k),
        AName::Snap(k) => format!("(NSnap {})", k),
        AName::SnapTmp(k) => format!("(NSnapTmp {})", k),
        AName::Other(_) => "(NWal 0)".into(), // never produced by the engine; makes the comparison fail
    }
}

pub fn coq_eff(e: &AEff, it: &mut Intern) -> String {
    match e {
        AEff::Create(n, t) => format!("ECreate {} {}", coq_name(n), t),
        AEff::Header(n) => format!("EAppend {} BHeader", coq_name(n)),
        AEff::Frame(n, en) => format!(
            "EAppend {} (BFrame (Good (mkEntry {} {} {} {} {})))",
            coq_name(n),
            ["Ins", "Del", "Upd"][en.op as usize],
            en.id,
            if en.vec.is_empty() { "[]".to_string() } else { it.v(&en.vec) },
            it.meta(&en.meta),
            en.seq
        ),
        AEff::RawAppend(n) => format!("EAppend {} (BFrame BadDeser)", coq_name(n)),
        AEff::Fsync(n) => format!("EFsync {}", coq_name(n)),
        AEff::FsyncData(n) => format!("EFsyncData {}", coq_name(n)),
        AEff::FsyncDir => "EFsyncDir".into(),
        AEff::Rename(a, b) => format!("ERename {} {}", coq_name(a), coq_name(b)),
        AEff::Unlink(n) => format!("EUnlink {}", coq_name(n)),
        AEff::Trunc(n) => format!("ETrunc {} 0", coq_name(n)),
        AEff::WriteManifest(n, None) | AEff::WriteSnap(n, None) | AEff::WriteOther(n) => format!("EWriteFile {} FBad", coq_name(n)),
        AEff::WriteManifest(n, Some((snap, seq, segs))) => format!(
            "EWriteFile {} (FManifest (mkManifest {} {} [{}]))",
            coq_name(n),
            match snap { None => "None".to_string(), Some(s) => format!("(Some {})", coq_name(s)) },
            match seq { None => "None".to_string(), Some(s) => format!("(Some {})", s) },
            segs.iter().map(coq_name).collect::<Vec<_>>().join("; ")
        ),
        AEff::WriteSnap(n, Some((dim, metric, docs, last))) => format!(
            "EWriteFile {} (FSnap (mkSnap {} {} [{}] {}))",
            coq_name(n),
            dim,
            kvh_c02lib::metric_coq(*metric),
            docs.iter().map(|(id, v, m)| format!("({}, D {} {})", id, it.v(v), it.meta(m))).collect::<Vec<_>>().join("; "),
            last
        ),
    }
}
