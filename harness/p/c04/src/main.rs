//! C04 / C20 correspondence + oracle driver: seeded histories through the public TieredEngine API.
//! usage: c04 --out DIR --n N [--replay FILE] [--shrink FILE] [--filter-deletes]
//!
//! `--filter-deletes` (used by checks/c11.py, property C11 at the TieredEngine level) switches to a
//! separate stream of histories that contain TieredEngine::batch_delete_by_metadata_filter; the
//! default stream (C04 / C20) is untouched by it.
//!
//! Every history is run on the REAL engine (HnswBackend without persistence, real HotTier, real
//! cache strategies LRU / learned / learned+semantic / A-B behind a decision-recording wrapper).
//! After every operation the driver records the operation's result and a full snapshot (cold tier,
//! hot tier, L1a cache(s), four counters) and writes both into cases_<k>.v, where coqc compares them
//! with Model/Tiered.v.  Independently the direct oracle (a shadow map of successful writes; size
//! bounds) is evaluated here.
use kvh::rng::Rng;
use kyrodb_engine::cache_strategy::{AbTestSplitter, CacheStrategy, LearnedCacheStrategy, LruCacheStrategy};
use kyrodb_engine::coherence::{digest_embedding, VectorCoherenceToken, VectorIntegrityDigest};
use kyrodb_engine::config::DistanceMetric;
use kyrodb_engine::learned_cache::{AccessEvent, AccessType, LearnedCachePredictor};
use kyrodb_engine::metadata_filter;
use kyrodb_engine::proto::{metadata_filter::FilterType, AndFilter, ExactMatch, InMatch, MetadataFilter, NotFilter, OrFilter};
use kyrodb_engine::tiered_engine::{PointQueryTier, TieredEngine, TieredEngineConfig};
use kyrodb_engine::{CacheLifecycleStats, CachedVector, QueryHashCache, SemanticAdapter};
use serde_json::{json, Value};
use std::collections::{BTreeMap, HashMap, HashSet};
use std::fmt::Write as _;
use std::sync::{Arc, Mutex};
use std::time::{Duration, Instant, SystemTime};

const N_IDS: u64 = 6;
const N_POOL: usize = 10;
const KEYS: [&str; 3] = ["k0", "k1", "k2"];
const VALS: [&str; 3] = ["a", "b", ""];

type Meta = Vec<(u8, u8)>; // ascending keys, unique

#[derive(Clone, Debug, PartialEq)]
struct Tok {
    ver: u64,
    dig: i64, // pool index, or -1 = VectorIntegrityDigest::ZERO
}

/// metadata filter over the interned keys / values (Model/Tiered.v `tfilter`)
#[derive(Clone, Debug, PartialEq)]
enum Filt {
    All,                 // MetadataFilter { filter_type: None }
    Exact(u8, u8),       // key index, value index
    In(u8, Vec<u8>),
    Not(Box<Filt>),
    NotNone,             // NotFilter { filter: None }
    And(Vec<Filt>),
    Or(Vec<Filt>),
}

#[derive(Clone, Debug)]
enum Op {
    Query(u64),
    GetDoc(u64),
    Emb(u64),
    GetMeta(u64),
    Exists(u64),
    Bulk(bool, Vec<u64>),
    Insert(u64, usize, Meta),
    Delete(u64),
    BatchDelete(Vec<u64>),
    UpdMeta(u64, Meta, bool),
    BulkLoad(Vec<(u64, usize, Meta)>),
    Flush(bool),
    Tick,
    PokeL1(bool, u64, usize, Tok),
    PokeHot(u64, usize, Meta, Tok),
    /// TieredEngine::batch_delete_by_metadata_filter (only in `--filter-deletes` histories)
    FilterDelete(Filt),
}

#[derive(Clone, Debug)]
struct Case {
    strategy: u8, // 0 LRU, 1 learned (untrained), 2 learned (trained), 3 learned+semantic, 4 A/B (LRU | learned)
    cap_a: usize,
    cap_b: usize,
    soft: usize,
    hard: usize,
    cosine: bool,
    init: Vec<(usize, Meta)>,
    allow_orphans: bool,
    /// hnsw_max_elements: 512, or just above the number of distinct ids (tombstone compaction inside insert)
    max_el: usize,
    ops: Vec<Op>,
}

type Bits = Vec<u32>;
type MetaI = Vec<(u64, u64)>;

#[derive(Clone, Debug, PartialEq)]
enum Out {
    Query(Option<(Bits, u8)>),
    Doc(Option<(Bits, MetaI)>),
    Vec(Option<Bits>),
    Meta(Option<MetaI>),
    Bool(bool),
    Bulk(Vec<Option<(Bits, MetaI, u8)>>),
    Count(Option<u64>),
    Load(u64, u64),
    None,
}

#[derive(Clone, Debug, Default, PartialEq)]
struct Snapshot {
    cold: Vec<(u64, Bits, MetaI, u64)>,
    hot: Vec<(u64, Bits, MetaI, Tok)>,
    l1a: Vec<(u64, Bits, Tok)>,
    l1b: Vec<(u64, Bits, Tok)>,
    ctr: [u64; 4],
}

// ------------------------------------------------------------------------------------------------
// pools
// ------------------------------------------------------------------------------------------------
fn pool(cosine: bool) -> Vec<Vec<f32>> {
    if cosine {
        vec![
            vec![1.0, 0.0, 0.0, 0.0],
            vec![0.0, 1.0, 0.0, 0.0],
            vec![0.5, 0.5, 0.5, 0.5],
            vec![0.6, 0.8, 0.0, 0.0],
            vec![-0.0, 1.0, 0.0, 0.0],
            vec![0.0, 0.0, 0.6, 0.8],
            vec![0.0, 0.0, 0.0, 1.0],
            vec![0.0, 0.0, 0.0, 0.0], // invalid under cosine (zero norm)
            vec![1.0, 0.0, 0.0],      // invalid: dimension
            vec![f32::NAN, 0.0, 0.0, 1.0], // invalid: non-finite
        ]
    } else {
        vec![
            vec![1.0, 0.0, 0.0, 0.0],
            vec![0.0, 1.0, 0.0, 0.0],
            vec![0.5, 0.5, 0.5, 0.5],
            vec![3.0, 4.0, 0.0, 0.0],
            vec![-0.0, 1.0, 0.0, 0.0],
            vec![1e-20, 0.0, 0.0, 0.0],
            vec![1e18, 1e18, 0.0, 0.0],
            vec![0.0, 0.0, 0.0, 0.0], // valid under euclidean
            vec![1.0, 0.0, 0.0],
            vec![f32::NAN, 0.0, 0.0, 1.0],
        ]
    }
}
fn valid_idx(i: usize, cosine: bool) -> bool {
    i <= 6 || (i == 7 && !cosine)
}
fn bits(v: &[f32]) -> Bits {
    v.iter().map(|x| x.to_bits()).collect()
}
fn meta_map(m: &Meta) -> HashMap<String, String> {
    m.iter().map(|(k, v)| (KEYS[*k as usize].to_string(), VALS[*v as usize].to_string())).collect()
}
fn meta_idx(m: &HashMap<String, String>) -> MetaI {
    let b: BTreeMap<u64, u64> = m
        .iter()
        .map(|(k, v)| {
            (
                KEYS.iter().position(|x| x == k).map(|p| p as u64).unwrap_or(99),
                VALS.iter().position(|x| x == v).map(|p| p as u64).unwrap_or(99),
            )
        })
        .collect();
    b.into_iter().collect()
}
fn meta_i(m: &Meta) -> MetaI {
    m.iter().map(|(k, v)| (*k as u64, *v as u64)).collect()
}

fn filt_proto(f: &Filt) -> MetadataFilter {
    let mf = |t: FilterType| MetadataFilter { filter_type: Some(t) };
    match f {
        Filt::All => MetadataFilter { filter_type: None },
        Filt::Exact(k, v) => mf(FilterType::Exact(ExactMatch { key: KEYS[*k as usize].to_string(), value: VALS[*v as usize].to_string() })),
        Filt::In(k, vs) => mf(FilterType::InMatch(InMatch {
            key: KEYS[*k as usize].to_string(),
            values: vs.iter().map(|v| VALS[*v as usize].to_string()).collect(),
        })),
        Filt::Not(g) => mf(FilterType::NotFilter(Box::new(NotFilter { filter: Some(Box::new(filt_proto(g))) }))),
        Filt::NotNone => mf(FilterType::NotFilter(Box::new(NotFilter { filter: None }))),
        Filt::And(fs) => mf(FilterType::AndFilter(AndFilter { filters: fs.iter().map(filt_proto).collect() })),
        Filt::Or(fs) => mf(FilterType::OrFilter(OrFilter { filters: fs.iter().map(filt_proto).collect() })),
    }
}
fn metai_map(m: &MetaI) -> HashMap<String, String> {
    m.iter().map(|(k, v)| (KEYS[*k as usize].to_string(), VALS[*v as usize].to_string())).collect()
}

struct Pools {
    vecs: Vec<Vec<f32>>,
    vbits: Vec<Bits>,
    digs: Vec<VectorIntegrityDigest>,
}
impl Pools {
    fn new(cosine: bool) -> Self {
        let vecs = pool(cosine);
        let vbits = vecs.iter().map(|v| bits(v)).collect::<Vec<_>>();
        let digs = vecs.iter().map(|v| digest_embedding(v)).collect::<Vec<_>>();
        // the named assumption, checked on the values actually used: distinct bit patterns have distinct digests
        for i in 0..vecs.len() {
            for j in 0..i {
                assert!(vbits[i] != vbits[j], "pool entries must be distinct");
                assert!(digs[i] != digs[j], "digest collision inside the vector pool");
            }
            assert!(digs[i] != VectorIntegrityDigest::ZERO);
        }
        Pools { vecs, vbits, digs }
    }
    fn tok(&self, t: &Tok) -> VectorCoherenceToken {
        let d = if t.dig < 0 { VectorIntegrityDigest::ZERO } else { self.digs[t.dig as usize] };
        VectorCoherenceToken::new(t.ver, d)
    }
    fn untok(&self, t: VectorCoherenceToken) -> Tok {
        let dig = if t.digest == VectorIntegrityDigest::ZERO {
            -1
        } else {
            self.digs.iter().position(|d| *d == t.digest).map(|p| p as i64).unwrap_or(-2)
        };
        Tok { ver: t.version, dig }
    }
}

// ------------------------------------------------------------------------------------------------
// decision-recording strategy wrapper
// ------------------------------------------------------------------------------------------------
struct Recorder {
    inner: Arc<dyn CacheStrategy>,
    log: Mutex<Vec<bool>>,
}
impl CacheStrategy for Recorder {
    fn get_cached(&self, doc_id: u64) -> Option<CachedVector> {
        self.inner.get_cached(doc_id)
    }
    fn peek_cached(&self, doc_id: u64) -> Option<CachedVector> {
        self.inner.peek_cached(doc_id)
    }
    fn should_cache(&self, doc_id: u64, embedding: &[f32]) -> bool {
        let d = self.inner.should_cache(doc_id, embedding);
        self.log.lock().unwrap().push(d);
        d
    }
    fn insert_cached(&self, cached_vector: CachedVector) {
        self.inner.insert_cached(cached_vector)
    }
    fn invalidate(&self, doc_id: u64) {
        self.inner.invalidate(doc_id)
    }
    fn name(&self) -> &str {
        self.inner.name()
    }
    fn stats(&self) -> String {
        self.inner.stats()
    }
    fn size(&self) -> usize {
        self.inner.size()
    }
    fn lifecycle_stats(&self) -> Option<CacheLifecycleStats> {
        self.inner.lifecycle_stats()
    }
}

fn trained_predictor(cap: usize) -> LearnedCachePredictor {
    let mut p = LearnedCachePredictor::new(cap.max(1)).unwrap();
    let mut ev = vec![];
    for id in [0u64, 2, 3] {
        for _ in 0..40 {
            ev.push(AccessEvent { doc_id: id, timestamp: SystemTime::now(), access_type: AccessType::Read });
        }
    }
    ev.push(AccessEvent { doc_id: 1, timestamp: SystemTime::now(), access_type: AccessType::Read });
    p.train_from_accesses(&ev).unwrap();
    p
}

struct Strat {
    top: Arc<Recorder>,
    sub_a: Arc<dyn CacheStrategy>,
    sub_b: Option<Arc<dyn CacheStrategy>>,
}
fn make_strategy(kind: u8, cap_a: usize, cap_b: usize) -> Strat {
    let learned = |k: u8, cap: usize| -> Arc<dyn CacheStrategy> {
        match k {
            1 => Arc::new(LearnedCacheStrategy::new(cap, LearnedCachePredictor::new(cap.max(1)).unwrap())),
            2 => Arc::new(LearnedCacheStrategy::new(cap, trained_predictor(cap))),
            _ => Arc::new(LearnedCacheStrategy::new_with_semantic(cap, trained_predictor(cap), SemanticAdapter::new())),
        }
    };
    match kind {
        0 => {
            let a: Arc<dyn CacheStrategy> = Arc::new(LruCacheStrategy::new(cap_a));
            Strat { top: Arc::new(Recorder { inner: a.clone(), log: Mutex::new(vec![]) }), sub_a: a, sub_b: None }
        }
        1 | 2 | 3 => {
            let a = learned(kind, cap_a);
            Strat { top: Arc::new(Recorder { inner: a.clone(), log: Mutex::new(vec![]) }), sub_a: a, sub_b: None }
        }
        _ => {
            let a: Arc<dyn CacheStrategy> = Arc::new(LruCacheStrategy::new(cap_a));
            let b = learned(if cap_b % 2 == 0 { 2 } else { 1 }, cap_b);
            let ab: Arc<dyn CacheStrategy> = Arc::new(AbTestSplitter::new(a.clone(), b.clone()));
            Strat { top: Arc::new(Recorder { inner: ab, log: Mutex::new(vec![]) }), sub_a: a, sub_b: Some(b) }
        }
    }
}

// ------------------------------------------------------------------------------------------------
// generator
// ------------------------------------------------------------------------------------------------
fn gen_meta(r: &mut Rng) -> Meta {
    let pool: [&[(u8, u8)]; 7] = [&[], &[], &[(0, 0)], &[(0, 1)], &[(1, 0)], &[(0, 0), (1, 1)], &[(2, 2)]];
    r.pick(&pool).to_vec()
}
fn gen_ids(r: &mut Rng, max: u64) -> Vec<u64> {
    let n = r.range(1, max);
    (0..n).map(|_| r.below(N_IDS)).collect()
}
fn gen_vec(r: &mut Rng) -> usize {
    // mostly valid vectors; duplicates are frequent because the valid pool is small
    if r.chance(1, 9) {
        r.range(7, 9) as usize
    } else {
        r.below(7) as usize
    }
}

fn gen_case(r: &mut Rng) -> Case {
    let strategy = r.below(5) as u8;
    let caps = [1usize, 2, 8];
    let cap_a = *r.pick(&caps);
    let cap_b = *r.pick(&caps);
    let hard = *r.pick(&[1usize, 2, 4]);
    let soft = *r.pick(&[1usize, 2, 3, 100]);
    let cosine = r.chance(1, 3);
    let n_init = r.below(3) as usize;
    let init: Vec<(usize, Meta)> = (0..n_init).map(|_| (r.below(7) as usize, gen_meta(r))).collect();
    let allow_orphans = r.chance(1, 7);
    // at most N_IDS (6) ids can be live, so 7 / 8 physical slots never refuse an insert, but every
    // few overwrites / deletes the insert path has to compact tombstones and retry
    let max_el = *r.pick(&[512usize, 512, 7, 8]);
    let pokes = r.chance(3, 5);
    let n = r.range(4, 40) as usize;
    // approximate generator-side shadow (id -> (vec idx, version)) only used to bias the pokes
    let mut sh: HashMap<u64, (usize, u64)> = HashMap::new();
    for (i, (v, _)) in init.iter().enumerate() {
        sh.insert(i as u64, (*v, 1));
    }
    let bump = |sh: &mut HashMap<u64, (usize, u64)>, id: u64, v: usize| {
        let ver = sh.get(&id).map(|x| x.1 + 1).unwrap_or(1);
        sh.insert(id, (v, ver));
    };
    let gen_tok = |r: &mut Rng, sh: &HashMap<u64, (usize, u64)>, id: u64, v: usize| -> Tok {
        let cur = sh.get(&id).copied();
        let ver = match r.below(4) {
            0 | 1 => cur.map(|c| c.1).unwrap_or(1),
            2 => cur.map(|c| c.1.saturating_sub(1)).unwrap_or(0),
            _ => r.below(4),
        };
        let dig = match r.below(6) {
            0 | 1 => v as i64,                                   // consistent with the planted payload
            2 | 3 => cur.map(|c| c.0 as i64).unwrap_or(v as i64), // the canonical digest (payload may differ: corrupt copy)
            4 => r.below(N_POOL as u64) as i64,
            _ => -1,
        };
        Tok { ver, dig }
    };
    let mut ops = vec![];
    let mut last_read: Option<u64> = None;
    while ops.len() < n {
        // reads and pokes prefer ids that (most likely) exist; a read is often repeated (cache hits)
        let mut id = r.below(N_IDS);
        if !sh.is_empty() && r.chance(2, 3) {
            let mut live: Vec<u64> = sh.keys().copied().collect();
            live.sort_unstable();
            id = *r.pick(&live);
        }
        if let Some(l) = last_read {
            if r.chance(1, 3) {
                id = l;
            }
        }
        let w = r.below(100);
        last_read = if (22..=47).contains(&w) { Some(id) } else { None };
        let op = match w {
            0..=21 => {
                let v = gen_vec(r);
                if valid_idx(v, cosine) {
                    bump(&mut sh, id, v);
                }
                Op::Insert(id, v, gen_meta(r))
            }
            22..=35 => Op::Query(id),
            36..=41 => Op::GetDoc(id),
            42..=47 => Op::Emb(id),
            48..=50 => Op::GetMeta(id),
            51..=53 => Op::Exists(id),
            54..=59 => Op::Bulk(r.chance(3, 4), gen_ids(r, 4)),
            60..=65 => {
                sh.remove(&id);
                Op::Delete(id)
            }
            66..=68 => {
                let ids = gen_ids(r, 3);
                for i in &ids {
                    sh.remove(i);
                }
                Op::BatchDelete(ids)
            }
            69..=74 => Op::UpdMeta(id, gen_meta(r), r.chance(1, 2)),
            75..=80 => {
                let k = r.range(1, 3);
                let docs: Vec<(u64, usize, Meta)> = (0..k).map(|_| (r.below(N_IDS), gen_vec(r), gen_meta(r))).collect();
                for (i, v, _) in &docs {
                    if valid_idx(*v, cosine) {
                        bump(&mut sh, *i, *v);
                    }
                }
                Op::BulkLoad(docs)
            }
            81..=85 => Op::Flush(r.chance(1, 2)),
            86..=89 => Op::Tick,
            90..=94 => {
                if !pokes {
                    continue;
                }
                let v = r.below(N_POOL as u64) as usize;
                let b = strategy == 4 && r.chance(1, 2);
                Op::PokeL1(b, id, v, gen_tok(r, &sh, id, v))
            }
            _ => {
                if !pokes {
                    continue;
                }
                let dead: Vec<u64> = (0..N_IDS).filter(|i| !sh.contains_key(i)).collect();
                let target = if allow_orphans && !dead.is_empty() && r.chance(1, 2) {
                    Some(*r.pick(&dead)) // plant a mirror-only orphan
                } else {
                    // an id that (most likely) exists in the cold tier
                    let mut live: Vec<u64> = sh.keys().copied().collect();
                    live.sort_unstable();
                    if live.is_empty() { None } else { Some(*r.pick(&live)) }
                };
                match target {
                    None => continue,
                    Some(t) => {
                        let v = r.below(N_POOL as u64) as usize;
                        Op::PokeHot(t, v, gen_meta(r), gen_tok(r, &sh, t, v))
                    }
                }
            }
        };
        ops.push(op);
    }
    Case { strategy, cap_a, cap_b, soft, hard, cosine, init, allow_orphans, max_el, ops }
}

/// Directed histories (always run first): the sequences named in the property text and the two
/// model witnesses (orphan repair; unrepairable orphans past the hard limit).
fn directed() -> Vec<Case> {
    let m0: Meta = vec![];
    let m1: Meta = vec![(0, 0)];
    let base = Case { strategy: 0, cap_a: 1, cap_b: 1, soft: 100, hard: 4, cosine: false, init: vec![(0, m0.clone())], allow_orphans: false, max_el: 512, ops: vec![] };
    let mut out = vec![];
    // 1. by-design witness: a planted mirror entry for an absent id is resurrected by a forced drain
    out.push(Case {
        allow_orphans: true,
        ops: vec![
            Op::Exists(5),
            Op::PokeHot(5, 1, m1.clone(), Tok { ver: 0, dig: 1 }),
            Op::Query(5),
            Op::GetDoc(5),
            Op::Flush(true),
            Op::Exists(5),
            Op::GetDoc(5),
        ],
        ..base.clone()
    });
    // 2. witness: unrepairable orphans planted past the hard limit survive the emergency drain
    out.push(Case {
        allow_orphans: true,
        hard: 2,
        ops: vec![
            Op::PokeHot(3, 8, m0.clone(), Tok { ver: 0, dig: 8 }),
            Op::PokeHot(4, 9, m0.clone(), Tok { ver: 0, dig: 9 }),
            Op::PokeHot(0, 0, m0.clone(), Tok { ver: 1, dig: 0 }),
            Op::Insert(1, 1, m0.clone()),
            Op::Exists(3),
            Op::Insert(2, 2, m0.clone()),
        ],
        ..base.clone()
    });
    // 3. the sequence of the property text: overwrite via bulk load (mirror dropped since b64dfda) -> drain ->
    //    delete -> reinsert of the same vector -> cached read, capacity 1
    for strategy in [0u8, 2, 4] {
        out.push(Case {
            strategy,
            ops: vec![
                Op::Insert(2, 1, m1.clone()),
                Op::Query(2),
                Op::BulkLoad(vec![(2, 3, m0.clone())]),
                Op::Query(2),
                Op::Emb(2),
                Op::Flush(true),
                Op::Query(2),
                Op::Delete(2),
                Op::Query(2),
                Op::Insert(2, 3, m1.clone()),
                Op::Query(2),
                Op::Query(2),
                Op::GetDoc(2),
                Op::Bulk(true, vec![2, 2, 0]),
            ],
            ..base.clone()
        });
    }
    // 4. delete-then-reinsert epoch with stale L1 copies of the old epoch (same and different payload)
    out.push(Case {
        cap_a: 2,
        ops: vec![
            Op::Insert(1, 1, m0.clone()),
            Op::Insert(1, 2, m0.clone()),
            Op::Flush(true),
            Op::Query(1),
            Op::Delete(1),
            Op::PokeL1(false, 1, 2, Tok { ver: 2, dig: 2 }),
            Op::Insert(1, 3, m0.clone()),
            Op::PokeL1(false, 1, 2, Tok { ver: 1, dig: 2 }),
            Op::Emb(1),
            Op::PokeL1(false, 1, 2, Tok { ver: 1, dig: 3 }),
            Op::Query(1),
            Op::PokeL1(false, 1, 3, Tok { ver: 1, dig: 3 }),
            Op::Query(1),
        ],
        ..base.clone()
    });
    // 5. emergency drain at hard limit 1 with a stale mirror, then threshold tick
    out.push(Case {
        hard: 1,
        soft: 1,
        ops: vec![
            Op::Insert(1, 1, m0.clone()),
            Op::BulkLoad(vec![(1, 2, m1.clone())]),
            Op::Insert(2, 2, m0.clone()),
            Op::GetDoc(1),
            Op::PokeHot(2, 4, m0.clone(), Tok { ver: 1, dig: 2 }),
            Op::Tick,
            Op::Query(2),
        ],
        ..base.clone()
    });
    out
}

// ------------------------------------------------------------------------------------------------
// `--filter-deletes` stream (C11 at the TieredEngine level): its own generator and directed histories
// ------------------------------------------------------------------------------------------------
/// metadata with up to three keys (dense: documents must share and lose keys)
fn gen_meta_rich(r: &mut Rng) -> Meta {
    let mut m: Meta = vec![];
    for k in 0..KEYS.len() as u8 {
        if r.chance(3, 5) {
            m.push((k, r.below(VALS.len() as u64) as u8));
        }
    }
    m
}
fn gen_atom(r: &mut Rng) -> Filt {
    let k = r.below(KEYS.len() as u64) as u8;
    if r.chance(2, 3) {
        Filt::Exact(k, r.below(VALS.len() as u64) as u8)
    } else {
        let n = r.below(3);
        Filt::In(k, (0..n).map(|_| r.below(VALS.len() as u64) as u8).collect())
    }
}
fn gen_filt(r: &mut Rng, depth: u32) -> Filt {
    let w = r.below(100);
    if depth == 0 || w < 46 {
        return gen_atom(r);
    }
    match w {
        46..=59 => Filt::Not(Box::new(gen_filt(r, depth - 1))),
        60..=74 => {
            let n = r.range(1, 3);
            Filt::And((0..n).map(|_| gen_filt(r, depth - 1)).collect())
        }
        75..=89 => {
            let n = r.range(1, 3);
            Filt::Or((0..n).map(|_| gen_filt(r, depth - 1)).collect())
        }
        90..=92 => Filt::All,
        93..=94 => Filt::NotNone,
        95..=96 => Filt::And(vec![]),
        97..=98 => Filt::Or(vec![]),
        _ => Filt::Not(Box::new(Filt::NotNone)),
    }
}

/// Histories for the filtered delete: documents stay hot-resident (soft limit 3 / 100, hard 2 / 4),
/// receive merge AND replace metadata updates (a replace usually carries fewer keys than the
/// document has, i.e. drops keys), and filtered deletes run both before and after drains.  No
/// mirror pokes (the premise of C11tier_mirror_meta_fresh); L1a pokes are allowed.
fn gen_case_fd(r: &mut Rng) -> Case {
    let strategy = r.below(5) as u8;
    let caps = [1usize, 2, 8];
    let cap_a = *r.pick(&caps);
    let cap_b = *r.pick(&caps);
    let hard = *r.pick(&[2usize, 4, 4]);
    let soft = *r.pick(&[3usize, 100, 100]);
    let cosine = r.chance(1, 3);
    let n_init = r.below(3) as usize;
    let init: Vec<(usize, Meta)> = (0..n_init).map(|_| (r.below(7) as usize, gen_meta_rich(r))).collect();
    let max_el = *r.pick(&[512usize, 512, 7, 8]);
    let n = r.range(5, 28) as usize;
    let mut live: Vec<u64> = (0..n_init as u64).collect();
    // generator-side approximation of the canonical metadata (id -> meta) and of the (key, value)
    // bindings that a replace dropped recently: only used to aim updates and filters
    let mut gmeta: HashMap<u64, Meta> = init.iter().enumerate().map(|(i, (_, m))| (i as u64, m.clone())).collect();
    let mut gdrop: Vec<(u8, u8)> = vec![];
    let mut ops = vec![];
    while ops.len() < n {
        let mut id = r.below(N_IDS);
        if !live.is_empty() && r.chance(3, 4) {
            id = *r.pick(&live);
        }
        let w = r.below(100);
        let op = match w {
            0..=23 => {
                let v = gen_vec(r);
                let m = gen_meta_rich(r);
                if valid_idx(v, cosine) {
                    if !live.contains(&id) {
                        live.push(id);
                        live.sort_unstable();
                    }
                    gmeta.insert(id, m.clone());
                }
                Op::Insert(id, v, m)
            }
            24..=45 => {
                let cur = gmeta.get(&id).cloned().unwrap_or_default();
                let (m, merge) = if !cur.is_empty() && r.chance(1, 2) {
                    // a replace that drops exactly one of the document's keys (and sometimes rebinds another)
                    let drop = r.below(cur.len() as u64) as usize;
                    let mut m: Meta = cur.iter().enumerate().filter(|(i, _)| *i != drop).map(|(_, kv)| *kv).collect();
                    if !m.is_empty() && r.chance(1, 4) {
                        let j = r.below(m.len() as u64) as usize;
                        m[j].1 = r.below(VALS.len() as u64) as u8;
                    }
                    (m, false)
                } else if r.chance(2, 3) {
                    // a single binding: as a replace it drops the others, as a merge it keeps them
                    let k = r.below(KEYS.len() as u64) as u8;
                    (vec![(k, r.below(VALS.len() as u64) as u8)], r.chance(1, 2))
                } else {
                    (gen_meta_rich(r), r.chance(1, 2))
                };
                if gmeta.contains_key(&id) {
                    if merge {
                        let mut b: BTreeMap<u8, u8> = cur.iter().copied().collect();
                        for (k, v) in &m {
                            b.insert(*k, *v);
                        }
                        gmeta.insert(id, b.into_iter().collect());
                    } else {
                        for kv in cur.iter().filter(|(k, _)| !m.iter().any(|(k2, _)| k2 == k)) {
                            gdrop.push(*kv);
                        }
                        gmeta.insert(id, m.clone());
                    }
                }
                Op::UpdMeta(id, m, merge)
            }
            46..=63 => {
                if !gdrop.is_empty() && r.chance(3, 5) {
                    // aim at a binding some replace dropped: the canonical record no longer has it
                    let (k, v) = *r.pick(&gdrop);
                    let atom = if r.chance(2, 3) { Filt::Exact(k, v) } else { Filt::In(k, vec![r.below(VALS.len() as u64) as u8, v]) };
                    Op::FilterDelete(match r.below(10) {
                        0..=5 => atom,
                        6..=7 => Filt::Or(vec![gen_atom(r), atom]),
                        8 => Filt::And(vec![atom, Filt::Not(Box::new(gen_atom(r)))]),
                        _ => Filt::Not(Box::new(Filt::Not(Box::new(atom)))),
                    })
                } else {
                    Op::FilterDelete(gen_filt(r, 3))
                }
            }
            64..=69 => Op::Flush(r.chance(2, 3)),
            70..=72 => Op::Tick,
            73..=76 => Op::Query(id),
            77..=79 => Op::GetDoc(id),
            80..=81 => Op::GetMeta(id),
            82..=83 => Op::Bulk(r.chance(3, 4), gen_ids(r, 3)),
            84..=86 => {
                live.retain(|x| *x != id);
                gmeta.remove(&id);
                Op::Delete(id)
            }
            87..=88 => {
                let ids = gen_ids(r, 2);
                live.retain(|x| !ids.contains(x));
                for i in &ids {
                    gmeta.remove(i);
                }
                Op::BatchDelete(ids)
            }
            89..=93 => {
                let k = r.range(1, 2);
                let docs: Vec<(u64, usize, Meta)> = (0..k).map(|_| (r.below(N_IDS), gen_vec(r), gen_meta_rich(r))).collect();
                for (i, v, m) in &docs {
                    if valid_idx(*v, cosine) {
                        if !live.contains(i) {
                            live.push(*i);
                            live.sort_unstable();
                        }
                        gmeta.insert(*i, m.clone());
                    }
                }
                Op::BulkLoad(docs)
            }
            94..=96 => Op::Exists(id),
            _ => {
                let v = r.below(N_POOL as u64) as usize;
                let b = strategy == 4 && r.chance(1, 2);
                Op::PokeL1(b, id, v, Tok { ver: r.below(4), dig: if r.chance(1, 4) { -1 } else { v as i64 } })
            }
        };
        ops.push(op);
    }
    Case { strategy, cap_a, cap_b, soft, hard, cosine, init, allow_orphans: false, max_el, ops }
}

/// Directed filtered-delete histories (always first in the `--filter-deletes` stream).
fn directed_fd() -> Vec<Case> {
    let base = Case { strategy: 0, cap_a: 2, cap_b: 2, soft: 100, hard: 4, cosine: false, init: vec![], allow_orphans: false, max_el: 512, ops: vec![] };
    let both: Meta = vec![(0, 0), (1, 1)];
    let only1: Meta = vec![(1, 1)];
    let mut out = vec![];
    // 1. the witness of C11tier_mirror_merge_variant_refuted: hot-resident document, a replace drops k0,
    //    filtered delete on the dropped key must select nothing; then a delete on the kept key removes it
    out.push(Case {
        ops: vec![
            Op::Insert(1, 1, both.clone()),
            Op::UpdMeta(1, only1.clone(), false),
            Op::FilterDelete(Filt::Exact(0, 0)),
            Op::GetMeta(1),
            Op::FilterDelete(Filt::Exact(1, 1)),
            Op::Exists(1),
        ],
        ..base.clone()
    });
    // 2. the same after a forced drain (the cold index alone answers), and with a second document that
    //    still carries the key
    out.push(Case {
        ops: vec![
            Op::Insert(1, 1, both.clone()),
            Op::Insert(2, 2, vec![(0, 0)]),
            Op::UpdMeta(1, only1.clone(), false),
            Op::Flush(true),
            Op::FilterDelete(Filt::Exact(0, 0)),
            Op::Exists(1),
            Op::Exists(2),
        ],
        ..base.clone()
    });
    // 3. merge keeps the key (the document IS selected), replace by the empty map, negation and
    //    empty AND / OR, duplicates across the two tiers counted once
    out.push(Case {
        strategy: 4,
        ops: vec![
            Op::Insert(1, 1, both.clone()),
            Op::Insert(2, 2, both.clone()),
            Op::Insert(3, 3, vec![(2, 2)]),
            Op::UpdMeta(1, vec![(2, 0)], true),
            Op::UpdMeta(2, vec![], false),
            Op::FilterDelete(Filt::Or(vec![])),
            Op::FilterDelete(Filt::NotNone),
            Op::FilterDelete(Filt::And(vec![Filt::Exact(0, 0), Filt::Not(Box::new(Filt::In(2, vec![1, 2])))])),
            Op::Bulk(true, vec![1, 2, 3]),
            Op::FilterDelete(Filt::Not(Box::new(Filt::In(2, vec![2])))),
            Op::FilterDelete(Filt::And(vec![])),
            Op::FilterDelete(Filt::All),
        ],
        ..base.clone()
    });
    // 4. mixed residency: one document drained to the cold tier only, one re-inserted (hot again), a
    //    replace on each, bulk load over a hot-resident one (mirror dropped), filtered deletes in between
    out.push(Case {
        hard: 2,
        soft: 3,
        ops: vec![
            Op::Insert(0, 0, both.clone()),
            Op::Insert(1, 1, both.clone()),
            Op::Flush(true),
            Op::Insert(1, 2, both.clone()),
            Op::UpdMeta(0, vec![(0, 1)], false),
            Op::UpdMeta(1, vec![(0, 1)], false),
            Op::FilterDelete(Filt::Exact(1, 1)),
            Op::Insert(2, 3, both.clone()),
            Op::BulkLoad(vec![(2, 4, only1.clone())]),
            Op::FilterDelete(Filt::In(0, vec![0, 2])),
            Op::FilterDelete(Filt::Exact(0, 1)),
        ],
        ..base.clone()
    });
    out
}

// ------------------------------------------------------------------------------------------------
// running a case on the real engine
// ------------------------------------------------------------------------------------------------
struct RunResult {
    outs: Vec<Out>,
    snaps: Vec<Snapshot>,
    adm: Vec<bool>,
    fail: Option<(usize, String, String)>, // (op index, kind, why)
    resurrections: u64,
    hot_bound_excess: u64,
    notes: HashMap<&'static str, u64>,
    /// filtered deletes: [issued, removed >= 1 document, issued while a hot-resident document had
    /// received a key-dropping replace, selection would differ if the mirror had merged every replace,
    /// issued after a drain that left cold-only documents]
    fd: [u64; 5],
}

fn tier_code(t: PointQueryTier) -> u8 {
    match t {
        PointQueryTier::Cache => 0,
        PointQueryTier::HotTier => 1,
        PointQueryTier::ColdTier => 2,
    }
}

fn snapshot(engine: &TieredEngine, st: &Strat, p: &Pools, ids: &[u64]) -> (Snapshot, Option<String>) {
    let mut s = Snapshot::default();
    let mut problem = None;
    for &id in ids {
        if let Some((v, t)) = engine.cold_tier().fetch_document_with_coherence(id) {
            let m = engine.cold_tier().fetch_metadata(id).unwrap_or_default();
            if t.digest != digest_embedding(&v) {
                problem = Some(format!("cold tier token digest of id {} does not match its stored embedding", id));
            }
            s.cold.push((id, bits(&v), meta_idx(&m), t.version));
        }
        if let Some((v, t)) = engine.hot_tier().peek_with_coherence(id) {
            let m = engine.hot_tier().get_metadata(id).unwrap_or_default();
            s.hot.push((id, bits(&v), meta_idx(&m), p.untok(t)));
        }
        if let Some(c) = st.sub_a.peek_cached(id) {
            s.l1a.push((id, bits(&c.embedding), p.untok(c.coherence)));
        }
        if let Some(b) = &st.sub_b {
            if let Some(c) = b.peek_cached(id) {
                s.l1b.push((id, bits(&c.embedding), p.untok(c.coherence)));
            }
        }
    }
    if engine.hot_tier().len() != s.hot.len() {
        problem = Some(format!("hot tier holds {} entries but {} are visible over the id pool", engine.hot_tier().len(), s.hot.len()));
    }
    if engine.cold_tier().len() != s.cold.len() {
        problem = Some(format!("cold tier holds {} documents but {} are visible over the id pool", engine.cold_tier().len(), s.cold.len()));
    }
    if st.sub_a.size() != s.l1a.len() || st.sub_b.as_ref().map(|b| b.size()).unwrap_or(0) != s.l1b.len() {
        problem = Some("L1a size() disagrees with the entries visible over the id pool".to_string());
    }
    if engine.cache_size() != s.l1a.len() + s.l1b.len() {
        problem = Some(format!("cache_size() = {} but {} entries are visible", engine.cache_size(), s.l1a.len() + s.l1b.len()));
    }
    let es = engine.stats();
    if es.hot_tier_size != s.hot.len() {
        problem = Some("stats().hot_tier_size disagrees with HotTier::len".to_string());
    }
    s.ctr = [es.total_inserts, es.hot_tier_emergency_evictions, es.hot_tier_flush_failures, es.hot_tier_flushes];
    (s, problem)
}

fn run_case(c: &Case) -> RunResult {
    kvh::panicrec::set_input_debug(c);
    let p = Pools::new(c.cosine);
    let st = make_strategy(c.strategy, c.cap_a, c.cap_b);
    let cfg = TieredEngineConfig {
        hot_tier_max_size: c.soft,
        hot_tier_hard_limit: c.hard,
        hot_tier_max_age: Duration::from_secs(3600),
        hnsw_max_elements: c.max_el,
        embedding_dimension: 4,
        hnsw_distance: if c.cosine { DistanceMetric::Cosine } else { DistanceMetric::Euclidean },
        data_dir: None,
        flush_interval: Duration::from_millis(1),
        ..Default::default()
    };
    let top: Arc<dyn CacheStrategy> = st.top.clone();
    let engine = Arc::new(
        TieredEngine::new_with_shared_strategy(
            top,
            Arc::new(QueryHashCache::new(16, 0.85)),
            c.init.iter().map(|(v, _)| p.vecs[*v].clone()).collect(),
            c.init.iter().map(|(_, m)| meta_map(m)).collect(),
            cfg,
        )
        .expect("engine construction"),
    );
    let has_tick = c.ops.iter().any(|o| matches!(o, Op::Tick));
    let rt = tokio::runtime::Builder::new_current_thread().enable_time().build().unwrap();
    let (shutdown_tx, shutdown_rx) = tokio::sync::broadcast::channel::<()>(1);
    let _task = if has_tick {
        let e = engine.clone();
        Some(rt.block_on(async move { e.spawn_flush_task(shutdown_rx) }))
    } else {
        drop(shutdown_rx);
        None
    };
    let ids: Vec<u64> = (0..N_IDS).collect();
    // shadow of successful writes: id -> (bits, meta)
    let mut shadow: BTreeMap<u64, (Bits, MetaI)> = BTreeMap::new();
    for (i, (v, m)) in c.init.iter().enumerate() {
        shadow.insert(i as u64, (p.vbits[*v].clone(), meta_i(m)));
    }
    let mut res = RunResult { outs: vec![], snaps: vec![], adm: vec![], fail: None, resurrections: 0, hot_bound_excess: 0, notes: HashMap::new(), fd: [0; 5] };
    let (mut prev, _) = snapshot(&engine, &st, &p, &ids);
    let mut hot_poked_new = false;
    // filtered-delete bookkeeping: has a mirror entry ever been planted (then the mirror metadata is
    // harness-made and the exactness oracle does not apply); per hot-resident id, the metadata its
    // mirror WOULD hold if every replace had been applied as a merge, and whether a replace dropped
    // a key while the document was hot-resident
    let mut mirror_planted = false;
    let mut merged_view: BTreeMap<u64, MetaI> = BTreeMap::new();
    let mut dropped_while_hot: HashSet<u64> = HashSet::new();
    // (expected ids, returned count, canonical records before the call)
    let mut fd_pending: Option<(Vec<u64>, Option<u64>, Vec<(u64, Bits, MetaI, u64)>)> = None;
    let merge_meta = |old: &MetaI, new: &Meta, merge: bool| -> MetaI {
        let mut b: BTreeMap<u64, u64> = if merge { old.iter().copied().collect() } else { BTreeMap::new() };
        for (k, v) in new {
            b.insert(*k as u64, *v as u64);
        }
        b.into_iter().collect()
    };
    for (k, op) in c.ops.iter().enumerate() {
        st.top.log.lock().unwrap().clear();
        let mut fail: Option<(String, String)> = None;
        let mut set_fail = |kind: &str, why: String| {
            if fail.is_none() {
                fail = Some((kind.to_string(), why));
            }
        };
        // by-design repair: a drain re-creates cold records for mirror-only entries (orphan histories only)
        let mut drain_repair = |shadow: &mut BTreeMap<u64, (Bits, MetaI)>, res: &mut RunResult| {
            for (id, vb, m, _) in &prev.hot {
                if !shadow.contains_key(id) {
                    let pi = p.vbits.iter().position(|b| b == vb);
                    if pi.map(|i| valid_idx(i, c.cosine)).unwrap_or(false) {
                        shadow.insert(*id, (vb.clone(), m.clone()));
                        res.resurrections += 1;
                    }
                }
            }
        };
        let strict = !c.allow_orphans;
        let out = match op {
            Op::Query(id) => {
                let r = engine.query_with_source(*id, None).map(|(v, t)| (bits(&v), tier_code(t)));
                let want = shadow.get(id).map(|x| x.0.clone());
                if r.as_ref().map(|x| x.0.clone()) != want {
                    set_fail("read-mismatch", format!("query_with_source({}) returned {:?}, latest successful write is {:?}", id, r, want));
                }
                Out::Query(r)
            }
            Op::GetDoc(id) => {
                let r = engine.get_document_with_metadata(*id).map(|(v, m)| (bits(&v), meta_idx(&m)));
                if r != shadow.get(id).cloned() {
                    set_fail("read-mismatch", format!("get_document_with_metadata({}) returned {:?}, latest successful write is {:?}", id, r, shadow.get(id)));
                }
                Out::Doc(r)
            }
            Op::Emb(id) => {
                let r = engine.get_embedding_cache_aware(*id).map(|v| bits(&v));
                if r != shadow.get(id).map(|x| x.0.clone()) {
                    set_fail("read-mismatch", format!("get_embedding_cache_aware({}) returned {:?}, latest successful write is {:?}", id, r, shadow.get(id)));
                }
                Out::Vec(r)
            }
            Op::GetMeta(id) => {
                let r = engine.get_metadata(*id).map(|m| meta_idx(&m));
                if r != shadow.get(id).map(|x| x.1.clone()) {
                    set_fail("read-mismatch", format!("get_metadata({}) returned {:?}, latest successful write is {:?}", id, r, shadow.get(id)));
                }
                Out::Meta(r)
            }
            Op::Exists(id) => {
                let r = engine.exists(*id);
                if r != shadow.contains_key(id) {
                    set_fail("read-mismatch", format!("exists({}) returned {}, shadow says {}", id, r, shadow.contains_key(id)));
                }
                Out::Bool(r)
            }
            Op::Bulk(inc, bids) => {
                let r: Vec<Option<(Bits, MetaI, u8)>> = engine
                    .bulk_query_with_source(bids, *inc)
                    .into_iter()
                    .map(|e| e.map(|(v, m, t)| (bits(&v), meta_idx(&m), tier_code(t))))
                    .collect();
                for (i, id) in bids.iter().enumerate() {
                    let want = shadow.get(id).map(|x| (if *inc { x.0.clone() } else { vec![] }, x.1.clone()));
                    let got = r[i].as_ref().map(|x| (x.0.clone(), x.1.clone()));
                    if got != want {
                        set_fail("read-mismatch", format!("bulk_query_with_source position {} (id {}) returned {:?}, expected {:?}", i, id, got, want));
                    }
                }
                Out::Bulk(r)
            }
            Op::Insert(id, v, m) => {
                if c.allow_orphans && prev.hot.len() >= c.hard {
                    drain_repair(&mut shadow, &mut res);
                }
                let r = engine.insert(*id, p.vecs[*v].clone(), meta_map(m));
                let ok = r.is_ok();
                if ok {
                    shadow.insert(*id, (p.vbits[*v].clone(), meta_i(m)));
                }
                if strict && ok != valid_idx(*v, c.cosine) {
                    set_fail("write-result", format!("insert({}, pool vector {}) returned {:?}", id, v, r.as_ref().err().map(|e| e.to_string())));
                }
                if ok && !valid_idx(*v, c.cosine) {
                    set_fail("write-result", format!("insert of an invalid vector (pool {}) was accepted", v));
                }
                Out::Bool(ok)
            }
            Op::Delete(id) => match engine.delete(*id) {
                Ok(b) => {
                    let present = shadow.remove(id).is_some();
                    if strict && b != present {
                        set_fail("write-result", format!("delete({}) returned {} but the document was {}", id, b, if present { "present" } else { "absent" }));
                    }
                    Out::Bool(b)
                }
                Err(e) => {
                    set_fail("unexpected-error", format!("delete({}) failed: {}", id, e));
                    Out::None
                }
            },
            Op::BatchDelete(bids) => match engine.batch_delete(bids) {
                Ok(n) => {
                    let uniq: HashSet<u64> = bids.iter().copied().collect();
                    let present = uniq.iter().filter(|i| shadow.contains_key(i)).count() as u64;
                    for i in &uniq {
                        shadow.remove(i);
                    }
                    if strict && n != present {
                        set_fail("write-result", format!("batch_delete({:?}) returned {} but {} listed documents were present", bids, n, present));
                    }
                    Out::Count(Some(n))
                }
                Err(e) => {
                    set_fail("unexpected-error", format!("batch_delete failed: {}", e));
                    Out::None
                }
            },
            Op::UpdMeta(id, m, merge) => match engine.update_metadata(*id, meta_map(m), *merge) {
                Ok(b) => {
                    let present = shadow.contains_key(id);
                    if let Some(e) = shadow.get_mut(id) {
                        let new = merge_meta(&e.1, m, *merge);
                        if b && prev.hot.iter().any(|h| h.0 == *id) {
                            if !*merge && e.1.iter().any(|(k, _)| !new.iter().any(|(k2, _)| k2 == k)) {
                                dropped_while_hot.insert(*id);
                            }
                            let mv = merged_view.entry(*id).or_insert_with(|| e.1.clone());
                            *mv = merge_meta(mv, m, true);
                        }
                        e.1 = new;
                    }
                    if b != present {
                        set_fail("write-result", format!("update_metadata({}) returned {} but the document was {}", id, b, if present { "present" } else { "absent" }));
                    }
                    Out::Bool(b)
                }
                Err(e) => {
                    set_fail("unexpected-error", format!("update_metadata failed: {}", e));
                    Out::None
                }
            },
            Op::BulkLoad(docs) => {
                let payload: Vec<(u64, Vec<f32>, HashMap<String, String>)> =
                    docs.iter().map(|(i, v, m)| (*i, p.vecs[*v].clone(), meta_map(m))).collect();
                match engine.bulk_load_cold_tier(payload) {
                    Ok((loaded, failed, _, _)) => {
                        let mut want = 0;
                        for (i, v, m) in docs {
                            if valid_idx(*v, c.cosine) {
                                shadow.insert(*i, (p.vbits[*v].clone(), meta_i(m)));
                                want += 1;
                            }
                        }
                        if loaded != want || loaded + failed != docs.len() as u64 {
                            set_fail("write-result", format!("bulk_load_cold_tier loaded {} failed {} of {} ({} valid)", loaded, failed, docs.len(), want));
                        }
                        Out::Load(loaded, failed)
                    }
                    Err(e) => {
                        set_fail("unexpected-error", format!("bulk_load_cold_tier failed: {}", e));
                        Out::None
                    }
                }
            }
            Op::Flush(force) => {
                let drains = *force || prev.hot.len() >= c.soft;
                if c.allow_orphans && drains {
                    drain_repair(&mut shadow, &mut res);
                }
                match engine.flush_hot_tier(*force) {
                    Ok(n) => {
                        if strict && n as usize != (if drains { prev.hot.len() } else { 0 }) {
                            set_fail("write-result", format!("flush_hot_tier({}) returned {} with {} mirror entries", force, n, prev.hot.len()));
                        }
                        Out::Count(Some(n as u64))
                    }
                    Err(e) => {
                        if strict {
                            set_fail("unexpected-error", format!("flush_hot_tier failed: {}", e));
                        }
                        Out::Count(None)
                    }
                }
            }
            Op::Tick => {
                // make the audit due (flush_interval = 1 ms), then let the background task tick
                std::thread::sleep(Duration::from_micros(1300));
                // the task's tick deadlines (period 1 ms) precede this 3 ms deadline; the yields make
                // sure the woken task is polled even when both timers expire in one driver turn
                rt.block_on(async {
                    tokio::time::sleep(Duration::from_millis(3)).await;
                    for _ in 0..4 {
                        tokio::task::yield_now().await;
                    }
                });
                Out::None
            }
            Op::PokeL1(b, id, v, t) => {
                let target = if *b { st.sub_b.as_ref().unwrap_or(&st.sub_a) } else { &st.sub_a };
                target.insert_cached(CachedVector {
                    doc_id: *id,
                    embedding: p.vecs[*v].clone(),
                    coherence: p.tok(t),
                    distance: 0.0,
                    cached_at: Instant::now(),
                });
                Out::None
            }
            Op::PokeHot(id, v, m, t) => {
                if !prev.hot.iter().any(|h| h.0 == *id) {
                    hot_poked_new = true;
                }
                mirror_planted = true;
                engine.hot_tier().insert_with_coherence(*id, p.vecs[*v].clone(), meta_map(m), p.tok(t));
                Out::None
            }
            Op::FilterDelete(f) => {
                let pf = filt_proto(f);
                // canonical metadata of every id, read through the cold tier BEFORE the call, judged by the
                // engine's own reference matcher
                let mut expected: Vec<u64> = vec![];
                let mut before: Vec<(u64, Bits, MetaI, u64)> = vec![];
                for &id in &ids {
                    if let Some((v, t)) = engine.cold_tier().fetch_document_with_coherence(id) {
                        let m = engine.cold_tier().fetch_metadata(id).unwrap_or_default();
                        if metadata_filter::matches(&pf, &m) {
                            expected.push(id);
                        }
                        before.push((id, bits(&v), meta_idx(&m), t.version));
                    }
                }
                res.fd[0] += 1;
                if prev.hot.iter().any(|h| dropped_while_hot.contains(&h.0)) {
                    res.fd[2] += 1;
                }
                if prev.hot.iter().any(|h| {
                    let canon = prev.cold.iter().find(|c| c.0 == h.0).map(|c| c.2.clone());
                    match (merged_view.get(&h.0), canon) {
                        (Some(mv), Some(cm)) => metadata_filter::matches(&pf, &metai_map(mv)) != metadata_filter::matches(&pf, &metai_map(&cm)),
                        _ => false,
                    }
                }) {
                    res.fd[3] += 1;
                }
                if prev.cold.iter().any(|c| !prev.hot.iter().any(|h| h.0 == c.0)) && prev.ctr[3] > 0 {
                    res.fd[4] += 1;
                }
                match engine.batch_delete_by_metadata_filter(&pf) {
                    Ok(n) => {
                        fd_pending = Some((expected, Some(n), before));
                        Out::Count(Some(n))
                    }
                    Err(e) => {
                        set_fail("unexpected-error", format!("batch_delete_by_metadata_filter failed: {}", e));
                        fd_pending = Some((expected, None, before));
                        Out::None
                    }
                }
            }
        };
        let adm = st.top.log.lock().unwrap().last().copied().unwrap_or(false);
        let (snap, problem) = snapshot(&engine, &st, &p, &ids);
        if let Some(pr) = problem {
            set_fail("harness-observation", pr);
        }
        // C11 (tiered level): the filtered delete removed exactly the documents whose canonical metadata
        // matched, reported their number, left every other canonical record as it was and left no mirror
        // entry of a removed document behind
        if let Some((expected, ret, before)) = fd_pending.take() {
            let gone: Vec<u64> = before.iter().map(|b| b.0).filter(|i| !snap.cold.iter().any(|c| c.0 == *i)).collect();
            if !gone.is_empty() {
                res.fd[1] += 1;
            }
            if mirror_planted {
                // harness-planted mirror metadata takes part in the selection by design: follow the engine
                for i in &gone {
                    shadow.remove(i);
                }
            } else {
                for i in &expected {
                    shadow.remove(i);
                }
                let matching_meta = |i: &u64| before.iter().find(|b| b.0 == *i).map(|b| b.2.clone());
                if gone != expected {
                    let extra: Vec<u64> = gone.iter().copied().filter(|i| !expected.contains(i)).collect();
                    let missed: Vec<u64> = expected.iter().copied().filter(|i| !gone.contains(i)).collect();
                    set_fail(
                        "filter-delete-inexact",
                        format!(
                            "batch_delete_by_metadata_filter removed ids {:?}; the ids whose canonical metadata matched the filter (metadata_filter::matches over cold_tier().fetch_metadata before the call) are {:?}; removed although not matching: {:?} (canonical metadata {:?}); matching but kept: {:?}",
                            gone, expected, extra, extra.iter().map(matching_meta).collect::<Vec<_>>(), missed
                        ),
                    );
                } else if ret != Some(expected.len() as u64) {
                    set_fail("filter-delete-count", format!("batch_delete_by_metadata_filter returned {:?} but {} documents matched and were removed", ret, expected.len()));
                }
                for b in &before {
                    if let Some(c) = snap.cold.iter().find(|c| c.0 == b.0) {
                        if c != b {
                            set_fail("filter-delete-survivor-changed", format!("document {} survived the filtered delete but its canonical record changed from {:?} to {:?}", b.0, b, c));
                        }
                    }
                }
                if let Some(c) = snap.cold.iter().find(|c| !before.iter().any(|b| b.0 == c.0)) {
                    set_fail("filter-delete-survivor-changed", format!("document {} appeared during a filtered delete", c.0));
                }
                if let Some(h) = snap.hot.iter().find(|h| expected.contains(&h.0)) {
                    set_fail("filter-delete-mirror-left", format!("the mirror entry of removed document {} survived the filtered delete", h.0));
                }
            }
        }
        // the merged-view bookkeeping follows hot residency: forget ids that left the mirror or were rewritten
        if matches!(op, Op::Insert(..) | Op::BulkLoad(..) | Op::Delete(..) | Op::BatchDelete(..)) {
            let touched: Vec<u64> = match op {
                Op::Insert(i, ..) | Op::Delete(i) => vec![*i],
                Op::BulkLoad(d) => d.iter().map(|x| x.0).collect(),
                Op::BatchDelete(b) => b.clone(),
                _ => vec![],
            };
            for i in touched {
                merged_view.remove(&i);
                dropped_while_hot.remove(&i);
            }
        }
        merged_view.retain(|i, _| snap.hot.iter().any(|h| h.0 == *i));
        dropped_while_hot.retain(|i| snap.hot.iter().any(|h| h.0 == *i));
        // canonical store == latest successful writes, after EVERY operation (drains/audits included)
        let cold_now: BTreeMap<u64, (Bits, MetaI)> = snap.cold.iter().map(|(i, v, m, _)| (*i, (v.clone(), m.clone()))).collect();
        if cold_now != shadow {
            set_fail("cold-diverged", format!("canonical store {:?} differs from the latest successful writes {:?}", cold_now, shadow));
        }
        // C20: sub-cache sizes within capacity; hot tier within the hard limit when an insert returns
        if snap.l1a.len() > c.cap_a || snap.l1b.len() > c.cap_b {
            set_fail("l1-bound", format!("L1a sizes ({}, {}) exceed capacities ({}, {})", snap.l1a.len(), snap.l1b.len(), c.cap_a, c.cap_b));
        }
        if matches!(op, Op::Insert(..)) && snap.hot.len() > c.hard {
            if hot_poked_new {
                res.hot_bound_excess += 1;
            } else {
                set_fail("hot-bound", format!("hot tier holds {} entries after insert returned, hard limit {}", snap.hot.len(), c.hard));
            }
        }
        if snap.hot.is_empty() {
            hot_poked_new = false; // everything in the mirror is of API origin again
        }
        res.outs.push(out);
        res.adm.push(adm);
        prev = snap.clone();
        res.snaps.push(snap);
        if let Some((kind, why)) = fail {
            if res.fail.is_none() {
                res.fail = Some((k, kind, why));
            }
        }
    }
    drop(shutdown_tx);
    res
}

// ------------------------------------------------------------------------------------------------
// JSON (replay) and Gallina formatting
// ------------------------------------------------------------------------------------------------
fn meta_json(m: &Meta) -> Value {
    json!(m.iter().map(|(k, v)| json!([k, v])).collect::<Vec<_>>())
}
fn meta_from(v: &Value) -> Meta {
    v.as_array().unwrap().iter().map(|p| (p[0].as_u64().unwrap() as u8, p[1].as_u64().unwrap() as u8)).collect()
}
fn ids_from(v: &Value) -> Vec<u64> {
    v.as_array().unwrap().iter().map(|x| x.as_u64().unwrap()).collect()
}
fn filt_json(f: &Filt) -> Value {
    match f {
        Filt::All => json!(["all"]),
        Filt::Exact(k, v) => json!(["eq", k, v]),
        Filt::In(k, vs) => json!(["in", k, vs]),
        Filt::Not(g) => json!(["not", filt_json(g)]),
        Filt::NotNone => json!(["notnone"]),
        Filt::And(fs) => json!(["and", fs.iter().map(filt_json).collect::<Vec<_>>()]),
        Filt::Or(fs) => json!(["or", fs.iter().map(filt_json).collect::<Vec<_>>()]),
    }
}
fn filt_from(v: &Value) -> Filt {
    let u = |k: usize| v[k].as_u64().unwrap() as u8;
    match v[0].as_str().unwrap() {
        "all" => Filt::All,
        "eq" => Filt::Exact(u(1), u(2)),
        "in" => Filt::In(u(1), v[2].as_array().unwrap().iter().map(|x| x.as_u64().unwrap() as u8).collect()),
        "not" => Filt::Not(Box::new(filt_from(&v[1]))),
        "notnone" => Filt::NotNone,
        "and" => Filt::And(v[1].as_array().unwrap().iter().map(filt_from).collect()),
        "or" => Filt::Or(v[1].as_array().unwrap().iter().map(filt_from).collect()),
        x => panic!("unknown filter {}", x),
    }
}
fn filt_text(f: &Filt) -> String {
    match f {
        Filt::All => "<unset filter_type>".to_string(),
        Filt::Exact(k, v) => format!("{}=={:?}", KEYS[*k as usize], VALS[*v as usize]),
        Filt::In(k, vs) => format!("{} in {:?}", KEYS[*k as usize], vs.iter().map(|v| VALS[*v as usize]).collect::<Vec<_>>()),
        Filt::Not(g) => format!("NOT({})", filt_text(g)),
        Filt::NotNone => "NOT(<no operand>)".to_string(),
        Filt::And(fs) => format!("AND[{}]", fs.iter().map(filt_text).collect::<Vec<_>>().join(", ")),
        Filt::Or(fs) => format!("OR[{}]", fs.iter().map(filt_text).collect::<Vec<_>>().join(", ")),
    }
}
fn q_filt(f: &Filt) -> String {
    let list = |fs: &Vec<Filt>| format!("[{}]", fs.iter().map(q_filt).collect::<Vec<_>>().join("; "));
    match f {
        Filt::All => "TAll".to_string(),
        Filt::Exact(k, v) => format!("(TExact {} {})", k, v),
        Filt::In(k, vs) => format!("(TIn {} [{}]%N)", k, vs.iter().map(|x| x.to_string()).collect::<Vec<_>>().join(";")),
        Filt::Not(g) => format!("(TNot {})", q_filt(g)),
        Filt::NotNone => "TNotNone".to_string(),
        Filt::And(fs) => format!("(TAnd {})", list(fs)),
        Filt::Or(fs) => format!("(TOr {})", list(fs)),
    }
}
fn op_raw(o: &Op) -> Value {
    match o {
        Op::Query(i) => json!(["Q", i]),
        Op::GetDoc(i) => json!(["G", i]),
        Op::Emb(i) => json!(["E", i]),
        Op::GetMeta(i) => json!(["M", i]),
        Op::Exists(i) => json!(["X", i]),
        Op::Bulk(inc, ids) => json!(["B", inc, ids]),
        Op::Insert(i, v, m) => json!(["I", i, v, meta_json(m)]),
        Op::Delete(i) => json!(["D", i]),
        Op::BatchDelete(ids) => json!(["BD", ids]),
        Op::UpdMeta(i, m, mg) => json!(["U", i, meta_json(m), mg]),
        Op::BulkLoad(d) => json!(["L", d.iter().map(|(i, v, m)| json!([i, v, meta_json(m)])).collect::<Vec<_>>()]),
        Op::Flush(f) => json!(["F", f]),
        Op::Tick => json!(["T"]),
        Op::PokeL1(b, i, v, t) => json!(["P1", b, i, v, t.ver, t.dig]),
        Op::PokeHot(i, v, m, t) => json!(["PH", i, v, meta_json(m), t.ver, t.dig]),
        Op::FilterDelete(f) => json!(["FD", filt_json(f)]),
    }
}
fn op_from(v: &Value) -> Op {
    let u = |k: usize| v[k].as_u64().unwrap();
    match v[0].as_str().unwrap() {
        "Q" => Op::Query(u(1)),
        "G" => Op::GetDoc(u(1)),
        "E" => Op::Emb(u(1)),
        "M" => Op::GetMeta(u(1)),
        "X" => Op::Exists(u(1)),
        "B" => Op::Bulk(v[1].as_bool().unwrap(), ids_from(&v[2])),
        "I" => Op::Insert(u(1), u(2) as usize, meta_from(&v[3])),
        "D" => Op::Delete(u(1)),
        "BD" => Op::BatchDelete(ids_from(&v[1])),
        "U" => Op::UpdMeta(u(1), meta_from(&v[2]), v[3].as_bool().unwrap()),
        "L" => Op::BulkLoad(v[1].as_array().unwrap().iter().map(|d| (d[0].as_u64().unwrap(), d[1].as_u64().unwrap() as usize, meta_from(&d[2]))).collect()),
        "F" => Op::Flush(v[1].as_bool().unwrap()),
        "T" => Op::Tick,
        "P1" => Op::PokeL1(v[1].as_bool().unwrap(), u(2), u(3) as usize, Tok { ver: u(4), dig: v[5].as_i64().unwrap() }),
        "PH" => Op::PokeHot(u(1), u(2) as usize, meta_from(&v[3]), Tok { ver: u(4), dig: v[5].as_i64().unwrap() }),
        "FD" => Op::FilterDelete(filt_from(&v[1])),
        x => panic!("unknown op {}", x),
    }
}
fn op_text(o: &Op) -> String {
    match o {
        Op::Query(i) => format!("query_with_source({})", i),
        Op::GetDoc(i) => format!("get_document_with_metadata({})", i),
        Op::Emb(i) => format!("get_embedding_cache_aware({})", i),
        Op::GetMeta(i) => format!("get_metadata({})", i),
        Op::Exists(i) => format!("exists({})", i),
        Op::Bulk(inc, ids) => format!("bulk_query_with_source({:?}, include_embeddings={})", ids, inc),
        Op::Insert(i, v, m) => format!("insert({}, pool#{}, meta{:?})", i, v, m),
        Op::Delete(i) => format!("delete({})", i),
        Op::BatchDelete(ids) => format!("batch_delete({:?})", ids),
        Op::UpdMeta(i, m, mg) => format!("update_metadata({}, meta{:?}, merge={})", i, m, mg),
        Op::BulkLoad(d) => format!("bulk_load_cold_tier({:?})", d),
        Op::Flush(f) => format!("flush_hot_tier(force={})", f),
        Op::Tick => "background tick (audit_hot_tier_coherence_if_due; threshold drain)".to_string(),
        Op::PokeL1(b, i, v, t) => format!("POKE L1a[{}].insert_cached(id {}, pool#{}, token(v{}, digest of pool#{}))", if *b { "B" } else { "A" }, i, v, t.ver, t.dig),
        Op::PokeHot(i, v, m, t) => format!("POKE hot_tier().insert_with_coherence(id {}, pool#{}, meta{:?}, token(v{}, digest of pool#{}))", i, v, m, t.ver, t.dig),
        Op::FilterDelete(f) => format!("batch_delete_by_metadata_filter({})", filt_text(f)),
    }
}
fn case_json(c: &Case, r: Option<&RunResult>) -> Value {
    let sname = ["lru", "learned-untrained", "learned-trained", "learned+semantic", "ab(lru|learned)"][c.strategy as usize];
    let mut v = json!({
        "strategy": c.strategy, "strategy_name": sname,
        "cap_a": c.cap_a, "cap_b": c.cap_b, "soft": c.soft, "hard": c.hard, "cosine": c.cosine,
        "init": c.init.iter().map(|(v, m)| json!([v, meta_json(m)])).collect::<Vec<_>>(),
        "allow_orphans": c.allow_orphans,
        "max_el": c.max_el,
        "ops": c.ops.iter().map(op_text).collect::<Vec<_>>(),
        "ops_raw": c.ops.iter().map(op_raw).collect::<Vec<_>>(),
    });
    if let Some(r) = r {
        v["results"] = json!(r.outs.iter().map(|o| format!("{:?}", o)).collect::<Vec<_>>());
        v["sizes_after_each_op(cold,hot,l1a,l1b)"] = json!(r.snaps.iter().map(|s| json!([s.cold.len(), s.hot.len(), s.l1a.len(), s.l1b.len()])).collect::<Vec<_>>());
    }
    v
}
fn case_from_json(v: &Value) -> Case {
    Case {
        strategy: v["strategy"].as_u64().unwrap() as u8,
        cap_a: v["cap_a"].as_u64().unwrap() as usize,
        cap_b: v["cap_b"].as_u64().unwrap() as usize,
        soft: v["soft"].as_u64().unwrap() as usize,
        hard: v["hard"].as_u64().unwrap() as usize,
        cosine: v["cosine"].as_bool().unwrap(),
        init: v["init"].as_array().unwrap().iter().map(|d| (d[0].as_u64().unwrap() as usize, meta_from(&d[1]))).collect(),
        allow_orphans: v["allow_orphans"].as_bool().unwrap(),
        max_el: v["max_el"].as_u64().unwrap_or(512) as usize,
        ops: v["ops_raw"].as_array().unwrap().iter().map(op_from).collect(),
    }
}

fn q_vec(b: &Bits, vb: &(usize, Vec<Bits>)) -> String {
    match vb.1.iter().position(|x| x == b) {
        Some(i) => format!("(V {})", i + vb.0),
        None => format!("[{}]%Z", b.iter().map(|x| x.to_string()).collect::<Vec<_>>().join(";")),
    }
}
fn q_meta(m: &MetaI) -> String {
    if m.is_empty() {
        "mnil".to_string()
    } else {
        format!("[{}]%N", m.iter().map(|(k, v)| format!("({},{})", k, v)).collect::<Vec<_>>().join(";"))
    }
}
fn q_tok(t: &Tok, off: usize) -> String {
    format!("(T {} ({}))", t.ver, if t.dig < 0 { t.dig } else { t.dig + off as i64 })
}
fn q_tier(t: u8) -> &'static str {
    ["TCache", "THot", "TCold"][t as usize]
}
fn q_ids(ids: &[u64]) -> String {
    format!("[{}]%N", ids.iter().map(|x| x.to_string()).collect::<Vec<_>>().join(";"))
}
fn q_op(o: &Op, adm: bool, off: usize) -> String {
    match o {
        Op::Query(i) => format!("oQ {} {}", adm, i),
        Op::GetDoc(i) => format!("oG {}", i),
        Op::Emb(i) => format!("oE {}", i),
        Op::GetMeta(i) => format!("oM {}", i),
        Op::Exists(i) => format!("oX {}", i),
        Op::Bulk(inc, ids) => format!("OBulk {} {}", inc, q_ids(ids)),
        Op::Insert(i, v, m) => format!("oI {} {} {}", i, v + off, q_meta(&meta_i(m))),
        Op::Delete(i) => format!("oD {}", i),
        Op::BatchDelete(ids) => format!("OBatchDelete {}", q_ids(ids)),
        Op::UpdMeta(i, m, mg) => format!("oU {} {} {}", i, q_meta(&meta_i(m)), mg),
        Op::BulkLoad(d) => format!("OBulkLoad [{}]", d.iter().map(|(i, v, m)| format!("dc {} {} {}", i, v + off, q_meta(&meta_i(m)))).collect::<Vec<_>>().join("; ")),
        Op::Flush(f) => format!("OFlush {}", f),
        Op::Tick => "OTick".to_string(),
        Op::PokeL1(b, i, v, t) => format!("oP1 {} {} {} {}", b, i, v + off, q_tok(t, off)),
        Op::PokeHot(i, v, m, t) => format!("oPH {} {} {} {}", i, v + off, q_meta(&meta_i(m)), q_tok(t, off)),
        Op::FilterDelete(f) => format!("OFilterDelete {}", q_filt(f)),
    }
}
fn q_out(o: &Out, vb: &(usize, Vec<Bits>)) -> String {
    match o {
        Out::Query(None) => "RQuery None".to_string(),
        Out::Query(Some((v, t))) => format!("RQuery (Some ({}, {}))", q_vec(v, vb), q_tier(*t)),
        Out::Doc(None) => "RDoc None".to_string(),
        Out::Doc(Some((v, m))) => format!("RDoc (Some ({}, {}))", q_vec(v, vb), q_meta(m)),
        Out::Vec(None) => "RVec None".to_string(),
        Out::Vec(Some(v)) => format!("RVec (Some {})", q_vec(v, vb)),
        Out::Meta(None) => "RMeta None".to_string(),
        Out::Meta(Some(m)) => format!("RMeta (Some {})", q_meta(m)),
        Out::Bool(b) => format!("RBool {}", b),
        Out::Bulk(r) => format!(
            "RBulk [{}]",
            r.iter()
                .map(|e| match e {
                    None => "None".to_string(),
                    Some((v, m, t)) => format!("Some ({}, {}, {})", if v.is_empty() { "vnil".to_string() } else { q_vec(v, vb) }, q_meta(m), q_tier(*t)),
                })
                .collect::<Vec<_>>()
                .join("; ")
        ),
        Out::Count(None) => "RCount None".to_string(),
        Out::Count(Some(n)) => format!("RCount (Some {})", n),
        Out::Load(a, b) => format!("RLoad {} {}", a, b),
        Out::None => "RNone".to_string(),
    }
}
fn q_snap(s: &Snapshot, vb: &(usize, Vec<Bits>)) -> String {
    format!(
        "SN [{}] [{}] [{}] [{}] ({},{},{},{})",
        s.cold.iter().map(|(i, v, m, ver)| format!("sc {} {} {} {}", i, q_vec(v, vb), q_meta(m), ver)).collect::<Vec<_>>().join("; "),
        s.hot.iter().map(|(i, v, m, t)| format!("sh {} {} {} {}", i, q_vec(v, vb), q_meta(m), q_tok(t, vb.0))).collect::<Vec<_>>().join("; "),
        s.l1a.iter().map(|(i, v, t)| format!("sl {} {} {}", i, q_vec(v, vb), q_tok(t, vb.0))).collect::<Vec<_>>().join("; "),
        s.l1b.iter().map(|(i, v, t)| format!("sl {} {} {}", i, q_vec(v, vb), q_tok(t, vb.0))).collect::<Vec<_>>().join("; "),
        s.ctr[0], s.ctr[1], s.ctr[2], s.ctr[3]
    )
}
fn coq_case(id: usize, c: &Case, r: &RunResult, fd: bool) -> String {
    let p = Pools::new(c.cosine);
    let off = if c.cosine { N_POOL } else { 0 };
    let vb = (off, p.vbits.clone());
    // in the `--filter-deletes` stream the history is a list of `opx` (OApi o | OFilterDelete f)
    let ops: Vec<String> = c
        .ops
        .iter()
        .zip(r.adm.iter())
        .map(|(o, a)| if fd && !matches!(o, Op::FilterDelete(_)) { format!("OApi ({})", q_op(o, *a, off)) } else { q_op(o, *a, off) })
        .collect();
    let obs: Vec<String> = r.outs.iter().zip(r.snaps.iter()).map(|(o, s)| format!("({}, {})", q_out(o, &vb), q_snap(s, &vb))).collect();
    format!(
        "CS {} {} (mkCfg {} {} {} {} {}) [{}]\n   [{}]\n   [{}]",
        id,
        c.cosine,
        c.cap_a,
        c.cap_b,
        c.strategy == 4,
        c.soft,
        c.hard,
        c.init.iter().enumerate().map(|(i, (v, m))| format!("dc {} {} {}", i, v + off, q_meta(&meta_i(m)))).collect::<Vec<_>>().join("; "),
        ops.join("; "),
        obs.join(";\n    ")
    )
}
fn coq_pool(cosine: bool) -> String {
    pool(cosine)
        .iter()
        .map(|v| format!("[{}]%Z", v.iter().map(|x| x.to_bits().to_string()).collect::<Vec<_>>().join(";")))
        .collect::<Vec<_>>()
        .join("; ")
}
fn cases_file(body: &str, fd: bool) -> String {
    let text = format!(
        r#"From Coq Require Import List NArith ZArith Bool Arith.
From Kyro Require Import Model.TMap Model.Tiered.
Import ListNotations.
(* vector pools (exact f32 bit patterns): euclidean / cosine histories *)
Definition VPE : list vec := [{}].
Definition VPC : list vec := [{}].
(* digest is instantiated by the identity on the bit list (injective); the ZERO digest by [-1] *)
Definition dg (v : vec) : dgst := v.
Definition mnil : meta := [].
Definition vnil : vec := [].
Record cs := CS {{ cs_id : N; cs_cos : bool; cs_cfg : config; cs_init : list (N * vec * meta);
                  cs_ops : list op; cs_obs : list (out * snapshot) }}.
(* pool index: 0..9 euclidean pool, 10..19 cosine pool *)
Definition V (i : nat) : vec := nth i (VPE ++ VPC) [].
Definition D (i : Z) : dgst := if (i <? 0)%Z then [(-1)%Z] else V (Z.to_nat i).
Definition T (ver : N) (d : Z) : token := (ver, D d).
Definition dc (id : N) (v : nat) (m : meta) : N * vec * meta := (id, V v, m).
Definition oQ (a : bool) (id : N) := OQuery a id.
Definition oG (id : N) := OGetDoc id.
Definition oE (id : N) := OEmb id.
Definition oM (id : N) := OGetMeta id.
Definition oX (id : N) := OExists id.
Definition oI (id : N) (v : nat) (m : meta) := OInsert id (V v) m.
Definition oD (id : N) := ODelete id.
Definition oU (id : N) (m : meta) (mg : bool) := OUpdMeta id m mg.
Definition oP1 (b : bool) (id : N) (v : nat) (t : token) := OPokeL1 b id (V v) t.
Definition oPH (id : N) (v : nat) (m : meta) (t : token) := OPokeHot id (V v) m t.
Definition sc (id : N) (v : vec) (m : meta) (ver : N) : N * (vec * meta * N) := (id, (v, m, ver)).
Definition sh (id : N) (v : vec) (m : meta) (t : token) : N * (vec * meta * token) := (id, (v, m, t)).
Definition sl (id : N) (v : vec) (t : token) : N * (vec * token) := (id, (v, t)).
Definition SN (a : list (N * (vec * meta * N))) (b : list (N * (vec * meta * token))) (x y : list (N * (vec * token)))
  (k : nat * nat * nat * nat) : snapshot := (a, b, x, y, k).
(* vectors the cold tier accepts: pool entries 0..6, and 7 (the zero vector) under the euclidean metric *)
Definition vl (cosine : bool) (v : vec) : bool :=
  existsb (vec_eqb v) (firstn (if cosine then 7 else 8) (if cosine then VPC else VPE)).
"#,
        coq_pool(false),
        coq_pool(true)
    );
    // the `--filter-deletes` stream runs the extended operation type of Model/Tiered.v
    let text = if fd { text.replace("cs_ops : list op;", "cs_ops : list opx;") } else { text };
    text + body
}

fn main() {
    kvh::panicrec::install();
    let args: Vec<String> = std::env::args().collect();
    let mut out = String::from("/verif/.cache/run/C04");
    let mut n = 300usize;
    let mut replay: Option<String> = None;
    let mut shrink: Option<String> = None;
    let mut fd_mode = false;
    let mut i = 1;
    while i < args.len() {
        match args[i].as_str() {
            "--out" => { out = args[i + 1].clone(); i += 1 }
            "--n" => { n = args[i + 1].parse().unwrap(); i += 1 }
            "--replay" => { replay = Some(args[i + 1].clone()); i += 1 }
            "--shrink" => { shrink = Some(args[i + 1].clone()); i += 1 }
            "--filter-deletes" => fd_mode = true,
            _ => {}
        }
        i += 1;
    }
    std::fs::create_dir_all(&out).unwrap();
    let load = |p: &str| -> Case {
        let v: Value = serde_json::from_str(&std::fs::read_to_string(p).unwrap()).unwrap();
        let cv = if v.get("case").is_some() { v["case"].clone() } else { v };
        case_from_json(&cv)
    };
    if let Some(p) = &shrink {
        // delta debugging on the op list: keep a candidate while the direct oracle still fails with the same kind
        let mut c = load(p);
        let base = run_case(&c);
        let kind = match &base.fail {
            Some(f) => f.1.clone(),
            None => {
                println!("c04: --shrink: the case does not fail the oracle");
                std::fs::write(format!("{}/shrunk.json", out), serde_json::to_string_pretty(&case_json(&c, Some(&base))).unwrap()).unwrap();
                return;
            }
        };
        let fails = |c: &Case| run_case(c).fail.map(|f| f.1 == kind).unwrap_or(false);
        let mut chunk = (c.ops.len() / 2).max(1);
        loop {
            let mut progress = false;
            let mut start = 0;
            while start < c.ops.len() {
                let mut cand = c.clone();
                let end = (start + chunk).min(cand.ops.len());
                cand.ops.drain(start..end);
                if !cand.ops.is_empty() && fails(&cand) {
                    c = cand;
                    progress = true;
                } else {
                    start += chunk;
                }
            }
            if chunk == 1 && !progress {
                break;
            }
            if !progress {
                chunk = (chunk / 2).max(1);
            }
        }
        let r = run_case(&c);
        std::fs::write(format!("{}/shrunk.json", out), serde_json::to_string_pretty(&case_json(&c, Some(&r))).unwrap()).unwrap();
        println!("c04: shrunk to {} ops ({})", c.ops.len(), kind);
        return;
    }
    let mut cases: Vec<Case> = vec![];
    let mut n_directed = 0;
    if let Some(p) = &replay {
        cases.push(load(p));
    } else if fd_mode {
        // C11 (tiered level): own corpus, own directed histories, own generator; the forks carry a
        // distinct tag range so that the two streams never share a sub-seed
        if let Ok(rd) = std::fs::read_dir("/verif/corpus/C11tier") {
            let mut ps: Vec<_> = rd.filter_map(|e| e.ok()).map(|e| e.path()).collect();
            ps.sort();
            for p in ps {
                if let Ok(s) = std::fs::read_to_string(&p) {
                    if let Ok(v) = serde_json::from_str::<Value>(&s) {
                        let cv = if v.get("case").is_some() { v["case"].clone() } else { v };
                        cases.push(case_from_json(&cv));
                    }
                }
            }
        }
        let d = directed_fd();
        n_directed = d.len();
        cases.extend(d);
        let mut rng = Rng::from_env();
        for k in 0..n {
            let mut r = rng.fork(0x0C11_0000_0000 + k as u64);
            cases.push(gen_case_fd(&mut r));
        }
    } else {
        if let Ok(rd) = std::fs::read_dir("/verif/corpus/C04") {
            let mut ps: Vec<_> = rd.filter_map(|e| e.ok()).map(|e| e.path()).collect();
            ps.sort();
            for p in ps {
                if let Ok(s) = std::fs::read_to_string(&p) {
                    if let Ok(v) = serde_json::from_str::<Value>(&s) {
                        let cv = if v.get("case").is_some() { v["case"].clone() } else { v };
                        cases.push(case_from_json(&cv));
                    }
                }
            }
        }
        let d = directed();
        n_directed = d.len();
        cases.extend(d);
        let mut rng = Rng::from_env();
        for k in 0..n {
            let mut r = rng.fork(k as u64);
            cases.push(gen_case(&mut r));
        }
    }
    // a replayed / corpus history containing a filtered delete is printed over `opx` as well
    let fd_out = fd_mode || cases.iter().any(|c| c.ops.iter().any(|o| matches!(o, Op::FilterDelete(_))));
    let mut fd_tot = [0u64; 5];
    let mut fd_histories = 0u64;
    let t0 = Instant::now();
    let mut oracle_fail = vec![];
    let mut all = vec![];
    let mut samples = vec![];
    let mut hist: BTreeMap<String, u64> = BTreeMap::new();
    let mut bump = |k: &str, n: u64| *hist.entry(k.to_string()).or_insert(0) += n;
    let mut distinct = HashSet::new();
    let mut nontrivial = 0u64;
    let mut nontrivial_c20 = 0u64;
    let (mut resurrections, mut excess, mut orphan_cases) = (0u64, 0u64, 0u64);
    let mut total_ops = 0u64;
    let per_shard = ((cases.len() + 15) / 16).max(8);
    let mut shards: Vec<String> = vec![];
    let mut cur = String::new();
    let mut in_cur = 0usize;
    for (id, c) in cases.iter().enumerate() {
        let r = run_case(c);
        total_ops += c.ops.len() as u64;
        bump(&format!("strategy:{}", ["lru", "learned-untrained", "learned-trained", "learned+semantic", "ab"][c.strategy as usize]), 1);
        bump(&format!("cap_a:{}", c.cap_a), 1);
        bump(&format!("hard:{}", c.hard), 1);
        bump(&format!("soft:{}", c.soft), 1);
        bump(if c.cosine { "metric:cosine" } else { "metric:euclidean" }, 1);
        if c.allow_orphans {
            orphan_cases += 1;
        }
        let mut rewritten: HashSet<u64> = HashSet::new();
        let mut served_after_rewrite = 0u64;
        let mut scrubs = 0u64;
        let mut evictions = 0u64;
        let mut emergency = 0u64;
        let mut prev: Option<&Snapshot> = None;
        for (k, o) in c.ops.iter().enumerate() {
            let kind = op_raw(o)[0].as_str().unwrap().to_string();
            bump(&format!("op:{}", kind), 1);
            let s = &r.snaps[k];
            match (&r.outs[k], o) {
                (Out::Query(Some((_, t))), Op::Query(i)) => {
                    bump(&format!("query:{}", ["cache", "hot", "cold"][*t as usize]), 1);
                    if *t != 2 && rewritten.contains(i) {
                        served_after_rewrite += 1;
                    }
                    bump(if r.adm[k] { "admission:true" } else { "admission:false" }, if *t != 0 { 1 } else { 0 });
                }
                (Out::Query(None), _) => bump("query:not-found", 1),
                (Out::Bool(b), Op::Insert(i, ..)) => {
                    bump(if *b { "insert:ok" } else { "insert:err" }, 1);
                    rewritten.insert(*i);
                }
                (_, Op::Delete(i)) => {
                    rewritten.insert(*i);
                }
                (_, Op::BulkLoad(d)) => {
                    for (i, _, _) in d {
                        rewritten.insert(*i);
                    }
                }
                (Out::Count(None), Op::Flush(_)) => bump("flush:err", 1),
                _ => {}
            }
            if let Some(pv) = prev {
                let is_read = matches!(o, Op::Query(_) | Op::GetDoc(_) | Op::Emb(_) | Op::Bulk(..) | Op::Tick);
                if is_read && (s.hot.len() < pv.hot.len() || s.l1a.len() + s.l1b.len() < pv.l1a.len() + pv.l1b.len()) {
                    scrubs += 1;
                }
                if matches!(o, Op::Query(_) | Op::PokeL1(..)) {
                    // an LRU eviction: some other id left the cache while this one entered
                    let gone = pv.l1a.iter().filter(|e| !s.l1a.iter().any(|x| x.0 == e.0)).count() + pv.l1b.iter().filter(|e| !s.l1b.iter().any(|x| x.0 == e.0)).count();
                    let came = s.l1a.iter().filter(|e| !pv.l1a.iter().any(|x| x.0 == e.0)).count() + s.l1b.iter().filter(|e| !pv.l1b.iter().any(|x| x.0 == e.0)).count();
                    if gone > 0 && came > 0 {
                        evictions += 1;
                    }
                }
                if s.ctr[1] > pv.ctr[1] {
                    emergency += 1;
                }
            }
            prev = Some(s);
        }
        bump("scrubbed-stale-entries(reads)", scrubs);
        bump("lru-evictions", evictions);
        bump("emergency-drains", emergency);
        bump("served-from-cache/hot-after-rewrite", served_after_rewrite);
        resurrections += r.resurrections;
        excess += r.hot_bound_excess;
        for k in 0..5 {
            fd_tot[k] += r.fd[k];
        }
        if r.fd[0] > 0 {
            fd_histories += 1;
        }
        let key = format!("{:?}{:?}", c, r.outs);
        let fresh = distinct.insert(key);
        if fresh && (scrubs > 0 || served_after_rewrite > 0 || emergency > 0) {
            nontrivial += 1;
        }
        if fresh && (evictions > 0 || emergency > 0) {
            nontrivial_c20 += 1;
        }
        if let Some((k, kind, why)) = &r.fail {
            oracle_fail.push(json!({"id": id, "op_index": k, "kind": kind, "why": why, "case": case_json(c, Some(&r))}));
        }
        if samples.len() < 2 && id >= n_directed && c.ops.len() <= 12 {
            samples.push(case_json(c, Some(&r)));
        }
        all.push(case_json(c, None));
        if in_cur >= per_shard {
            shards.push(std::mem::take(&mut cur));
            in_cur = 0;
        }
        if !cur.is_empty() {
            cur.push_str(";\n  ");
        }
        // the case literal is abstracted over the metric flag so that V/T/dc resolve in the right pool
        let lit = coq_case(id, c, &r, fd_out);
        let _ = write!(cur, "{}", lit);
        in_cur += 1;
    }
    if !cur.is_empty() {
        shards.push(cur);
    }
    for (k, body) in shards.iter().enumerate() {
        let text = cases_file(&format!(
            "{}\nDefinition cases : list cs := [\n  {}\n].\nDefinition bad : list (N * N) := flat_map (fun x => let cz := cs_cos x in match first_diff 0 (trace dg (vl cz) (cs_cfg x) (init (cs_init x)) (cs_ops x)) (cs_obs x) with None => [] | Some k => [(cs_id x, N.of_nat k)] end) cases.\nGoal True. idtac \"@@bad\". Abort.\nEval vm_compute in bad.\nGoal True. idtac \"@@count\". Abort.\nEval vm_compute in (N.of_nat (length cases), N.of_nat (fold_left (fun a x => a + length (cs_ops x)) cases 0)).\n",
            "", body
        ), fd_out);
        let text = if fd_out { text.replace("first_diff 0 (trace dg", "first_diff 0 (tracex dg") } else { text };
        std::fs::write(format!("{}/cases_{}.v", out, k), text).unwrap();
    }
    drop(bump);
    let mut summary = json!({
        "cases": cases.len(), "directed": n_directed, "shards": shards.len(), "ops": total_ops,
        "oracle_failures": oracle_fail,
        "distinct": distinct.len(), "nontrivial": nontrivial, "nontrivial_c20": nontrivial_c20,
        "orphan_histories": orphan_cases, "orphan_resurrections": resurrections, "hot_excess_after_poke": excess,
        "histogram": hist, "samples": samples,
        "run_seconds": t0.elapsed().as_secs_f64(),
    });
    if fd_out {
        summary["filter_deletes"] = json!({
            "histories_with_filtered_delete": fd_histories,
            "filtered_deletes": fd_tot[0],
            "removed_at_least_one_document": fd_tot[1],
            "with_hot_resident_document_after_key_dropping_replace": fd_tot[2],
            "selection_differs_if_mirror_merged_replaces": fd_tot[3],
            "with_cold_only_documents_after_a_drain": fd_tot[4],
        });
    }
    std::fs::write(format!("{}/summary.json", out), serde_json::to_string_pretty(&summary).unwrap()).unwrap();
    std::fs::write(format!("{}/all_cases.json", out), serde_json::to_string(&all).unwrap()).unwrap();
    println!("c04: {} cases, {} ops, {} oracle failures, {:.1}s", cases.len(), total_ops, summary["oracle_failures"].as_array().unwrap().len(), t0.elapsed().as_secs_f64());
}
