//! C14 driver: tenant vector quotas of the real kyrodb_server binary.
//! usage: c14 --out DIR --n N --reps R [--threads T] [--race-threads T] [--replay FILE]
//!
//! (i)  sequential scripts: tenant A ("acme", max_vectors ∈ {1,2,3}) works at its limit while tenant B
//!      ("bolt") writes and deletes the SAME local ids in between. After every RPC the driver takes
//!      the caller's BulkQuery census and GET /usage vector_count; `Probe` events insert a fresh id
//!      (RESOURCE_EXHAUSTED iff the count is at the limit) and delete it again when admitted;
//!      `Restart` stops the server gracefully and starts it again on the same data directory.
//!      Everything goes into cases_<k>.v where coqc evaluates Model/Quota.v's `check_script`, and the
//!      direct oracles (implementation observations only) run here.
//! (ii) races: many repetitions of two concurrent RPCs of ONE tenant on the same id against the real
//!      binary, a fresh tenant (max_vectors = 2) per repetition; after each pair the driver waits for
//!      both answers, takes the census and measures the server's count by filling up with fresh ids
//!      until RESOURCE_EXHAUSTED. drift = census size - measured count.
use kvh::rng::Rng;
use kvh_srv::*;
use serde_json::{json, Value};
use std::collections::{BTreeMap, HashSet};
use std::time::{Duration, Instant};

// ------------------------------------------------------------------------------------------ script
#[derive(Clone, Copy, Debug, PartialEq, Eq, Hash)]
enum VK {
    Good(u8),
    Empty,
    NonFinite,
    WrongDim,
    Zero,
}
#[derive(Clone, Debug, PartialEq, Eq, Hash)]
struct It {
    id: u64,
    vk: VK,
    tag: u8,
}
#[derive(Clone, Debug, PartialEq, Eq, Hash)]
enum Sel {
    All,
    Tags(Vec<u8>),
    Nothing,
}
#[derive(Clone, Debug, PartialEq, Eq, Hash)]
enum Op {
    Insert(It),
    BulkInsert(Vec<It>),
    BulkLoad(Vec<It>),
    Delete(u64),
    BatchDeleteIds(Vec<u64>),
    BatchDeleteFilter(Sel),
    BatchDeleteNone,
    Probe(u64),
}
#[derive(Clone, Debug, PartialEq, Eq, Hash)]
enum Ev {
    Call(usize, Op),
    Restart,
}
#[derive(Clone, Debug)]
struct Script {
    limit_a: u64,
    limit_b: u64,
    cosine: bool,
    /// tenant A has a second enabled API key (as during a key rotation): the start-up recount iterates keys
    two_keys: bool,
    evs: Vec<Ev>,
}
const TENANTS: [&str; 2] = ["acme", "bolt"]; // sorted => tenant index = position
const PROBE_ID: u64 = 9;
const CENSUS: [u64; 9] = [1, 2, 3, 4, 5, 6, 7, 8, 9];

fn opname(e: &Ev) -> &'static str {
    match e {
        Ev::Restart => "Restart",
        Ev::Call(_, op) => match op {
            Op::Insert(_) => "Insert",
            Op::BulkInsert(_) => "BulkInsert",
            Op::BulkLoad(_) => "BulkLoadHnsw",
            Op::Delete(_) => "Delete",
            Op::BatchDeleteIds(_) => "BatchDeleteIds",
            Op::BatchDeleteFilter(_) => "BatchDeleteFilter",
            Op::BatchDeleteNone => "BatchDeleteNone",
            Op::Probe(_) => "Probe",
        },
    }
}

fn gen_id(r: &mut Rng, pool: &[u64]) -> u64 {
    match r.below(40) {
        0 => 0,
        1 => 1u64 << 32,
        2 => u64::MAX,
        _ => *r.pick(pool),
    }
}
fn gen_item(r: &mut Rng, pool: &[u64]) -> It {
    let vk = match r.below(20) {
        0 => VK::Empty,
        1 | 2 => VK::NonFinite,
        3 | 4 => VK::WrongDim,
        5 | 6 => VK::Zero,
        _ => VK::Good(r.below(4) as u8),
    };
    It { id: gen_id(r, pool), vk, tag: r.range(1, 3) as u8 }
}
fn gen_script(r: &mut Rng, idx: usize) -> Script {
    let limit_a = 1 + (idx as u64 % 3);
    let limit_b = if r.chance(1, 4) { 2 } else { 1_000_000 };
    let cosine = idx % 3 == 1;
    let pool: Vec<u64> = (1..=(limit_a + 2)).collect(); // a few more ids than slots
    let mut evs: Vec<Ev> = vec![];
    // directed prefix: A fills up to its limit; B writes the same local ids
    for i in 1..=limit_a {
        evs.push(Ev::Call(0, Op::Insert(It { id: i, vk: VK::Good(0), tag: 1 + (i % 3) as u8 })));
        if r.chance(1, 2) {
            evs.push(Ev::Call(1, Op::Insert(It { id: i, vk: VK::Good(1), tag: 1 })));
        }
    }
    evs.push(Ev::Call(0, Op::Probe(PROBE_ID)));
    let len = evs.len() + r.range(18, 30) as usize;
    let mut restarts = 0;
    while evs.len() < len {
        let t = if r.chance(3, 4) { 0 } else { 1 };
        let ev = match r.below(100) {
            0..=24 => Ev::Call(t, Op::Insert(gen_item(r, &pool))),
            25..=33 => Ev::Call(t, Op::BulkInsert((0..r.range(1, 4)).map(|_| gen_item(r, &pool)).collect())),
            34..=43 => Ev::Call(t, Op::BulkLoad((0..r.range(1, 4)).map(|_| gen_item(r, &pool)).collect())),
            44..=58 => Ev::Call(t, Op::Delete(gen_id(r, &pool))),
            59..=67 => {
                if r.chance(1, 3) {
                    // the same id twice, NOT adjacent (a `dedup` without a sort keeps both)
                    let (x, y) = (gen_id(r, &pool), gen_id(r, &pool));
                    Ev::Call(t, Op::BatchDeleteIds(if r.chance(1, 2) { vec![x, y, x] } else { vec![x, y, y.saturating_add(1), x] }))
                } else {
                    Ev::Call(t, Op::BatchDeleteIds((0..r.range(0, 4)).map(|_| if r.chance(1, 8) { 0 } else { gen_id(r, &pool) }).collect()))
                }
            }
            68..=73 => Ev::Call(
                t,
                Op::BatchDeleteFilter(match r.below(6) {
                    0 => Sel::All,
                    1 => Sel::Nothing,
                    _ => Sel::Tags((0..r.range(1, 2)).map(|_| r.range(1, 3) as u8).collect()),
                }),
            ),
            74 => Ev::Call(t, Op::BatchDeleteNone),
            75..=94 => Ev::Call(t, Op::Probe(PROBE_ID)),
            _ => {
                if restarts < 2 {
                    restarts += 1;
                    Ev::Restart
                } else {
                    Ev::Call(0, Op::Probe(PROBE_ID))
                }
            }
        };
        evs.push(ev);
    }
    evs.push(Ev::Call(0, Op::Probe(PROBE_ID)));
    evs.push(Ev::Call(1, Op::Probe(PROBE_ID)));
    Script { limit_a, limit_b, cosine, two_keys: idx % 2 == 0, evs }
}

// ------------------------------------------------------------------------------------------ JSON (replays)
fn vk_json(v: &VK) -> Value {
    match v {
        VK::Good(i) => json!(["good", i]),
        VK::Empty => json!(["empty"]),
        VK::NonFinite => json!(["nonfinite"]),
        VK::WrongDim => json!(["wrongdim"]),
        VK::Zero => json!(["zero"]),
    }
}
fn vk_from(v: &Value) -> VK {
    match v[0].as_str().unwrap_or("") {
        "good" => VK::Good(v[1].as_u64().unwrap_or(0) as u8),
        "empty" => VK::Empty,
        "nonfinite" => VK::NonFinite,
        "wrongdim" => VK::WrongDim,
        _ => VK::Zero,
    }
}
fn it_json(i: &It) -> Value {
    json!({"id": i.id, "vk": vk_json(&i.vk), "tag": i.tag})
}
fn it_from(v: &Value) -> It {
    It { id: v["id"].as_u64().unwrap_or(0), vk: vk_from(&v["vk"]), tag: v["tag"].as_u64().unwrap_or(1) as u8 }
}
fn sel_json(s: &Sel) -> Value {
    match s {
        Sel::All => json!(["all"]),
        Sel::Nothing => json!(["nothing"]),
        Sel::Tags(t) => json!(["tags", t]),
    }
}
fn sel_from(v: &Value) -> Sel {
    match v[0].as_str().unwrap_or("") {
        "all" => Sel::All,
        "tags" => Sel::Tags(v[1].as_array().map(|a| a.iter().map(|x| x.as_u64().unwrap_or(1) as u8).collect()).unwrap_or_default()),
        _ => Sel::Nothing,
    }
}
fn ev_json(e: &Ev) -> Value {
    match e {
        Ev::Restart => json!(["Restart"]),
        Ev::Call(t, op) => {
            let o = match op {
                Op::Insert(i) => json!(["Insert", it_json(i)]),
                Op::BulkInsert(v) => json!(["BulkInsert", v.iter().map(it_json).collect::<Vec<_>>()]),
                Op::BulkLoad(v) => json!(["BulkLoad", v.iter().map(it_json).collect::<Vec<_>>()]),
                Op::Delete(id) => json!(["Delete", id]),
                Op::BatchDeleteIds(ids) => json!(["BatchDeleteIds", ids]),
                Op::BatchDeleteFilter(s) => json!(["BatchDeleteFilter", sel_json(s)]),
                Op::BatchDeleteNone => json!(["BatchDeleteNone"]),
                Op::Probe(id) => json!(["Probe", id]),
            };
            json!(["Call", t, o])
        }
    }
}
fn ev_from(v: &Value) -> Ev {
    if v[0] == "Restart" {
        return Ev::Restart;
    }
    let t = v[1].as_u64().unwrap_or(0) as usize;
    let o = &v[2];
    let its = |x: &Value| -> Vec<It> { x.as_array().map(|a| a.iter().map(it_from).collect()).unwrap_or_default() };
    let op = match o[0].as_str().unwrap_or("") {
        "Insert" => Op::Insert(it_from(&o[1])),
        "BulkInsert" => Op::BulkInsert(its(&o[1])),
        "BulkLoad" => Op::BulkLoad(its(&o[1])),
        "Delete" => Op::Delete(o[1].as_u64().unwrap_or(0)),
        "BatchDeleteIds" => Op::BatchDeleteIds(o[1].as_array().map(|a| a.iter().map(|x| x.as_u64().unwrap_or(0)).collect()).unwrap_or_default()),
        "BatchDeleteFilter" => Op::BatchDeleteFilter(sel_from(&o[1])),
        "BatchDeleteNone" => Op::BatchDeleteNone,
        _ => Op::Probe(o[1].as_u64().unwrap_or(PROBE_ID)),
    };
    Ev::Call(t, op)
}
fn script_json(s: &Script) -> Value {
    json!({"limit_a": s.limit_a, "limit_b": s.limit_b, "cosine": s.cosine, "two_keys": s.two_keys, "evs": s.evs.iter().map(ev_json).collect::<Vec<_>>()})
}
fn script_from(v: &Value) -> Script {
    Script {
        limit_a: v["limit_a"].as_u64().unwrap_or(2),
        limit_b: v["limit_b"].as_u64().unwrap_or(1_000_000),
        two_keys: v["two_keys"].as_bool().unwrap_or(false),
        cosine: v["cosine"].as_bool().unwrap_or(false),
        evs: v["evs"].as_array().map(|a| a.iter().map(ev_from).collect()).unwrap_or_default(),
    }
}

// ------------------------------------------------------------------------------------------ running a script
#[derive(Clone, Debug, PartialEq)]
enum Resp {
    ErrInvalid,
    ErrExhausted,
    ErrInternal,
    OkInsert(u64, u64),
    OkLoad(u64, u64),
    OkExisted(bool),
    OkBatch(u64),
    OkProbe(bool),
    OkRestart,
    Other(String), // outside the modelled vocabulary: always reported
}
#[derive(Clone, Debug)]
struct Obs {
    resp: Resp,
    who: usize,
    census: Vec<u64>,
    usage: u64,
    note: String,
}
fn vector(vk: &VK) -> Vec<f32> {
    match vk {
        VK::Good(0) => vec![1.0, 0.0],
        VK::Good(1) => vec![0.0, 1.0],
        VK::Good(2) => vec![0.6, 0.8],
        VK::Good(_) => vec![-1.0, 0.0],
        VK::Empty => vec![],
        VK::NonFinite => vec![f32::NAN, 1.0],
        VK::WrongDim => vec![1.0, 0.0, 0.0],
        VK::Zero => vec![0.0, 0.0],
    }
}
fn to_item(i: &It) -> Item {
    Item { doc_id: i.id, embedding: vector(&i.vk), metadata: vec![("color".to_string(), i.tag.to_string())], namespace: String::new() }
}
fn err_resp(e: &RpcErr) -> Resp {
    match e.code {
        Code::InvalidArgument => Resp::ErrInvalid,
        Code::ResourceExhausted => Resp::ErrExhausted,
        Code::Internal => Resp::ErrInternal,
        c => Resp::Other(format!("{}: {}", c.name(), e.message)),
    }
}
fn census_of(s: &Server, key: &str, ids: &[u64]) -> Result<Vec<u64>, String> {
    match s.bulk_query(Some(key), ids, false, "") {
        Ok(r) => {
            let mut v: Vec<u64> = r.results.iter().filter(|q| q.found).map(|q| q.doc_id).collect();
            v.sort();
            Ok(v)
        }
        Err(e) => Err(format!("census failed: {:?}", e)),
    }
}
fn usage_of(s: &Server, key: &str, tenant: &str) -> Result<u64, String> {
    let u = s.usage(Some(key), None)?;
    if u.status != 200 {
        return Err(format!("/usage answered {}", u.status));
    }
    Ok(u.tenants.iter().find(|r| r.tenant_id == tenant).map(|r| r.vector_count).unwrap_or(0))
}
fn server_opts(name: &str, sc: &Script) -> ServerOpts {
    let mut o = ServerOpts::new("C14", name);
    o.tenants = vec![TenantSpec::new(TENANTS[0]).max_vectors(sc.limit_a), TenantSpec::new(TENANTS[1]).max_vectors(sc.limit_b)];
    if sc.two_keys {
        o.tenants.push(TenantSpec::new(TENANTS[0]).max_vectors(sc.limit_a).key(&kvh_srv::make_key(TENANTS[0], 1)));
    }
    if sc.cosine {
        o.distance = "cosine".into();
    }
    o
}
fn run_op(s: &Server, key: &str, op: &Op) -> (Resp, String) {
    let mut note = String::new();
    let r = match op {
        Op::Insert(i) => match s.insert_item(Some(key), &to_item(i)) {
            Ok(r) if r.success => Resp::OkInsert(r.total_inserted, r.total_failed),
            Ok(r) => Resp::Other(format!("Insert answered success=false: {:?}", r)),
            Err(e) => err_resp(&e),
        },
        Op::BulkInsert(v) => match s.bulk_insert(Some(key), &v.iter().map(to_item).collect::<Vec<_>>()) {
            Ok(r) => {
                if r.success != (r.total_failed == 0) {
                    note = "success flag inconsistent with total_failed".into();
                }
                Resp::OkInsert(r.total_inserted, r.total_failed)
            }
            Err(e) => err_resp(&e),
        },
        Op::BulkLoad(v) => match s.bulk_load_hnsw(Some(key), &v.iter().map(to_item).collect::<Vec<_>>()) {
            Ok(r) => Resp::OkLoad(r.total_loaded, r.total_failed),
            Err(e) => err_resp(&e),
        },
        Op::Delete(id) => match s.delete(Some(key), *id, "") {
            Ok(r) => Resp::OkExisted(r.existed),
            Err(e) => err_resp(&e),
        },
        Op::BatchDeleteIds(ids) => match s.batch_delete_ids(Some(key), ids, "") {
            Ok(r) => Resp::OkBatch(r.deleted_count),
            Err(e) => err_resp(&e),
        },
        Op::BatchDeleteFilter(sel) => {
            let f = match sel {
                Sel::All => f_empty(),
                Sel::Nothing => f_or(vec![]),
                Sel::Tags(t) => {
                    let vs: Vec<String> = t.iter().map(|x| x.to_string()).collect();
                    f_in("color", &vs.iter().map(|x| x.as_str()).collect::<Vec<_>>())
                }
            };
            match s.batch_delete_filter(Some(key), f, "") {
                Ok(r) => Resp::OkBatch(r.deleted_count),
                Err(e) => err_resp(&e),
            }
        }
        Op::BatchDeleteNone => match s.batch_delete_none(Some(key), "") {
            Ok(r) => Resp::OkBatch(r.deleted_count),
            Err(e) => err_resp(&e),
        },
        Op::Probe(id) => match s.insert(Some(key), *id, &[0.6, 0.8], &[("color", "0")], "") {
            Err(e) if e.code == Code::ResourceExhausted => Resp::OkProbe(true),
            Ok(r) if r.success => match s.delete(Some(key), *id, "") {
                Ok(d) if d.existed => Resp::OkProbe(false),
                other => Resp::Other(format!("probe document could not be deleted again: {:?}", other)),
            },
            other => Resp::Other(format!("probe insert answered {:?}", other)),
        },
    };
    (r, note)
}
fn run_script(name: &str, sc: &Script) -> Result<(Vec<Obs>, f64), String> {
    let mut s = Server::start(server_opts(name, sc))?;
    let startup = s.startup.as_secs_f64();
    let keys: Vec<String> = TENANTS.iter().map(|t| s.key(t)).collect();
    let mut out = vec![];
    for e in &sc.evs {
        let (resp, who, note) = match e {
            Ev::Restart => {
                // the model's restart is "graceful stop at a quiescent point, start on the same data dir";
                // a SIGTERM that does not end in a clean exit (8 s timeout under load) is outside it
                if !s.stop_graceful()? {
                    return Err("server did not exit cleanly on SIGTERM (restart precondition not met; script not judged)".into());
                }
                s.restart()?;
                (Resp::OkRestart, 0usize, String::new())
            }
            Ev::Call(t, op) => {
                let (r, note) = run_op(&s, &keys[*t], op);
                (r, *t, note)
            }
        };
        let census = census_of(&s, &keys[who], &CENSUS)?;
        let usage = usage_of(&s, &keys[who], TENANTS[who])?;
        out.push(Obs { resp, who, census, usage, note });
    }
    s.kill();
    let _ = std::fs::remove_dir_all(&s.dir);
    Ok((out, startup))
}

// ------------------------------------------------------------------------------------------ Gallina
fn cn(x: u64) -> String {
    format!("{}%N", x)
}
fn cvk(v: &VK) -> &'static str {
    match v {
        VK::Good(_) => "VGood",
        VK::Empty => "VEmpty",
        VK::NonFinite => "VNonFinite",
        VK::WrongDim => "VWrongDim",
        VK::Zero => "VZero",
    }
}
fn cids(v: &[u64]) -> String {
    format!("[{}]", v.iter().map(|x| cn(*x)).collect::<Vec<_>>().join("; "))
}
fn citem(i: &It) -> String {
    format!("(mkQItem {} {} {})", cn(i.id), cvk(&i.vk), cn(i.tag as u64))
}
fn cev(e: &Ev) -> String {
    match e {
        Ev::Restart => "QRestart".into(),
        Ev::Call(t, op) => {
            let o = match op {
                Op::Insert(i) => format!("QInsert {}", citem(i)),
                Op::BulkInsert(v) => format!("QBulkInsert [{}]", v.iter().map(citem).collect::<Vec<_>>().join("; ")),
                Op::BulkLoad(v) => format!("QBulkLoad [{}]", v.iter().map(citem).collect::<Vec<_>>().join("; ")),
                Op::Delete(id) => format!("QDelete {}", cn(*id)),
                Op::BatchDeleteIds(ids) => format!("QBatchDeleteIds {}", cids(ids)),
                Op::BatchDeleteFilter(Sel::All) => "QBatchDeleteFilter SelAll".into(),
                Op::BatchDeleteFilter(Sel::Nothing) => "QBatchDeleteFilter SelNothing".into(),
                Op::BatchDeleteFilter(Sel::Tags(t)) => format!("QBatchDeleteFilter (SelTags {})", cids(&t.iter().map(|x| *x as u64).collect::<Vec<_>>())),
                Op::BatchDeleteNone => "QBatchDeleteNone".into(),
                Op::Probe(id) => format!("QProbe {}", cn(*id)),
            };
            format!("QCall {} ({})", cn(*t as u64), o)
        }
    }
}
fn cresp(r: &Resp) -> Option<String> {
    Some(match r {
        Resp::ErrInvalid => "QErrInvalid".into(),
        Resp::ErrExhausted => "QErrExhausted".into(),
        Resp::ErrInternal => "QErrInternal".into(),
        Resp::OkInsert(a, b) => format!("(QOkInsert {} {})", cn(*a), cn(*b)),
        Resp::OkLoad(a, b) => format!("(QOkLoad {} {})", cn(*a), cn(*b)),
        Resp::OkExisted(b) => format!("(QOkExisted {})", b),
        Resp::OkBatch(n) => format!("(QOkBatch {})", cn(*n)),
        Resp::OkProbe(b) => format!("(QOkProbe {})", b),
        Resp::OkRestart => "QOkRestart".into(),
        Resp::Other(_) => return None,
    })
}
fn coq_case(cid: usize, sc: &Script, obs: &[Obs]) -> (String, Vec<usize>) {
    let mut unprintable = vec![];
    let mut parts = vec![];
    for (i, (e, o)) in sc.evs.iter().zip(obs.iter()).enumerate() {
        let r = match cresp(&o.resp) {
            Some(t) => t,
            None => {
                unprintable.push(i);
                "QOkRestart".to_string()
            }
        };
        parts.push(format!("mkQObs ({}) {} {} {} {}", cev(e), r, cn(o.who as u64), cids(&o.census), cn(o.usage)));
    }
    (
        format!(
            "({}, mkQCfg (fun t => if t =? 0 then {} else if t =? 1 then {} else 0) {}, [\n   {}])",
            cn(cid as u64),
            cn(sc.limit_a),
            cn(sc.limit_b),
            sc.cosine,
            parts.join(";\n   ")
        ),
        unprintable,
    )
}

// ------------------------------------------------------------------------------------------ direct oracles (sequential)
/// Implementation observations only. Returns (event index, why).
fn seq_oracles(sc: &Script, obs: &[Obs]) -> Vec<(usize, String)> {
    let mut bad = vec![];
    for (i, (e, o)) in sc.evs.iter().zip(obs.iter()).enumerate() {
        let limit = if o.who == 0 { sc.limit_a } else { sc.limit_b };
        let n = o.census.len() as u64;
        if let Resp::Other(s) = &o.resp {
            bad.push((i, format!("{} answered outside the expected status classes: {}", opname(e), s)));
        }
        if !o.note.is_empty() {
            bad.push((i, o.note.clone()));
        }
        if o.usage != n {
            bad.push((i, format!("/usage vector_count {} != census size {} (tenant {})", o.usage, n, TENANTS[o.who])));
        }
        if n > limit {
            bad.push((i, format!("tenant {} holds {} live documents, limit {}", TENANTS[o.who], n, limit)));
        }
        match (&o.resp, e) {
            (Resp::OkProbe(true), _) if n != limit => bad.push((i, format!("probe insert of a fresh id refused with {} live documents, limit {}", n, limit))),
            (Resp::OkProbe(false), _) if n >= limit => bad.push((i, format!("probe insert of a fresh id admitted with {} live documents, limit {}", n, limit))),
            (Resp::ErrExhausted, Ev::Call(_, Op::Insert(_))) if n != limit => bad.push((i, format!("Insert refused (RESOURCE_EXHAUSTED) with {} live documents, limit {}", n, limit))),
            _ => {}
        }
        // an Insert of an id that was live right before must never be refused for quota
        if let (Resp::ErrExhausted, Ev::Call(t, Op::Insert(it))) = (&o.resp, e) {
            let before = (0..i).rev().find(|j| obs[*j].who == *t).map(|j| obs[j].census.clone()).unwrap_or_default();
            if before.contains(&it.id) {
                bad.push((i, format!("overwrite of live id {} refused for quota", it.id)));
            }
        }
    }
    bad
}

// ------------------------------------------------------------------------------------------ races
#[derive(Clone, Copy, Debug, PartialEq, Eq, Hash, PartialOrd, Ord)]
enum Pair {
    OverwriteDelete,    // X live: Insert(X) || Delete(X)
    InsertNewDelete,    // X absent: Insert(X) || Delete(X) (the delete is sent after the insert)
    BulkInsertDelete,   // X live: BulkInsert[X, X] || Delete(X)
    BulkLoadNewDelete,  // X absent: BulkLoadHnsw[X] || Delete(X) (delete sent after)
    BulkLoadOverDelete, // X live: BulkLoadHnsw[X] || Delete(X)
    DeleteBatchDelete,  // X live: Delete(X) || BatchDelete[X]
    InsertInsertSame,   // control: X absent: Insert(X) || Insert(X)
    InsertInsertDiff,   // control: one free slot: Insert(X) || Insert(Z)
}
const PAIRS: [Pair; 8] = [
    Pair::OverwriteDelete,
    Pair::InsertNewDelete,
    Pair::BulkInsertDelete,
    Pair::BulkLoadNewDelete,
    Pair::BulkLoadOverDelete,
    Pair::DeleteBatchDelete,
    Pair::InsertInsertSame,
    Pair::InsertInsertDiff,
];
fn pair_name(p: Pair) -> &'static str {
    match p {
        Pair::OverwriteDelete => "overwrite||delete",
        Pair::InsertNewDelete => "insert(new)||delete",
        Pair::BulkInsertDelete => "bulk_insert(overwrite)||delete",
        Pair::BulkLoadNewDelete => "bulk_load(new)||delete",
        Pair::BulkLoadOverDelete => "bulk_load(overwrite)||delete",
        Pair::DeleteBatchDelete => "delete||batch_delete",
        Pair::InsertInsertSame => "insert||insert(same id)",
        Pair::InsertInsertDiff => "insert||insert(different ids)",
    }
}
fn pair_from(s: &str) -> Option<Pair> {
    PAIRS.iter().copied().find(|p| pair_name(*p) == s)
}
fn involves_delete(p: Pair) -> bool {
    !matches!(p, Pair::InsertInsertSame | Pair::InsertInsertDiff)
}
#[derive(Clone, Copy, Debug, PartialEq, Eq, Hash, PartialOrd, Ord)]
enum Variant {
    Small, // dimension 2, small metadata, fsync full
    Wide,  // dimension 1024, ~8 KiB metadata per document (slower WAL append under the write gate)
}
fn variant_name(v: Variant) -> &'static str {
    match v {
        Variant::Small => "dim2-fsync-full",
        Variant::Wide => "dim1024-8KiB-metadata-fsync-full",
    }
}
const RACE_LIMIT: u64 = 2;
const X: u64 = 1;
const Y: u64 = 2;
const Z: u64 = 3;
const FILL0: u64 = 100;

struct RaceRep {
    drift: i64, // census size - measured count
    max_census: u64,
    outcome: String,
    usage_minus_census: i64,
    detail: Value,
}
fn race_vec(v: Variant, salt: u32) -> Vec<f32> {
    match v {
        Variant::Small => vec![1.0, 0.25 * (1 + salt % 3) as f32],
        Variant::Wide => (0..1024).map(|i| 0.5 + ((i as u32 + salt) % 7) as f32 * 0.125).collect(),
    }
}
fn race_meta(v: Variant) -> Meta {
    match v {
        Variant::Small => vec![("color".into(), "1".into())],
        Variant::Wide => (0..32).map(|i| (format!("k{:02}", i), "v".repeat(250))).collect(),
    }
}
fn class(r: &Result<String, RpcErr>) -> String {
    match r {
        Ok(s) => s.clone(),
        Err(e) => format!("err:{}", e.code.name()),
    }
}
/// one repetition on a fresh tenant
#[allow(clippy::too_many_arguments)]
fn race_rep(s: &Server, ch2: &tonic::transport::Channel, key: &str, tenant: &str, pair: Pair, v: Variant, delay_us: u64, second_first: bool) -> Result<RaceRep, String> {
    use proto::kyro_db_service_client::KyroDbServiceClient;
    let item = |id: u64, salt: u32| Item { doc_id: id, embedding: race_vec(v, salt), metadata: race_meta(v), namespace: String::new() };
    let pb_item = |id: u64, salt: u32| proto::InsertRequest { doc_id: id, embedding: race_vec(v, salt), metadata: race_meta(v).into_iter().collect(), namespace: String::new() };
    // ---- set-up: Y is ballast (keeps the saturating counter away from 0)
    let must = |r: Rpc<InsertOut>, what: &str| -> Result<(), String> {
        match r {
            Ok(o) if o.success => Ok(()),
            other => Err(format!("race set-up {} failed: {:?}", what, other)),
        }
    };
    must(s.insert_item(Some(key), &item(Y, 0)), "insert Y")?;
    let x_live = matches!(pair, Pair::OverwriteDelete | Pair::BulkInsertDelete | Pair::BulkLoadOverDelete | Pair::DeleteBatchDelete);
    if x_live {
        must(s.insert_item(Some(key), &item(X, 1)), "insert X")?;
    }
    if pair == Pair::InsertInsertDiff {
        // exactly one free slot: Y live, limit 2; X and Z compete
    }
    // ---- the two concurrent RPCs (separate connections)
    let mut c1 = s.raw_client();
    let mut c2 = KyroDbServiceClient::new(ch2.clone());
    let k = key.to_string();
    let first = async {
        let r: Result<String, RpcErr> = match pair {
            Pair::OverwriteDelete | Pair::InsertNewDelete | Pair::InsertInsertSame | Pair::InsertInsertDiff => c1
                .insert(with_key(pb_item(X, 2), Some(&k)))
                .await
                .map(|r| format!("insert:{}", r.into_inner().success))
                .map_err(|e| RpcErr { code: Code::from_tonic(e.code()), message: e.message().to_string() }),
            Pair::BulkInsertDelete => c1
                .bulk_insert(with_key(tokio_stream_iter(vec![pb_item(X, 2), pb_item(X, 3)]), Some(&k)))
                .await
                .map(|r| {
                    let r = r.into_inner();
                    format!("bulk_insert:{}/{}", r.total_inserted, r.total_failed)
                })
                .map_err(|e| RpcErr { code: Code::from_tonic(e.code()), message: e.message().to_string() }),
            Pair::BulkLoadNewDelete | Pair::BulkLoadOverDelete => c1
                .bulk_load_hnsw(with_key(tokio_stream_iter(vec![pb_item(X, 2)]), Some(&k)))
                .await
                .map(|r| {
                    let r = r.into_inner();
                    format!("bulk_load:{}/{}", r.total_loaded, r.total_failed)
                })
                .map_err(|e| RpcErr { code: Code::from_tonic(e.code()), message: e.message().to_string() }),
            Pair::DeleteBatchDelete => c1
                .batch_delete(with_key(
                    proto::BatchDeleteRequest { delete_criteria: Some(proto::batch_delete_request::DeleteCriteria::Ids(proto::IdList { doc_ids: vec![X] })), namespace: String::new() },
                    Some(&k),
                ))
                .await
                .map(|r| format!("batch_delete:{}", r.into_inner().deleted_count))
                .map_err(|e| RpcErr { code: Code::from_tonic(e.code()), message: e.message().to_string() }),
        };
        r
    };
    let k2 = key.to_string();
    let second = async {
        let r: Result<String, RpcErr> = match pair {
            Pair::InsertInsertSame => c2
                .insert(with_key(pb_item(X, 4), Some(&k2)))
                .await
                .map(|r| format!("insert:{}", r.into_inner().success))
                .map_err(|e| RpcErr { code: Code::from_tonic(e.code()), message: e.message().to_string() }),
            Pair::InsertInsertDiff => c2
                .insert(with_key(pb_item(Z, 4), Some(&k2)))
                .await
                .map(|r| format!("insert:{}", r.into_inner().success))
                .map_err(|e| RpcErr { code: Code::from_tonic(e.code()), message: e.message().to_string() }),
            _ => c2
                .delete(with_key(proto::DeleteRequest { doc_id: X, namespace: String::new() }, Some(&k2)))
                .await
                .map(|r| format!("delete:{}", r.into_inner().existed))
                .map_err(|e| RpcErr { code: Code::from_tonic(e.code()), message: e.message().to_string() }),
        };
        r
    };
    let d = Duration::from_micros(delay_us);
    let (r1, r2) = s.runtime().block_on(async {
        if second_first {
            tokio::join!(
                async {
                    tokio::time::sleep(d).await;
                    first.await
                },
                second
            )
        } else {
            tokio::join!(first, async {
                tokio::time::sleep(d).await;
                second.await
            })
        }
    });
    // ---- quiescent: census, usage, then measure the count by filling up
    let census = census_of(s, key, &[X, Y, Z])?;
    let usage = usage_of(s, key, tenant)?;
    let mut admitted = 0u64;
    let mut max_census = census.len() as u64;
    let mut fill_note = String::new();
    for j in 0..(RACE_LIMIT + 2) {
        match s.insert_item(Some(key), &item(FILL0 + j, 5)) {
            Ok(o) if o.success => {
                admitted += 1;
                max_census = max_census.max(census.len() as u64 + admitted);
            }
            Err(e) if e.code == Code::ResourceExhausted => break,
            other => {
                fill_note = format!("fill insert answered {:?}", other);
                break;
            }
        }
    }
    if !fill_note.is_empty() {
        return Err(fill_note);
    }
    // admitted = limit - count (when count <= limit); more than limit+1 admissions cannot be told apart
    let measured = RACE_LIMIT as i64 - admitted as i64;
    let drift = census.len() as i64 - measured;
    let outcome = format!("{} | {} -> census {:?}", class(&r1), class(&r2), census);
    Ok(RaceRep {
        drift,
        max_census,
        outcome: outcome.clone(),
        usage_minus_census: usage as i64 - census.len() as i64,
        detail: json!({"first": class(&r1), "second": class(&r2), "census_after_pair": census, "usage_vector_count": usage,
                       "fresh_ids_admitted_until_refusal": admitted, "limit": RACE_LIMIT, "measured_count": measured,
                       "live_documents_after_fill": max_census}),
    })
}
fn tokio_stream_iter<T>(v: Vec<T>) -> impl tokio_stream::Stream<Item = T> {
    tokio_stream::iter(v)
}

struct RaceBlock {
    pair: Pair,
    variant: Variant,
    reps: u64,
    drift_short: u64, // count < live (tenant can exceed its limit)
    drift_long: u64,  // count > live (tenant refused below its limit)
    over_limit: u64,  // repetitions in which the tenant ended with more live documents than its limit
    usage_drift: u64,
    outcomes: BTreeMap<String, u64>,
    first_hit: Option<Value>,
    errors: Vec<String>,
    wall_s: f64,
}
fn race_block(pair: Pair, v: Variant, reps: u64, seed_rng: &mut Rng, tag: &str) -> RaceBlock {
    let t0 = Instant::now();
    let mut b = RaceBlock { pair, variant: v, reps: 0, drift_short: 0, drift_long: 0, over_limit: 0, usage_drift: 0, outcomes: BTreeMap::new(), first_hit: None, errors: vec![], wall_s: 0.0 };
    let per_server = 400u64;
    let mut done = 0u64;
    let mut server_no = 0;
    while done < reps {
        let n = per_server.min(reps - done);
        let mut o = ServerOpts::new("C14", &format!("{}race-{}-{}-{}", tag, pair_name(pair).replace(['|', '(', ')', ' '], "_"), variant_name(v), server_no));
        server_no += 1;
        o.tenants = (0..n).map(|i| TenantSpec::new(&format!("t{:04}", i)).max_vectors(RACE_LIMIT)).collect();
        if v == Variant::Wide {
            o.dimension = 1024;
        }
        let s = match Server::start(o) {
            Ok(s) => s,
            Err(e) => {
                b.errors.push(format!("server start: {}", e));
                break;
            }
        };
        let ch2 = match s.runtime().block_on(async { tonic::transport::Endpoint::from_shared(format!("http://127.0.0.1:{}", s.grpc_port)).unwrap().connect().await }) {
            Ok(c) => c,
            Err(e) => {
                b.errors.push(format!("second connection: {}", e));
                break;
            }
        };
        for i in 0..n {
            let tenant = format!("t{:04}", i);
            let key = s.key(&tenant);
            // the delete (or second insert) is sent `delay` after / before the first RPC
            let delay_us = *seed_rng.pick(&[0u64, 0, 50, 100, 200, 300, 500, 800, 1200, 2000, 3000]);
            let second_first = match pair {
                Pair::InsertNewDelete | Pair::BulkLoadNewDelete => false, // the delete must find the document
                _ => seed_rng.chance(2, 3),
            };
            match race_rep(&s, &ch2, &key, &tenant, pair, v, delay_us, second_first) {
                Ok(r) => {
                    b.reps += 1;
                    *b.outcomes.entry(format!("{}{}", r.outcome, if r.drift != 0 { format!(" DRIFT {:+}", r.drift) } else { String::new() })).or_default() += 1;
                    if r.drift > 0 {
                        b.drift_short += 1;
                    }
                    if r.drift < 0 {
                        b.drift_long += 1;
                    }
                    if r.max_census > RACE_LIMIT {
                        b.over_limit += 1;
                    }
                    if r.usage_minus_census != 0 {
                        b.usage_drift += 1;
                    }
                    if (r.drift != 0 || r.max_census > RACE_LIMIT) && b.first_hit.is_none() {
                        b.first_hit = Some(json!({"pair": pair_name(pair), "variant": variant_name(v), "repetition": done + i, "delay_us": delay_us,
                            "second_rpc_sent_first": second_first, "drift_live_minus_count": r.drift, "observed": r.detail}));
                    }
                }
                Err(e) => {
                    if b.errors.len() < 5 {
                        b.errors.push(e);
                    }
                }
            }
        }
        done += n;
        let mut s = s;
        s.kill();
        let _ = std::fs::remove_dir_all(&s.dir);
    }
    b.wall_s = t0.elapsed().as_secs_f64();
    b
}

// ------------------------------------------------------------------------------------------ main
struct SeqOutcome {
    script: Script,
    obs: Vec<Obs>,
    failures: Vec<(usize, String)>,
    startup: f64,
}
fn main() {
    let args: Vec<String> = std::env::args().collect();
    let mut out = String::from("/verif/.cache/run/C14/out");
    let mut n = 30usize;
    let mut reps = 150u64;
    let mut threads = 6usize;
    let mut race_threads = 3usize;
    let mut replay: Option<String> = None;
    let mut i = 1;
    while i < args.len() {
        match args[i].as_str() {
            "--out" => {
                out = args[i + 1].clone();
                i += 1
            }
            "--n" => {
                n = args[i + 1].parse().unwrap();
                i += 1
            }
            "--reps" => {
                reps = args[i + 1].parse().unwrap();
                i += 1
            }
            "--threads" => {
                threads = args[i + 1].parse().unwrap();
                i += 1
            }
            "--race-threads" => {
                race_threads = args[i + 1].parse().unwrap();
                i += 1
            }
            "--replay" => {
                replay = Some(args[i + 1].clone());
                i += 1
            }
            _ => {}
        }
        i += 1;
    }
    std::fs::create_dir_all(&out).unwrap();
    let tag = format!("p{}-", std::process::id() % 1000);
    let mut rng = Rng::from_env();

    // ---- what to run
    let mut scripts: Vec<Script> = vec![];
    let mut race_plan: Vec<(Pair, Variant, u64)> = vec![];
    if let Some(p) = &replay {
        let v: Value = serde_json::from_str(&std::fs::read_to_string(p).unwrap()).unwrap();
        if v["kind"] == "race" || v.get("pair").is_some() {
            let pair = pair_from(v["pair"].as_str().unwrap_or("")).unwrap_or(Pair::OverwriteDelete);
            let var = if v["variant"].as_str().unwrap_or("") == variant_name(Variant::Wide) { Variant::Wide } else { Variant::Small };
            race_plan.push((pair, var, v["repetitions"].as_u64().unwrap_or(reps.max(400))));
        } else {
            let cv = if v.get("case").is_some() { v["case"].clone() } else { v.clone() };
            scripts.push(script_from(&cv));
        }
    } else {
        if let Ok(rd) = std::fs::read_dir("/verif/corpus/C14") {
            let mut ps: Vec<_> = rd.filter_map(|e| e.ok()).map(|e| e.path()).collect();
            ps.sort();
            for p in ps {
                if let Ok(s) = std::fs::read_to_string(&p) {
                    if let Ok(v) = serde_json::from_str::<Value>(&s) {
                        let cv = if v.get("case").is_some() { v["case"].clone() } else { v.clone() };
                        if cv.get("evs").is_some() {
                            scripts.push(script_from(&cv));
                        }
                    }
                }
            }
        }
        for k in 0..n {
            let mut r = rng.fork(k as u64);
            scripts.push(gen_script(&mut r, k));
        }
        for p in PAIRS {
            let ctl = !involves_delete(p);
            race_plan.push((p, Variant::Small, if ctl { reps / 2 } else { reps }));
            if !ctl {
                race_plan.push((p, Variant::Wide, (reps / 3).max(1)));
            }
        }
    }

    // ---- sequential scripts (worker pool)
    let t0 = Instant::now();
    let work = std::sync::Arc::new(std::sync::Mutex::new((0usize, Vec::<(usize, Result<SeqOutcome, String>)>::new())));
    let scripts = std::sync::Arc::new(scripts);
    let mut hs = vec![];
    for _ in 0..threads.max(1) {
        let work = work.clone();
        let scripts = scripts.clone();
        let tag = tag.clone();
        hs.push(std::thread::spawn(move || loop {
            let k = {
                let mut w = work.lock().unwrap();
                let k = w.0;
                w.0 += 1;
                k
            };
            if k >= scripts.len() {
                break;
            }
            let sc = &scripts[k];
            let r = run_script(&format!("{}seq{}", tag, k), sc).map(|(obs, startup)| {
                let failures = seq_oracles(sc, &obs);
                SeqOutcome { script: sc.clone(), obs, failures, startup }
            });
            work.lock().unwrap().1.push((k, r));
        }));
    }
    for h in hs {
        let _ = h.join();
    }
    let mut results = std::mem::take(&mut work.lock().unwrap().1);
    results.sort_by_key(|(k, _)| *k);
    let seq_wall = t0.elapsed().as_secs_f64();

    let mut failures: Vec<Value> = vec![];
    let mut run_errors: Vec<Value> = vec![];
    let mut all: Vec<Value> = vec![];
    let mut hist: BTreeMap<String, u64> = BTreeMap::new();
    let mut resp_hist: BTreeMap<String, u64> = BTreeMap::new();
    let mut case_texts: Vec<String> = vec![];
    let mut distinct = HashSet::new();
    let mut nontrivial = 0u64;
    let mut rpcs = 0u64;
    let mut events = 0u64;
    let mut startup_sum = 0.0;
    let mut samples = vec![];
    let mut feature: BTreeMap<String, u64> = BTreeMap::new();
    for (k, r) in results {
        let o = match r {
            Ok(o) => o,
            Err(e) => {
                run_errors.push(json!({"id": k, "error": e}));
                continue;
            }
        };
        startup_sum += o.startup;
        let mut refusals = 0;
        let mut at_limit_probe = 0;
        let mut below_limit_probe = 0;
        let mut engine_rejects = 0;
        let mut restarts_after_writes = 0;
        let mut dup_batch = 0;
        for (e, ob) in o.script.evs.iter().zip(o.obs.iter()) {
            events += 1;
            rpcs += 3 + if matches!(e, Ev::Call(_, Op::Probe(_))) && ob.resp == Resp::OkProbe(false) { 1 } else { 0 };
            *hist.entry(opname(e).to_string()).or_default() += 1;
            let cls = match &ob.resp {
                Resp::Other(_) => "other".to_string(),
                Resp::OkInsert(a, b) => format!("OkInsert(ins{}0,fail{}0)", if *a > 0 { ">" } else { "=" }, if *b > 0 { ">" } else { "=" }),
                Resp::OkLoad(a, b) => format!("OkLoad(ld{}0,fail{}0)", if *a > 0 { ">" } else { "=" }, if *b > 0 { ">" } else { "=" }),
                Resp::OkBatch(n) => format!("OkBatch({})", if *n > 0 { ">0" } else { "0" }),
                x => format!("{:?}", x),
            };
            *resp_hist.entry(cls).or_default() += 1;
            match (&ob.resp, e) {
                (Resp::ErrExhausted, _) => refusals += 1,
                (Resp::OkProbe(true), _) => at_limit_probe += 1,
                (Resp::OkProbe(false), _) => below_limit_probe += 1,
                (Resp::ErrInternal, _) => engine_rejects += 1,
                (Resp::OkInsert(_, f), Ev::Call(_, Op::BulkInsert(_))) if *f > 0 => engine_rejects += 1,
                (Resp::OkLoad(_, f), _) if *f > 0 => engine_rejects += 1,
                (Resp::OkRestart, _) if !ob.census.is_empty() => restarts_after_writes += 1,
                _ => {}
            }
            if let Ev::Call(_, Op::BulkInsert(v)) | Ev::Call(_, Op::BulkLoad(v)) = e {
                let mut ids: Vec<u64> = v.iter().map(|i| i.id).collect();
                ids.sort();
                let l = ids.len();
                ids.dedup();
                if ids.len() < l {
                    dup_batch += 1;
                }
            }
            if let Ev::Call(_, Op::BatchDeleteIds(v)) = e {
                let mut ids = v.clone();
                ids.sort();
                let l = ids.len();
                ids.dedup();
                if ids.len() < l {
                    dup_batch += 1;
                }
            }
        }
        for (name, c) in [("scripts with a quota refusal", refusals + at_limit_probe), ("scripts with an admitted probe", below_limit_probe), ("scripts with an engine-rejected item", engine_rejects), ("scripts with a restart over live documents", restarts_after_writes), ("scripts with duplicate ids inside a batch", dup_batch)] {
            if c > 0 {
                *feature.entry(name.to_string()).or_default() += 1;
            }
        }
        let key = format!("{:?}{:?}", o.script.evs, o.obs.iter().map(|x| (&x.resp, &x.census, x.usage)).collect::<Vec<_>>());
        if distinct.insert(key) && (refusals + at_limit_probe) > 0 && below_limit_probe > 0 {
            nontrivial += 1;
        }
        for (idx, why) in &o.failures {
            failures.push(json!({"kind": "sequential", "id": k, "why": why, "event_index": idx, "event": ev_json(&o.script.evs[*idx]),
                                 "observed": format!("{:?}", o.obs[*idx]), "case": script_json(&o.script)}));
        }
        let cid = case_texts.len();
        let (text, _unprintable) = coq_case(cid, &o.script, &o.obs);
        case_texts.push(text);
        if samples.len() < 2 {
            samples.push(json!({"limit_a": o.script.limit_a, "limit_b": o.script.limit_b, "cosine": o.script.cosine, "n_events": o.script.evs.len(),
                                "first_events": o.script.evs.iter().take(8).map(ev_json).collect::<Vec<_>>(),
                                "first_observations": o.obs.iter().take(8).map(|x| format!("{:?} census={:?} usage={}", x.resp, x.census, x.usage)).collect::<Vec<_>>()}));
        }
        all.push(json!({"id": k, "case": script_json(&o.script), "observed": o.obs.iter().map(|x| format!("{:?} who={} census={:?} usage={}", x.resp, x.who, x.census, x.usage)).collect::<Vec<_>>()}));
    }
    let per = 5usize;
    let mut shards = 0usize;
    let pre = "From Coq Require Import List NArith Bool.\nFrom Kyro Require Import Model.Quota.\nImport ListNotations.\nOpen Scope N_scope.\n";
    for (k, chunk) in case_texts.chunks(per).enumerate() {
        let text = format!(
            "{}Definition cases : list (N * qcfg * list qobs) := [\n  {}\n].\n\
             Definition bad : list (N * N) := flat_map (fun c => map (fun i => (fst (fst c), i)) (check_script (snd (fst c)) (snd c))) cases.\n\
             Goal True. idtac \"@@bad\". Abort.\nEval vm_compute in bad.\nGoal True. idtac \"@@count\". Abort.\nEval vm_compute in (N.of_nat (List.length cases)).\n\
             Goal True. idtac \"@@events\". Abort.\nEval vm_compute in (N.of_nat (List.length (flat_map (fun c => snd c) cases))).\nGoal True. idtac \"@@end\". Abort.\n",
            pre,
            chunk.join(";\n  ")
        );
        std::fs::write(format!("{}/cases_{}.v", out, k), text).unwrap();
        shards = k + 1;
    }

    // ---- races: blocks run on their own servers, `race_threads` blocks at a time
    let t1 = Instant::now();
    let mut race_rows: Vec<Value> = vec![];
    let mut race_hits: Vec<Value> = vec![];
    let mut race_reps = 0u64;
    let plan: Vec<(usize, Pair, Variant, u64, Rng)> = race_plan.iter().enumerate().map(|(pi, (p, v, r))| (pi, *p, *v, *r, rng.fork(1000 + pi as u64))).collect();
    let plan = std::sync::Arc::new(plan);
    let rwork = std::sync::Arc::new(std::sync::Mutex::new((0usize, Vec::<(usize, RaceBlock)>::new())));
    let mut hs = vec![];
    for _ in 0..race_threads.max(1) {
        let plan = plan.clone();
        let rwork = rwork.clone();
        let tag = tag.clone();
        hs.push(std::thread::spawn(move || loop {
            let k = {
                let mut w = rwork.lock().unwrap();
                let k = w.0;
                w.0 += 1;
                k
            };
            if k >= plan.len() {
                break;
            }
            let (pi, pair, var, r, rr) = &plan[k];
            let mut rr = rr.clone();
            let b = race_block(*pair, *var, *r, &mut rr, &format!("{}b{}-", tag, pi));
            rwork.lock().unwrap().1.push((*pi, b));
        }));
    }
    for h in hs {
        let _ = h.join();
    }
    let mut blocks = std::mem::take(&mut rwork.lock().unwrap().1);
    blocks.sort_by_key(|(k, _)| *k);
    for (_, b) in blocks {
        race_reps += b.reps;
        for e in &b.errors {
            run_errors.push(json!({"race": pair_name(b.pair), "variant": variant_name(b.variant), "error": e}));
        }
        let row = json!({"pair": pair_name(b.pair), "variant": variant_name(b.variant), "repetitions": b.reps,
            "count_short_of_live": b.drift_short, "count_above_live": b.drift_long, "ended_over_limit": b.over_limit,
            "usage_vector_count_differs_from_census": b.usage_drift,
            "hit_rate": if b.reps > 0 { (b.drift_short + b.drift_long) as f64 / b.reps as f64 } else { 0.0 },
            "outcomes": b.outcomes, "wall_s": b.wall_s, "control": !involves_delete(b.pair)});
        if let Some(h) = &b.first_hit {
            let mut h = h.clone();
            h["kind"] = json!("race");
            h["repetitions"] = json!(b.reps);
            h["hits_in_this_block"] = json!(b.drift_short + b.drift_long);
            h["class"] = json!(if involves_delete(b.pair) { "C14-delete-outside-quota-mutex" } else { "unclassified" });
            h["seed"] = json!(std::env::var("VERIF_SEED").unwrap_or_else(|_| "1".into()));
            race_hits.push(h);
        }
        race_rows.push(row);
    }
    let race_wall = t1.elapsed().as_secs_f64();

    let n_ok = all.len();
    let summary = json!({
        "scripts": scripts.len(), "scripts_run": n_ok, "events": events, "rpcs": rpcs, "shards": shards, "coq_cases": case_texts.len(),
        "oracle_failures": failures, "run_errors": run_errors,
        "distinct": distinct.len(), "nontrivial": nontrivial, "features": feature,
        "histogram": {"events": hist, "responses": resp_hist},
        "samples": samples, "avg_server_startup_s": if n_ok > 0 { startup_sum / n_ok as f64 } else { 0.0 },
        "races": race_rows, "race_hits": race_hits, "race_repetitions": race_reps,
        "seq_wall_s": seq_wall, "race_wall_s": race_wall,
    });
    std::fs::write(format!("{}/summary.json", out), serde_json::to_string_pretty(&summary).unwrap()).unwrap();
    std::fs::write(format!("{}/all_cases.json", out), serde_json::to_string(&all).unwrap()).unwrap();
    println!(
        "c14: {} scripts ({} events) in {:.1}s; oracle failures {}; {} race repetitions in {:.1}s, blocks with drift {}; run errors {}",
        n_ok,
        events,
        seq_wall,
        summary["oracle_failures"].as_array().unwrap().len(),
        race_reps,
        race_wall,
        summary["race_hits"].as_array().unwrap().len(),
        summary["run_errors"].as_array().unwrap().len()
    );
}
