//! Target `packed`: PackedLevel0 / LayerAdjacency / FlatSearchScratch of engine/src/ann_backend.rs ->
//! coq/gen/Packed_gen.v.  Every method becomes a Gallina function over the struct's scalar fields and
//! Vec LENGTHS that returns the memory accesses it performs (checked / unchecked, array, offset, width,
//! array length at that moment), the state afterwards and its result.  Array CONTENTS are not state:
//! a read is `rd arr idx` for an arbitrary `rd`.
use crate::util::*;
use quote::ToTokens;
use serde_json::json;
use std::cell::{Cell, RefCell};
use std::collections::{BTreeMap, BTreeSet};
use syn::{Expr, Pat, Stmt};

const STRUCTS: &[&str] = &["PackedLevel0", "LayerAdjacency", "FlatSearchScratch"];
/// methods that MUST translate (the unsafe accessors, their checked twins, constructor/append)
const MUST: &[(&str, &[&str])] = &[
    ("PackedLevel0", &["new", "len", "push_node", "count", "count_unchecked", "node_start", "neighbors", "neighbor_unchecked", "set_neighbors", "vector_at", "vector_at_unchecked", "record_ptr"]),
    ("LayerAdjacency", &["new", "push_node", "slot_for_dense", "ensure_slot", "neighbors", "set_neighbors"]),
    ("FlatSearchScratch", &["prepare", "finish_query", "mark_visited", "mark_if_unvisited_unchecked"]),
];
/// Vec fields deliberately left out of the state (only ever used through safe Vec methods; verified below)
const IGNORED_VECS: &[(&str, &str)] = &[("FlatSearchScratch", "touched_dense_ids")];
const LEN_PRESERVING: &[&str] = &["len", "capacity", "is_empty", "get", "get_mut", "iter", "iter_mut", "shrink_to", "shrink_to_fit", "reserve", "reserve_exact", "fill", "contains", "first", "last", "as_slice"];
const LEN_CHANGING: &[&str] = &["push", "extend", "resize", "clear", "truncate", "pop", "insert", "remove", "swap_remove", "drain", "retain", "append", "split_off", "dedup", "set_len", "extend_from_slice", "resize_with"];
const RAW_METHODS: &[&str] = &["add", "offset", "sub", "byte_add", "as_ptr", "as_mut_ptr", "get_unchecked", "get_unchecked_mut", "read", "read_unaligned", "write", "write_unaligned", "set_len", "cast"];

#[derive(Clone, Debug, PartialEq)]
enum FK {
    Scalar,
    VecLen,
    Ignored,
}
struct SInfo<'f> {
    name: String,
    fields: Vec<(String, FK)>,
    derives_default: bool,
    methods: Vec<&'f syn::ImplItemFn>,
}
impl<'f> SInfo<'f> {
    fn kind(&self, f: &str) -> Option<FK> {
        self.fields.iter().find(|x| x.0 == f).map(|x| x.1.clone())
    }
    fn tracked_vec(&self, f: &str) -> bool {
        self.kind(f) == Some(FK::VecLen)
    }
    fn getter(&self, f: &str) -> String {
        match self.kind(f) {
            Some(FK::VecLen) => format!("({}_{}_len s)", self.name, f),
            _ => format!("({}_{} s)", self.name, f),
        }
    }
    fn setter(&self, f: &str, v: &str) -> String {
        match self.kind(f) {
            Some(FK::VecLen) => format!("(set_{}_{}_len s {})", self.name, f, v),
            _ => format!("(set_{}_{} s {})", self.name, f, v),
        }
    }
    fn arr(&self, f: &str) -> String {
        format!("arr_{}_{}", self.name, f)
    }
}

#[derive(Clone, Debug)]
enum V {
    Num(String),
    Bool(String),
    Opt(String),
    Ref { arr: String, off: String },
    OptRef { arr: String, off: String, alen: String, field: String },
    Ptr { arr: String, off: String, alen: String },
    Slice { arr: String, off: String, alen: String, field: String },
    Data,
}
#[derive(Clone, Debug)]
enum Pre {
    Acc(String),
    Call { acc: String, res: String, term: String },
    NeedSome { opt: String, bind: String },
    Require(String),
    Let(String, String),
    SetState(String),
}
#[derive(Clone, Debug)]
struct MethInfo {
    is_opt: bool,
    params: Vec<(String, PK)>,
    written: BTreeSet<String>,
    mutates: bool,
}
#[derive(Clone, Debug, PartialEq)]
enum PK {
    Num,
    SliceLen,
    Bool,
}
type Vars = BTreeMap<String, V>;

#[derive(Clone)]
enum W<'a> {
    S(&'a Stmt),
    LetExpr(String, &'a Expr),
}

struct Cx<'a, 'f> {
    st: &'a SInfo<'f>,
    consts: &'a BTreeMap<String, String>,
    translated: &'a BTreeMap<String, MethInfo>,
    skipped: &'a BTreeSet<String>,
    slice_params: BTreeSet<String>,
    is_opt: bool,
    returns_value: bool,
    pres: RefCell<Vec<Pre>>,
    fresh: Cell<usize>,
    written: RefCell<BTreeSet<String>>,
    accesses: RefCell<Vec<serde_json::Value>>,
    nd_sites: RefCell<Vec<usize>>,
    mutates: Cell<bool>,
}

struct E<'c, 'a, 'f> {
    cx: &'c Cx<'a, 'f>,
    vars: &'c Vars,
}

fn self_field(e: &Expr) -> Option<String> {
    if let Expr::Field(f) = strip_parens(e) {
        if path_ident(&f.base).as_deref() == Some("self") {
            if let syn::Member::Named(n) = &f.member {
                return Some(n.to_string());
            }
        }
    }
    None
}

/// does the expression avoid everything the model cares about (tracked Vecs, sibling calls, unsafe,
/// raw pointers, control flow)?  Such expressions may be treated as opaque data.
fn harmless(e: &Expr, st: &SInfo, allow_self_methods: &BTreeSet<String>) -> bool {
    struct H<'x, 'f> {
        st: &'x SInfo<'f>,
        ok: bool,
        allow: &'x BTreeSet<String>,
    }
    impl<'x, 'f, 'ast> syn::visit::Visit<'ast> for H<'x, 'f> {
        fn visit_expr(&mut self, e: &'ast Expr) {
            match e {
                Expr::Unsafe(_) | Expr::Return(_) | Expr::Break(_) | Expr::Continue(_) | Expr::Try(_) | Expr::Macro(_) | Expr::Await(_) | Expr::Yield(_) => self.ok = false,
                Expr::MethodCall(m) => {
                    let n = m.method.to_string();
                    if RAW_METHODS.contains(&n.as_str()) {
                        self.ok = false;
                    }
                    if path_ident(&m.receiver).as_deref() == Some("self") && !self.allow.contains(&n) {
                        self.ok = false;
                    }
                    if let Some(f) = self_field(&m.receiver) {
                        if self.st.tracked_vec(&f) && !["len", "capacity", "is_empty"].contains(&n.as_str()) {
                            self.ok = false;
                        }
                    }
                }
                Expr::Index(ix) => {
                    if let Some(f) = self_field(&ix.expr) {
                        if self.st.tracked_vec(&f) {
                            self.ok = false;
                        }
                    }
                }
                Expr::Call(c) => {
                    let p = path_string(&c.func).unwrap_or_default();
                    if p.contains("from_raw_parts") || p.contains("transmute") || p.contains("ptr::") {
                        self.ok = false;
                    }
                }
                Expr::Assign(a) => {
                    if let Some(f) = self_field(&a.left) {
                        if self.st.kind(&f).map(|k| k != FK::Ignored).unwrap_or(false) {
                            self.ok = false;
                        }
                    }
                }
                Expr::Reference(r) => {
                    // taking a reference to a tracked Vec as a whole (could be mutated elsewhere)
                    if let Some(f) = self_field(&r.expr) {
                        if self.st.tracked_vec(&f) {
                            self.ok = false;
                        }
                    }
                }
                _ => {}
            }
            if self.ok {
                syn::visit::visit_expr(self, e);
            }
        }
    }
    let mut h = H { st, ok: true, allow: allow_self_methods };
    syn::visit::Visit::visit_expr(&mut h, e);
    h.ok
}

/// an untranslated method is acceptable only if it cannot change the length of a tracked Vec and has no
/// unsafe code: every use of a tracked Vec is through a length-preserving safe method
fn preserves(f: &syn::ImplItemFn, st: &SInfo, ok_siblings: &BTreeSet<String>) -> Result<(), (usize, String)> {
    struct P<'x, 'f> {
        st: &'x SInfo<'f>,
        bad: Option<(usize, String)>,
        sib: &'x BTreeSet<String>,
    }
    impl<'x, 'f, 'ast> syn::visit::Visit<'ast> for P<'x, 'f> {
        fn visit_expr(&mut self, e: &'ast Expr) {
            let mut flag = |s: &mut Self, why: &str| {
                if s.bad.is_none() {
                    s.bad = Some((line_of(e), format!("{}: {}", why, src_of(e))));
                }
            };
            match e {
                Expr::Unsafe(_) => flag(self, "unsafe block"),
                Expr::MethodCall(m) => {
                    let n = m.method.to_string();
                    if RAW_METHODS.contains(&n.as_str()) {
                        flag(self, "raw pointer / unchecked method");
                    }
                    if path_ident(&m.receiver).as_deref() == Some("self") && !self.sib.contains(&n) {
                        flag(self, "call of a sibling method that is neither translated nor length-preserving");
                    }
                    if let Some(f) = self_field(&m.receiver) {
                        if self.st.tracked_vec(&f) && !LEN_PRESERVING.contains(&n.as_str()) {
                            flag(self, "method on a tracked Vec that may change its length");
                        }
                    }
                }
                Expr::Assign(a) => {
                    if let Some(f) = self_field(&a.left) {
                        if self.st.kind(&f).map(|k| k != FK::Ignored).unwrap_or(false) {
                            flag(self, "assignment to a tracked field");
                        }
                    }
                }
                Expr::Reference(r) => {
                    if r.mutability.is_some() {
                        if let Some(f) = self_field(&r.expr) {
                            if self.st.tracked_vec(&f) {
                                flag(self, "mutable borrow of a tracked Vec");
                            }
                        }
                    }
                }
                Expr::Call(c) => {
                    let p = path_string(&c.func).unwrap_or_default();
                    if p.contains("from_raw_parts") || p.contains("transmute") || p.contains("mem::take") || p.contains("mem::swap") || p.contains("mem::replace") {
                        flag(self, "raw / swapping operation");
                    }
                }
                _ => {}
            }
            syn::visit::visit_expr(self, e);
        }
    }
    let mut p = P { st, bad: None, sib: ok_siblings };
    syn::visit::Visit::visit_block(&mut p, &f.block);
    match p.bad {
        None => Ok(()),
        Some(b) => Err(b),
    }
}

impl<'c, 'a, 'f> NumEnv for E<'c, 'a, 'f> {
    fn var(&self, name: &str) -> Option<String> {
        match self.vars.get(name) {
            Some(V::Num(t)) => Some(t.clone()),
            _ => None,
        }
    }
    fn constant(&self, path: &str) -> Option<String> {
        self.cx.consts.get(path).cloned()
    }
    fn field(&self, f: &syn::ExprField) -> Option<Res<String>> {
        let e = Expr::Field(f.clone());
        if let Some(n) = self_field(&e) {
            return match self.cx.st.kind(&n) {
                Some(FK::Scalar) => Some(Ok(self.cx.st.getter(&n))),
                _ => Some(fail(f, "field is not a tracked scalar of the struct")),
            };
        }
        None
    }
    fn method(&self, recv: &Expr, name: &str, args: &[&Expr]) -> Option<Res<String>> {
        if name == "len" && args.is_empty() {
            if let Some(f) = self_field(recv) {
                if self.cx.st.tracked_vec(&f) {
                    return Some(Ok(self.cx.st.getter(&f)));
                }
                return Some(fail(recv, "length of a field outside the model"));
            }
            if let Some(id) = path_ident(recv) {
                if self.cx.slice_params.contains(&id) {
                    return Some(Ok(format!("{}_len", coq_ident(&id))));
                }
            }
        }
        None
    }
    fn special(&self, e: &Expr) -> Option<Res<String>> {
        match e {
            Expr::Index(_) | Expr::Unsafe(_) | Expr::Try(_) => Some(self.as_num(e)),
            Expr::Unary(u) if matches!(u.op, syn::UnOp::Deref(_)) => Some(self.as_num(e)),
            Expr::MethodCall(m) => {
                let n = m.method.to_string();
                let sib = path_ident(&m.receiver).as_deref() == Some("self");
                if sib || ["unwrap_or", "expect", "unwrap"].contains(&n.as_str()) {
                    Some(self.as_num(e))
                } else {
                    None
                }
            }
            _ => None,
        }
    }
}

impl<'c, 'a, 'f> E<'c, 'a, 'f> {
    fn as_num(&self, e: &Expr) -> Res<String> {
        match self.eval_v(e)? {
            V::Num(t) => Ok(t),
            _ => fail(e, "expression does not denote a number in the index model"),
        }
    }
    fn push(&self, p: Pre) {
        self.cx.pres.borrow_mut().push(p);
    }
    fn fresh(&self, base: &str) -> String {
        let k = self.cx.fresh.get();
        self.cx.fresh.set(k + 1);
        format!("{}{}", base, k)
    }
    fn acc(&self, at: &Expr, unchecked: bool, field: &str, arr: &str, off: &str, width: &str, alen: &str, write: bool) {
        self.push(Pre::Acc(format!("mk_pacc {} {} {} {} {}", if unchecked { "true" } else { "false" }, arr, off, width, alen)));
        self.cx.accesses.borrow_mut().push(json!({"line": line_of(at), "unchecked": unchecked, "array": field, "offset": off, "width": width, "write": write, "source": src_of(at)}));
        if write {
            self.cx.written.borrow_mut().insert(field.to_string());
        }
    }
    fn check_raw(&self, at: &Expr, field: &str) -> Res<()> {
        if self.cx.written.borrow().contains(field) {
            return fail(at, "read of an array after a write to it in the same method (contents are modelled as one arbitrary function)");
        }
        Ok(())
    }
    fn num(&self, e: &Expr) -> Res<String> {
        num(e, self)
    }

    fn range_of(&self, r: &syn::ExprRange, alen: &str) -> Res<(String, String)> {
        let lo = match &r.start {
            Some(s) => self.num(s)?,
            None => "0".to_string(),
        };
        let hi = match (&r.end, &r.limits) {
            (Some(e), syn::RangeLimits::HalfOpen(_)) => self.num(e)?,
            (Some(e), syn::RangeLimits::Closed(_)) => format!("({} + 1)", self.num(e)?),
            (None, _) => alen.to_string(),
        };
        Ok((lo, hi))
    }

    fn eval_v(&self, e: &Expr) -> Res<V> {
        let e = strip_parens(e);
        let st = self.cx.st;
        match e {
            Expr::Unsafe(u) => {
                if u.block.stmts.len() == 1 {
                    if let Stmt::Expr(x, None) = &u.block.stmts[0] {
                        return self.eval_v(x);
                    }
                }
                fail(e, "multi-statement unsafe block in expression position")
            }
            Expr::Reference(r) => self.eval_v(&r.expr),
            Expr::Cast(c) => {
                let v = self.eval_v(&c.expr)?;
                match v {
                    V::Num(t) => {
                        let ty = src_of(&c.ty);
                        Ok(V::Num(match ty.as_str() {
                            "usize" | "u64" | "u128" => t,
                            "u32" => format!("(as_u32 {})", t),
                            "u16" => format!("(as_u16 {})", t),
                            _ => return fail(e, "cast to a type the index model does not cover"),
                        }))
                    }
                    other => Ok(other),
                }
            }
            Expr::Try(t) => self.need(e, self.eval_v(&t.expr)?),
            Expr::Lit(l) => match &l.lit {
                syn::Lit::Bool(b) => Ok(V::Bool(if b.value { "true".into() } else { "false".into() })),
                syn::Lit::Int(_) => Ok(V::Num(self.num(e)?)),
                _ => Ok(V::Data),
            },
            Expr::Path(_) => {
                if let Some(id) = path_ident(e) {
                    if let Some(v) = self.vars.get(&id) {
                        return Ok(v.clone());
                    }
                    if id == "None" {
                        return Ok(V::Opt("None".into()));
                    }
                }
                match self.num(e) {
                    Ok(t) => Ok(V::Num(t)),
                    Err(_) => Ok(V::Data),
                }
            }
            Expr::Unary(u) if matches!(u.op, syn::UnOp::Deref(_)) => match self.eval_v(&u.expr)? {
                V::Ref { arr, off } => Ok(V::Num(format!("(rd {} {})", arr, off))),
                V::Data => Ok(V::Data),
                _ => fail(e, "dereference of something that is not an element reference"),
            },
            Expr::Index(ix) => {
                let Some(f) = self_field(&ix.expr) else {
                    // a slice parameter: only ranges
                    if let Some(id) = path_ident(&ix.expr) {
                        if self.cx.slice_params.contains(&id) {
                            let alen = format!("{}_len", coq_ident(&id));
                            if let Expr::Range(r) = strip_parens(&ix.index) {
                                let (lo, hi) = self.range_of(r, &alen)?;
                                self.acc(e, false, &format!("param {}", id), "arr_param", &lo, &format!("({} - {})", hi, lo), &alen, false);
                                self.push(Pre::Require(format!("(({} <=? {}) && ({} <=? {}))", lo, hi, hi, alen)));
                                return Ok(V::Data);
                            }
                        }
                    }
                    return fail(e, "indexing of something other than a tracked Vec field or a slice parameter range");
                };
                if !st.tracked_vec(&f) {
                    return fail(e, "indexing of a field outside the model");
                }
                let (arr, alen) = (st.arr(&f), st.getter(&f));
                if let Expr::Range(r) = strip_parens(&ix.index) {
                    let (lo, hi) = self.range_of(r, &alen)?;
                    self.acc(e, false, &f, &arr, &lo, &format!("({} - {})", hi, lo), &alen, false);
                    self.push(Pre::Require(format!("(({} <=? {}) && ({} <=? {}))", lo, hi, hi, alen)));
                    return Ok(V::Slice { arr, off: lo, alen, field: f });
                }
                let i = self.num(&ix.index)?;
                self.check_raw(e, &f)?;
                self.acc(e, false, &f, &arr, &i, "1", &alen, false);
                self.push(Pre::Require(format!("({} <? {})", i, alen)));
                Ok(V::Num(format!("(rd {} {})", arr, i)))
            }
            Expr::Call(c) => {
                let p = path_string(&c.func).unwrap_or_default();
                let short = p.rsplit("::").next().unwrap_or("");
                if short == "Some" && c.args.len() == 1 {
                    return Ok(match self.eval_v(&c.args[0])? {
                        V::Num(t) => V::Opt(format!("(Some {})", t)),
                        _ => V::Opt("(Some 0)".into()),
                    });
                }
                if short == "from_raw_parts" || short == "from_raw_parts_mut" {
                    if c.args.len() != 2 {
                        return fail(e, "from_raw_parts with an unexpected argument count");
                    }
                    let pv = self.eval_v(&c.args[0])?;
                    let n = self.num(&c.args[1])?;
                    if let V::Ptr { arr, off, alen } = pv {
                        let field = arr.rsplit('_').next().unwrap_or("").to_string();
                        self.acc(e, true, &field, &arr, &off, &n, &alen, false);
                        return Ok(V::Slice { arr, off, alen, field });
                    }
                    return fail(e, "from_raw_parts on a pointer whose provenance the extractor lost");
                }
                if p.contains("transmute") || p.contains("ptr::") {
                    return fail(e, "raw memory operation outside the recognised patterns");
                }
                for a in &c.args {
                    let _ = self.eval_v(a)?;
                }
                Ok(V::Data)
            }
            Expr::MethodCall(m) => self.method_v(e, m),
            Expr::Binary(b) => {
                use syn::BinOp::*;
                match b.op {
                    Lt(_) | Le(_) | Gt(_) | Ge(_) | Eq(_) | Ne(_) | And(_) | Or(_) => match self.cond(e) {
                        Ok(t) => Ok(V::Bool(t)),
                        Err(er) => {
                            if harmless(e, st, &BTreeSet::new()) {
                                Ok(V::Data)
                            } else {
                                Err(er)
                            }
                        }
                    },
                    _ => self.num_or_data(e),
                }
            }
            _ => self.num_or_data(e),
        }
    }

    fn num_or_data(&self, e: &Expr) -> Res<V> {
        let mark = self.cx.pres.borrow().len();
        match self.num(e) {
            Ok(t) => Ok(V::Num(t)),
            Err(er) => {
                if harmless(e, self.cx.st, &BTreeSet::new()) {
                    self.cx.pres.borrow_mut().truncate(mark);
                    Ok(V::Data)
                } else {
                    Err(er)
                }
            }
        }
    }

    /// `?`, `.expect()`, `.unwrap()`: continue only with Some
    fn need(&self, at: &Expr, v: V) -> Res<V> {
        match v {
            V::Opt(o) => {
                let b = self.fresh("x");
                self.push(Pre::NeedSome { opt: o, bind: b.clone() });
                Ok(V::Num(b))
            }
            V::OptRef { arr, off, alen, field } => {
                self.push(Pre::Require(format!("({} <? {})", off, alen)));
                self.acc(at, false, &field, &arr, &off, "1", &alen, false);
                Ok(V::Ref { arr, off })
            }
            _ => fail(at, "`?` / expect / unwrap on something that is not an Option in the model"),
        }
    }

    fn method_v(&self, e: &Expr, m: &syn::ExprMethodCall) -> Res<V> {
        let st = self.cx.st;
        let n = m.method.to_string();
        let args: Vec<&Expr> = m.args.iter().collect();
        // sibling call
        if path_ident(&m.receiver).as_deref() == Some("self") {
            if let Some(mi) = self.cx.translated.get(&n) {
                if mi.params.len() != args.len() {
                    return fail(e, "sibling call with an unexpected argument count");
                }
                let mut ts = Vec::new();
                for (a, (_, pk)) in args.iter().zip(mi.params.iter()) {
                    match pk {
                        PK::Num => ts.push(self.num(a)?),
                        PK::Bool => match self.eval_v(a)? {
                            V::Bool(t) => ts.push(t),
                            _ => return fail(a, "boolean argument the model cannot express"),
                        },
                        PK::SliceLen => {
                            let inner = strip_casts(a);
                            let inner = if let Expr::Reference(r) = inner { strip_parens(&r.expr) } else { inner };
                            match path_ident(inner) {
                                Some(id) if self.cx.slice_params.contains(&id) => ts.push(format!("{}_len", coq_ident(&id))),
                                _ => match self.vars.get(&path_ident(inner).unwrap_or_default()) {
                                    _ => return fail(a, "slice argument that is not a slice parameter of the caller"),
                                },
                            }
                        }
                    }
                }
                for w in &mi.written {
                    self.cx.written.borrow_mut().insert(w.clone());
                }
                if mi.mutates {
                    self.cx.mutates.set(true);
                }
                let k = self.fresh("");
                let (acc, res) = (format!("a{}", k), format!("r{}", k));
                let term = format!("{}_{} s rd nd{}", st.name, n, ts.iter().map(|t| format!(" {}", t)).collect::<String>());
                self.push(Pre::Call { acc, res: res.clone(), term });
                return Ok(if mi.is_opt { V::Opt(res) } else { V::Num(format!("(opt_or {} 0)", res)) });
            }
            if self.cx.skipped.contains(&n) {
                // length-preserving, safe, untranslated: may rewrite contents of any array
                for (f, k) in &st.fields {
                    if *k == FK::VecLen {
                        self.cx.written.borrow_mut().insert(f.clone());
                    }
                }
                return Ok(V::Data);
            }
            return fail(e, "call of a sibling method that was not translated");
        }
        match n.as_str() {
            "expect" | "unwrap" => {
                let v = self.eval_v(&m.receiver)?;
                return self.need(e, v);
            }
            "unwrap_or" if args.len() == 1 => {
                if let V::Opt(o) = self.eval_v(&m.receiver)? {
                    let d = self.num(args[0])?;
                    return Ok(V::Num(format!("(opt_or {} {})", o, d)));
                }
                return fail(e, "unwrap_or on something that is not an Option<number> in the model");
            }
            "is_some" | "is_none" if args.is_empty() => {
                if let V::Opt(o) = self.eval_v(&m.receiver)? {
                    let t = format!("(match {} with Some _ => true | None => false end)", o);
                    return Ok(V::Bool(if n == "is_some" { t } else { format!("(negb {})", t) }));
                }
                return fail(e, "is_some on something that is not an Option in the model");
            }
            "is_empty" if args.is_empty() => {
                if let Some(id) = path_ident(&m.receiver) {
                    if self.cx.slice_params.contains(&id) {
                        return Ok(V::Bool(format!("({}_len =? 0)", coq_ident(&id))));
                    }
                }
            }
            _ => {}
        }
        // methods on a tracked Vec field
        if let Some(f) = self_field(&m.receiver) {
            if st.tracked_vec(&f) {
                let (arr, alen) = (st.arr(&f), st.getter(&f));
                match n.as_str() {
                    "get_unchecked" | "get_unchecked_mut" if args.len() == 1 => {
                        let i = self.num(args[0])?;
                        if n == "get_unchecked" {
                            self.check_raw(e, &f)?;
                        }
                        self.acc(e, true, &f, &arr, &i, "1", &alen, false);
                        return Ok(V::Ref { arr, off: i });
                    }
                    "get" | "get_mut" if args.len() == 1 => {
                        let i = self.num(args[0])?;
                        return Ok(V::OptRef { arr, off: i, alen, field: f });
                    }
                    "as_ptr" | "as_mut_ptr" if args.is_empty() => return Ok(V::Ptr { arr, off: "0".into(), alen }),
                    "len" if args.is_empty() => return Ok(V::Num(alen)),
                    "capacity" | "is_empty" => return Ok(V::Data),
                    _ => return fail(e, "method on a tracked Vec in expression position that the extractor does not model"),
                }
            }
        }
        match n.as_str() {
            "as_ptr" | "as_mut_ptr" if args.is_empty() => match self.eval_v(&m.receiver)? {
                V::Slice { arr, off, alen, .. } => return Ok(V::Ptr { arr, off, alen }),
                _ => return fail(e, "as_ptr on something whose storage the extractor does not know"),
            },
            "add" if args.len() == 1 => match self.eval_v(&m.receiver)? {
                V::Ptr { arr, off, alen } => {
                    let d = self.num(args[0])?;
                    let noff = if off == "0" { d } else { format!("({} + {})", off, d) };
                    let field = arr.rsplit('_').next().unwrap_or("").to_string();
                    // pointer arithmetic itself must stay inside the allocation (or one past the end)
                    self.acc(e, true, &field, &arr, &noff, "0", &alen, false);
                    return Ok(V::Ptr { arr, off: noff, alen });
                }
                _ => return fail(e, "pointer arithmetic on a pointer whose provenance the extractor lost"),
            },
            "iter" | "iter_mut" | "zip" | "enumerate" | "take" | "copied" | "cloned" => {
                let r = self.eval_v(&m.receiver)?;
                for a in &args {
                    let _ = self.eval_v(a)?;
                }
                return Ok(r);
            }
            _ => {}
        }
        if RAW_METHODS.contains(&n.as_str()) {
            return fail(e, "raw pointer / unchecked method outside the recognised patterns");
        }
        self.num_or_data(e)
    }

    fn cond(&self, e: &Expr) -> Res<String> {
        let e = strip_parens(e);
        match e {
            Expr::Binary(b) if matches!(b.op, syn::BinOp::And(_)) => Ok(format!("({} && {})", self.cond(&b.left)?, self.cond(&b.right)?)),
            Expr::Binary(b) if matches!(b.op, syn::BinOp::Or(_)) => Ok(format!("({} || {})", self.cond(&b.left)?, self.cond(&b.right)?)),
            Expr::Unary(u) if matches!(u.op, syn::UnOp::Not(_)) => Ok(format!("(negb {})", self.cond(&u.expr)?)),
            Expr::Binary(_) => cmp(e, self),
            _ => match self.eval_v(e)? {
                V::Bool(t) => Ok(t),
                _ => fail(e, "condition the model cannot express"),
            },
        }
    }
}

fn wrap(pres: &[Pre], rest: String) -> String {
    let mut t = rest;
    for p in pres.iter().rev() {
        t = match p {
            Pre::Acc(a) => format!("m_pre [{}]\n  ({})", a, t),
            Pre::Call { acc, res, term } => format!("(let '({}, s, {}) := {} in m_pre {}\n  ({}))", acc, res, term, acc, t),
            Pre::NeedSome { opt, bind } => format!("(match {} with Some {} =>\n  {}\n  | None => (nil, s, None) end)", opt, bind, t),
            Pre::Require(b) => format!("(if {} then\n  {}\n  else (nil, s, None))", b, t),
            Pre::Let(n, v) => format!("(let {} := {} in\n  {})", n, v, t),
            Pre::SetState(v) => format!("(let s := {} in\n  {})", v, t),
        };
    }
    t
}

impl<'a, 'f> Cx<'a, 'f> {
    fn take_pres(&self) -> Vec<Pre> {
        std::mem::take(&mut *self.pres.borrow_mut())
    }

    fn result_term(&self, v: &V) -> String {
        let val = match v {
            V::Opt(o) if self.is_opt => o.clone(),
            V::Opt(_) => "(Some 0)".into(),
            V::Num(t) => format!("(Some {})", t),
            V::Bool(b) => format!("(Some (b2n {}))", b),
            _ => "(Some 0)".into(),
        };
        format!("(nil, s, {})", val)
    }

    fn is_noop_expr(&self, e: &Expr, vars: &Vars) -> bool {
        let st = self.st;
        let e = strip_parens(e);
        match e {
            Expr::If(i) => {
                let cond_ok = harmless(&i.cond, st, &BTreeSet::new());
                let then_ok = i.then_branch.stmts.iter().all(|s| self.is_noop_stmt(s, vars));
                let else_ok = match &i.else_branch {
                    None => true,
                    Some((_, eb)) => self.is_noop_expr(eb, vars),
                };
                // a let-pattern condition binds variables: not a no-op
                cond_ok && !matches!(strip_parens(&i.cond), Expr::Let(_)) && then_ok && else_ok
            }
            Expr::Block(b) => b.block.stmts.iter().all(|s| self.is_noop_stmt(s, vars)),
            Expr::MethodCall(m) => {
                if let Some(f) = self_field(&m.receiver) {
                    if st.tracked_vec(&f) {
                        return LEN_PRESERVING.contains(&m.method.to_string().as_str()) && !["get", "get_mut", "iter", "iter_mut", "fill"].contains(&m.method.to_string().as_str()) && m.args.iter().all(|a| harmless(a, st, &BTreeSet::new()));
                    }
                }
                harmless(e, st, &BTreeSet::new())
            }
            Expr::Assign(a) => {
                if let Expr::Unary(u) = strip_parens(&a.left) {
                    if matches!(u.op, syn::UnOp::Deref(_)) {
                        if let Some(id) = path_ident(&u.expr) {
                            if matches!(vars.get(&id), Some(V::Ref { .. }) | Some(V::Data) | None) {
                                return harmless(&a.right, st, &BTreeSet::new());
                            }
                        }
                    }
                }
                harmless(e, st, &BTreeSet::new())
            }
            Expr::Binary(b) => {
                use syn::BinOp::*;
                if matches!(b.op, BitOrAssign(_) | BitAndAssign(_) | BitXorAssign(_) | AddAssign(_) | SubAssign(_)) {
                    if let Expr::Unary(u) = strip_parens(&b.left) {
                        if matches!(u.op, syn::UnOp::Deref(_)) && path_ident(&u.expr).is_some() {
                            return harmless(&b.right, st, &BTreeSet::new());
                        }
                    }
                }
                harmless(e, st, &BTreeSet::new())
            }
            _ => harmless(e, st, &BTreeSet::new()),
        }
    }
    fn is_noop_stmt(&self, s: &Stmt, vars: &Vars) -> bool {
        match s {
            Stmt::Expr(e, _) => self.is_noop_expr(e, vars),
            Stmt::Macro(m) => {
                let n = m.mac.path.segments.last().map(|s| s.ident.to_string()).unwrap_or_default();
                n.starts_with("debug_assert") || n.starts_with("assert")
            }
            _ => false,
        }
    }

    fn note_deref_writes(&self, e: &Expr, vars: &Vars) {
        // `*slot |= bit` through an element reference: a write to that array
        struct D<'x> {
            vars: &'x Vars,
            hit: Vec<String>,
        }
        impl<'x, 'ast> syn::visit::Visit<'ast> for D<'x> {
            fn visit_expr_unary(&mut self, u: &'ast syn::ExprUnary) {
                if matches!(u.op, syn::UnOp::Deref(_)) {
                    if let Some(id) = path_ident(&u.expr) {
                        if let Some(V::Ref { arr, .. }) = self.vars.get(&id) {
                            self.hit.push(arr.rsplit('_').next().unwrap_or("").to_string());
                        }
                    }
                }
                syn::visit::visit_expr_unary(self, u);
            }
        }
        let mut d = D { vars, hit: vec![] };
        syn::visit::Visit::visit_expr(&mut d, e);
        for h in d.hit {
            self.written.borrow_mut().insert(h);
        }
    }

    fn walk(&self, ws: &[W], vars: Vars) -> Res<String> {
        let Some(first) = ws.first() else { return Ok("(nil, s, Some 0)".to_string()) };
        let rest = &ws[1..];
        let st = self.st;
        let env = E { cx: self, vars: &vars };
        match first {
            W::LetExpr(name, init) => self.walk_let(name, init, rest, vars.clone()),
            W::S(Stmt::Macro(m)) => {
                let n = m.mac.path.segments.last().map(|s| s.ident.to_string()).unwrap_or_default();
                if n.starts_with("debug_assert") || n.starts_with("assert") {
                    // debug_assert*: absent in release builds; the cfg(kyrodb_verif) H4 `assert!`s are the
                    // verification hook itself, not production code
                    self.walk(rest, vars)
                } else {
                    fail(m, "macro the extractor does not understand")
                }
            }
            W::S(Stmt::Item(i)) => fail(i, "nested item"),
            W::S(Stmt::Local(l)) => {
                let Some(init) = &l.init else { return fail(l, "let without initialiser") };
                let pat = match &l.pat {
                    Pat::Type(pt) => &*pt.pat,
                    p => p,
                };
                if let Some((_, div)) = &init.diverge {
                    // let Some(x) = E else { return ... };
                    let Pat::TupleStruct(ts) = pat else { return fail(pat, "let-else pattern other than Some(x)") };
                    if src_of(&ts.path) != "Some" || ts.elems.len() != 1 {
                        return fail(pat, "let-else pattern other than Some(x)");
                    }
                    let Pat::Ident(pi) = &ts.elems[0] else { return fail(pat, "let-else pattern other than Some(x)") };
                    if !diverges_plainly(div) {
                        return fail(&**div, "let-else branch is not a plain `return`");
                    }
                    let v = env.eval_v(&init.expr)?;
                    let v = env.need(&init.expr, v)?;
                    let pres = self.take_pres();
                    let mut nv = vars.clone();
                    nv.insert(pi.ident.to_string(), v);
                    return Ok(wrap(&pres, self.walk(rest, nv)?));
                }
                match pat {
                    Pat::Ident(pi) => self.walk_let(&pi.ident.to_string(), &init.expr, rest, vars.clone()),
                    Pat::Wild(_) => self.walk_let("_", &init.expr, rest, vars.clone()),
                    _ => fail(pat, "let pattern other than a plain variable"),
                }
            }
            W::S(Stmt::Expr(e, semi)) => {
                let e = strip_parens(e);
                let is_tail = rest.is_empty() && semi.is_none();
                // no-ops for the model
                if (!is_tail || !self.returns_value) && self.is_noop_expr(e, &vars) {
                    self.note_deref_writes(e, &vars);
                    return self.walk(rest, vars);
                }
                match e {
                    Expr::Return(r) => match &r.expr {
                        None => Ok("(nil, s, None)".to_string()),
                        Some(x) => {
                            let v = env.eval_v(x)?;
                            let pres = self.take_pres();
                            Ok(wrap(&pres, self.result_term(&v)))
                        }
                    },
                    Expr::If(i) => self.walk_if(i, rest, vars.clone()),
                    Expr::Unsafe(u) => {
                        let mut ws2: Vec<W> = u.block.stmts.iter().map(W::S).collect();
                        if !is_tail {
                            // a non-tail unsafe block: its trailing expression is a statement
                        }
                        ws2.extend_from_slice(rest);
                        self.walk(&ws2, vars)
                    }
                    Expr::Block(b) if !is_tail => {
                        let mut ws2: Vec<W> = b.block.stmts.iter().map(W::S).collect();
                        ws2.extend_from_slice(rest);
                        self.walk(&ws2, vars)
                    }
                    Expr::ForLoop(f) => {
                        // only: iteration over a range of a tracked Vec whose body writes through the element
                        let v = env.eval_v(&f.expr)?;
                        let pres = self.take_pres();
                        match v {
                            V::Slice { field, .. } => {
                                let body_ok = f.body.stmts.iter().all(|s| self.is_noop_stmt(s, &vars));
                                if !body_ok {
                                    return fail(&f.body, "loop body over a Vec range does more than write through the element");
                                }
                                self.written.borrow_mut().insert(field);
                                Ok(wrap(&pres, self.walk(rest, vars)?))
                            }
                            _ => fail(&f.expr, "for loop over something other than a range of a tracked Vec"),
                        }
                    }
                    Expr::Assign(a) => {
                        // self.V[I] = E   |   self.F = E
                        let l = strip_parens(&a.left);
                        if let Expr::Index(ix) = l {
                            if let Some(f) = self_field(&ix.expr) {
                                if st.tracked_vec(&f) {
                                    let _ = env.eval_v(&a.right)?;
                                    let i = env.num(&ix.index)?;
                                    let (arr, alen) = (st.arr(&f), st.getter(&f));
                                    env.acc(l, false, &f, &arr, &i, "1", &alen, true);
                                    env.push(Pre::Require(format!("({} <? {})", i, alen)));
                                    let pres = self.take_pres();
                                    return Ok(wrap(&pres, self.walk(rest, vars)?));
                                }
                            }
                        }
                        if let Some(f) = self_field(l) {
                            match st.kind(&f) {
                                Some(FK::Scalar) => {
                                    let t = env.num(&a.right)?;
                                    env.push(Pre::SetState(st.setter(&f, &t)));
                                    self.mutates.set(true);
                                    let pres = self.take_pres();
                                    return Ok(wrap(&pres, self.walk(rest, vars)?));
                                }
                                Some(FK::VecLen) => return fail(e, "assignment of a whole tracked Vec"),
                                _ => {
                                    let _ = env.eval_v(&a.right)?;
                                    let pres = self.take_pres();
                                    return Ok(wrap(&pres, self.walk(rest, vars)?));
                                }
                            }
                        }
                        fail(e, "assignment the extractor does not understand")
                    }
                    Expr::MethodCall(m) => {
                        let n = m.method.to_string();
                        let args: Vec<&Expr> = m.args.iter().collect();
                        // length-changing calls on a tracked Vec
                        if let Some(f) = self_field(&m.receiver) {
                            if st.tracked_vec(&f) {
                                let cur = st.getter(&f);
                                let new_len = match (n.as_str(), args.len()) {
                                    ("push", 1) => {
                                        let _ = env.eval_v(args[0])?;
                                        format!("({} + 1)", cur)
                                    }
                                    ("extend", 1) => {
                                        // extend(std::iter::repeat_n(X, N))
                                        let a = strip_parens(args[0]);
                                        let Expr::Call(c) = a else { return fail(a, "extend with something other than std::iter::repeat_n(X, N)") };
                                        let p = path_string(&c.func).unwrap_or_default();
                                        if !p.ends_with("repeat_n") || c.args.len() != 2 {
                                            return fail(a, "extend with something other than std::iter::repeat_n(X, N)");
                                        }
                                        format!("({} + {})", cur, env.num(&c.args[1])?)
                                    }
                                    ("resize", 2) => env.num(args[0])?,
                                    ("clear", 0) => "0".to_string(),
                                    ("truncate", 1) => format!("(N.min {} {})", cur, env.num(args[0])?),
                                    _ => return fail(e, "call on a tracked Vec that the extractor does not model"),
                                };
                                env.push(Pre::SetState(st.setter(&f, &new_len)));
                                self.mutates.set(true);
                                self.written.borrow_mut().insert(f.clone());
                                let pres = self.take_pres();
                                return Ok(wrap(&pres, self.walk(rest, vars)?));
                            }
                        }
                        // self.V[A..B].fill(X) / .copy_from_slice(Y)
                        if ["fill", "copy_from_slice"].contains(&n.as_str()) {
                            if let Expr::Index(ix) = strip_parens(&m.receiver) {
                                if let Some(f) = self_field(&ix.expr) {
                                    if st.tracked_vec(&f) {
                                        for a in &args {
                                            let _ = env.eval_v(a)?;
                                        }
                                        let v = env.eval_v(&m.receiver)?;
                                        if let V::Slice { field, .. } = v {
                                            self.written.borrow_mut().insert(field);
                                        }
                                        let pres = self.take_pres();
                                        return Ok(wrap(&pres, self.walk(rest, vars)?));
                                    }
                                }
                            }
                        }
                        // anything else: evaluate for its accesses / sibling calls, ignore the value
                        let v = env.eval_v(e)?;
                        let pres = self.take_pres();
                        if is_tail {
                            return Ok(wrap(&pres, self.result_term(&v)));
                        }
                        Ok(wrap(&pres, self.walk(rest, vars)?))
                    }
                    Expr::While(_) | Expr::Loop(_) | Expr::Match(_) | Expr::Break(_) | Expr::Continue(_) => fail(e, "control flow the extractor does not model"),
                    Expr::Struct(_) if is_tail => fail(e, "struct literal outside a constructor"),
                    _ => {
                        let v = env.eval_v(e)?;
                        let pres = self.take_pres();
                        if is_tail {
                            Ok(wrap(&pres, self.result_term(&v)))
                        } else {
                            Ok(wrap(&pres, self.walk(rest, vars)?))
                        }
                    }
                }
            }
        }
    }

    fn walk_let(&self, name: &str, init: &Expr, rest: &[W], vars: Vars) -> Res<String> {
        let init = strip_parens(init);
        // let x = if C { A } else { B };   -> both branches continue with the rest
        if let Expr::If(i) = init {
            let (Some(a), Some((_, eb))) = (single_expr(&i.then_branch), &i.else_branch) else { return fail(init, "if-expression with multi-statement branches in a let") };
            let Expr::Block(ebb) = strip_parens(eb) else { return fail(init, "else-if chain in a let") };
            let Some(b) = single_expr(&ebb.block) else { return fail(init, "if-expression with multi-statement branches in a let") };
            let (pres, c) = self.cond_or_nd(&i.cond, &vars)?;
            let mut wa = vec![W::LetExpr(name.to_string(), a)];
            wa.extend_from_slice(rest);
            let mut wb = vec![W::LetExpr(name.to_string(), b)];
            wb.extend_from_slice(rest);
            let ta = self.walk(&wa, vars.clone())?;
            let tb = self.walk(&wb, vars)?;
            return Ok(wrap(&pres, format!("(if {} then\n  {}\n  else\n  {})", c, ta, tb)));
        }
        let env = E { cx: self, vars: &vars };
        let v = env.eval_v(init)?;
        let mut pres = self.take_pres();
        let mut nv = vars.clone();
        if name != "_" {
            let v2 = match v {
                V::Num(t) => {
                    let g = coq_ident(name);
                    pres.push(Pre::Let(g.clone(), t));
                    V::Num(g)
                }
                other => other,
            };
            nv.insert(name.to_string(), v2);
        }
        Ok(wrap(&pres, self.walk(rest, nv)?))
    }

    fn cond_or_nd(&self, c: &Expr, vars: &Vars) -> Res<(Vec<Pre>, String)> {
        let env = E { cx: self, vars };
        let mark = self.pres.borrow().len();
        match env.cond(c) {
            Ok(t) => Ok((self.take_pres(), t)),
            Err(er) => {
                self.pres.borrow_mut().truncate(mark);
                if harmless(c, self.st, &BTreeSet::new()) {
                    let line = line_of(c);
                    self.nd_sites.borrow_mut().push(line);
                    Ok((vec![], format!("(nd {})", line)))
                } else {
                    Err(er)
                }
            }
        }
    }

    fn walk_if(&self, i: &syn::ExprIf, rest: &[W], vars: Vars) -> Res<String> {
        let then_ws: Vec<W> = i.then_branch.stmts.iter().map(W::S).collect();
        let else_ws: Vec<W> = match &i.else_branch {
            None => vec![],
            Some((_, eb)) => match strip_parens(eb) {
                Expr::Block(b) => b.block.stmts.iter().map(W::S).collect(),
                Expr::If(_) => return fail(&**eb, "else-if chain"),
                _ => return fail(&**eb, "else branch that is not a block"),
            },
        };
        // branch results are statements unless the if is the tail (then they are the function result) —
        // branches of a non-tail `if` in these methods never end in a value expression
        let mut wa = then_ws;
        wa.extend_from_slice(rest);
        let mut wb = else_ws;
        wb.extend_from_slice(rest);
        // if let Some(x) = self.V.get_mut(i) { .. }
        if let Expr::Let(l) = strip_parens(&i.cond) {
            let Pat::TupleStruct(ts) = &*l.pat else { return fail(&*l.pat, "if-let pattern other than Some(x)") };
            let Pat::Ident(pi) = &ts.elems[0] else { return fail(&*l.pat, "if-let pattern other than Some(x)") };
            let env = E { cx: self, vars: &vars };
            let v = env.eval_v(&l.expr)?;
            let pres0 = self.take_pres();
            return match v {
                V::OptRef { arr, off, alen, field } => {
                    let mut nv = vars.clone();
                    nv.insert(pi.ident.to_string(), V::Ref { arr: arr.clone(), off: off.clone() });
                    env.acc(&l.expr, false, &field, &arr, &off, "1", &alen, false);
                    let pa = self.take_pres();
                    let ta = wrap(&pa, self.walk(&wa, nv)?);
                    let tb = self.walk(&wb, vars)?;
                    Ok(wrap(&pres0, format!("(if ({} <? {}) then\n  {}\n  else\n  {})", off, alen, ta, tb)))
                }
                V::Opt(o) => {
                    let b = coq_ident(&pi.ident.to_string());
                    let mut nv = vars.clone();
                    nv.insert(pi.ident.to_string(), V::Num(b.clone()));
                    let ta = self.walk(&wa, nv)?;
                    let tb = self.walk(&wb, vars)?;
                    Ok(wrap(&pres0, format!("(match {} with Some {} =>\n  {}\n  | None =>\n  {} end)", o, b, ta, tb)))
                }
                _ => fail(&*l.expr, "if-let on something that is not an Option in the model"),
            };
        }
        let (pres, c) = self.cond_or_nd(&i.cond, &vars)?;
        let ta = self.walk(&wa, vars.clone())?;
        let tb = self.walk(&wb, vars)?;
        Ok(wrap(&pres, format!("(if {} then\n  {}\n  else\n  {})", c, ta, tb)))
    }
}

fn single_expr(b: &syn::Block) -> Option<&Expr> {
    if b.stmts.len() == 1 {
        if let Stmt::Expr(e, None) = &b.stmts[0] {
            return Some(e);
        }
    }
    None
}
fn diverges_plainly(e: &Expr) -> bool {
    if let Expr::Block(b) = strip_parens(e) {
        if b.block.stmts.len() == 1 {
            if let Stmt::Expr(Expr::Return(r), _) = &b.block.stmts[0] {
                return match &r.expr {
                    None => true,
                    Some(x) => {
                        let t = src_of(&**x).replace(' ', "");
                        t == "&[]" || t == "None" || t == "false" || t == "true" || t == "0"
                    }
                };
            }
        }
    }
    false
}

pub struct Out {
    pub coq: String,
    pub report: serde_json::Value,
}

fn ret_kind(f: &syn::ImplItemFn) -> (bool, String) {
    match &f.sig.output {
        syn::ReturnType::Default => (false, "()".into()),
        syn::ReturnType::Type(_, t) => {
            let s = src_of(&**t).replace(' ', "");
            (s.starts_with("Option<"), s)
        }
    }
}

fn calls_of(f: &syn::ImplItemFn) -> BTreeSet<String> {
    struct C(BTreeSet<String>);
    impl<'ast> syn::visit::Visit<'ast> for C {
        fn visit_expr_method_call(&mut self, m: &'ast syn::ExprMethodCall) {
            if path_ident(&m.receiver).as_deref() == Some("self") {
                self.0.insert(m.method.to_string());
            }
            syn::visit::visit_expr_method_call(self, m);
        }
    }
    let mut c = C(BTreeSet::new());
    syn::visit::Visit::visit_block(&mut c, &f.block);
    c.0
}

pub fn run(repo: &str) -> Res<Out> {
    let path = format!("{}/engine/src/ann_backend.rs", repo);
    set_file(&path);
    let file = parse_file(&path)?;
    // constants
    let mut consts: BTreeMap<String, String> = BTreeMap::new();
    for it in &file.items {
        if let syn::Item::Const(c) = it {
            struct NoEnv;
            impl NumEnv for NoEnv {
                fn var(&self, _: &str) -> Option<String> {
                    None
                }
            }
            if let Ok(t) = num(&c.expr, &NoEnv) {
                consts.insert(c.ident.to_string(), t);
            }
        }
    }
    let mut coq = String::new();
    coq.push_str("(* GENERATED by harness/p/xl17 (target packed) from engine/src/ann_backend.rs — do not edit; rewritten on every run.\n   See Model/PackedBase.v for the meaning of the pieces. *)\n");
    coq.push_str("From Coq Require Import NArith List Bool.\nFrom Kyro Require Import Model.Strided Model.PackedBase.\nImport ListNotations.\nOpen Scope N_scope.\n\n");
    coq.push_str("Definition arr_param : N := 1000.\n");
    for (k, v) in &consts {
        coq.push_str(&format!("Definition const_{} : N := {}.\n", k, v));
    }
    coq.push('\n');
    let mut rep_structs = Vec::new();
    let mut arr_id = 0usize;
    let mut total_methods = 0usize;
    let mut total_accesses = 0usize;
    let mut method_names: Vec<String> = Vec::new();

    for sname in STRUCTS {
        let Some(sdef) = file.items.iter().find_map(|it| match it {
            syn::Item::Struct(s) if s.ident == sname => Some(s),
            _ => None,
        }) else {
            return fail_at(0, sname, "struct not found in ann_backend.rs");
        };
        let mut fields = Vec::new();
        for f in &sdef.fields {
            let n = f.ident.as_ref().map(|i| i.to_string()).unwrap_or_default();
            let ty = src_of(&f.ty).replace(' ', "");
            let k = if ty == "usize" {
                FK::Scalar
            } else if ty.starts_with("Vec<") {
                if IGNORED_VECS.contains(&(*sname, n.as_str())) { FK::Ignored } else { FK::VecLen }
            } else {
                FK::Ignored
            };
            fields.push((n, k));
        }
        let derives_default = sdef.attrs.iter().any(|a| a.path().is_ident("derive") && a.to_token_stream().to_string().contains("Default"));
        let mut methods: Vec<&syn::ImplItemFn> = Vec::new();
        for it in &file.items {
            if let syn::Item::Impl(im) = it {
                if im.trait_.is_none() && src_of(&*im.self_ty) == *sname {
                    for ii in &im.items {
                        if let syn::ImplItem::Fn(f) = ii {
                            if !has_attr_cfg(&f.attrs, "test") {
                                methods.push(f);
                            }
                        }
                    }
                }
            }
        }
        let st = SInfo { name: sname.to_string(), fields, derives_default, methods };
        // ignored Vec fields must never be touched by unsafe / raw code
        for f in &st.methods {
            struct Ig<'x, 'f> {
                st: &'x SInfo<'f>,
                bad: Option<(usize, String)>,
                in_unsafe: usize,
            }
            impl<'x, 'f, 'ast> syn::visit::Visit<'ast> for Ig<'x, 'f> {
                fn visit_expr_unsafe(&mut self, u: &'ast syn::ExprUnsafe) {
                    self.in_unsafe += 1;
                    syn::visit::visit_expr_unsafe(self, u);
                    self.in_unsafe -= 1;
                }
                fn visit_expr_field(&mut self, f: &'ast syn::ExprField) {
                    let e = Expr::Field(f.clone());
                    if let Some(n) = self_field(&e) {
                        if self.st.kind(&n) == Some(FK::Ignored) && self.in_unsafe > 0 && self.bad.is_none() {
                            self.bad = Some((line_of(f), src_of(f)));
                        }
                    }
                    syn::visit::visit_expr_field(self, f);
                }
            }
            let mut ig = Ig { st: &st, bad: None, in_unsafe: 0 };
            syn::visit::Visit::visit_block(&mut ig, &f.block);
            if let Some((l, s)) = ig.bad {
                return fail_at(l, &s, "a field left out of the model is used inside an unsafe block");
            }
        }

        // record
        let tracked: Vec<(String, FK)> = st.fields.iter().filter(|f| f.1 != FK::Ignored).cloned().collect();
        let fname = |f: &(String, FK)| if f.1 == FK::VecLen { format!("{}_{}_len", sname, f.0) } else { format!("{}_{}", sname, f.0) };
        coq.push_str(&format!("(* struct {} (line {}): scalar usize fields and Vec lengths; fields left out: {} *)\n", sname, line_of(sdef),
            st.fields.iter().filter(|f| f.1 == FK::Ignored).map(|f| f.0.clone()).collect::<Vec<_>>().join(", ")));
        coq.push_str(&format!("Record {} : Type := mk_{} {{ {} }}.\n", sname, sname, tracked.iter().map(|f| format!("{} : N", fname(f))).collect::<Vec<_>>().join("; ")));
        for (i, f) in tracked.iter().enumerate() {
            let args: Vec<String> = tracked.iter().enumerate().map(|(j, g)| if i == j { "v".to_string() } else { format!("({} s)", fname(g)) }).collect();
            coq.push_str(&format!("Definition set_{} (s : {}) (v : N) : {} := mk_{} {}.\n", fname(f), sname, sname, sname, args.join(" ")));
            if f.1 == FK::VecLen {
                coq.push_str(&format!("Definition arr_{}_{} : N := {}.\n", sname, f.0, arr_id));
                arr_id += 1;
            }
        }
        if st.derives_default {
            coq.push_str(&format!("Definition {}_default : {} := mk_{} {}.\n", sname, sname, sname, tracked.iter().map(|_| "0").collect::<Vec<_>>().join(" ")));
        }
        coq.push('\n');

        // order: callees first
        let names: BTreeSet<String> = st.methods.iter().map(|f| f.sig.ident.to_string()).collect();
        let mut order: Vec<&syn::ImplItemFn> = Vec::new();
        let mut done: BTreeSet<String> = BTreeSet::new();
        let mut guard = 0;
        while order.len() < st.methods.len() && guard < 100 {
            guard += 1;
            for f in &st.methods {
                let n = f.sig.ident.to_string();
                if done.contains(&n) {
                    continue;
                }
                let deps: BTreeSet<String> = calls_of(f).into_iter().filter(|c| names.contains(c) && *c != n).collect();
                if deps.iter().all(|d| done.contains(d)) {
                    done.insert(n);
                    order.push(f);
                }
            }
        }
        if order.len() != st.methods.len() {
            return fail_at(line_of(sdef), sname, "recursive sibling calls");
        }
        let must: &[&str] = MUST.iter().find(|m| m.0 == *sname).map(|m| m.1).unwrap_or(&[]);
        for m in must {
            if !names.contains(*m) {
                return fail_at(line_of(sdef), &format!("{}::{}", sname, m), "expected method not found (renamed or removed; the Coq statements refer to it)");
            }
        }
        let mut translated: BTreeMap<String, MethInfo> = BTreeMap::new();
        let mut skipped: BTreeSet<String> = BTreeSet::new();
        let mut rep_methods = Vec::new();
        for f in order {
            let mname = f.sig.ident.to_string();
            let (is_opt, ret_txt) = ret_kind(f);
            // constructor: no receiver, returns Self
            let has_recv = f.sig.inputs.iter().any(|a| matches!(a, syn::FnArg::Receiver(_)));
            let mut params: Vec<(String, PK)> = Vec::new();
            let mut slice_params = BTreeSet::new();
            let mut param_err = None;
            for a in &f.sig.inputs {
                if let syn::FnArg::Typed(pt) = a {
                    let ty = src_of(&pt.ty).replace(' ', "");
                    let pn = src_of(&pt.pat).replace("mut ", "");
                    match ty.as_str() {
                        "usize" | "u32" | "u64" | "u16" => params.push((pn, PK::Num)),
                        "bool" => params.push((pn, PK::Bool)),
                        t if t.starts_with("&[") => {
                            slice_params.insert(pn.clone());
                            params.push((pn, PK::SliceLen));
                        }
                        _ => param_err = Some((line_of(a), src_of(a))),
                    }
                }
            }
            let cx = Cx {
                st: &st, consts: &consts, translated: &translated, skipped: &skipped, slice_params, is_opt, returns_value: ret_txt != "()",
                pres: RefCell::new(vec![]), fresh: Cell::new(0), written: RefCell::new(BTreeSet::new()),
                accesses: RefCell::new(vec![]), nd_sites: RefCell::new(vec![]), mutates: Cell::new(false),
            };
            let mut vars: Vars = BTreeMap::new();
            for (pn, pk) in &params {
                match pk {
                    PK::Num => { vars.insert(pn.clone(), V::Num(coq_ident(pn))); }
                    PK::Bool => { vars.insert(pn.clone(), V::Bool(coq_ident(pn))); }
                    PK::SliceLen => { vars.insert(pn.clone(), V::Data); }
                }
            }
            let pdecl: String = params.iter().map(|(pn, pk)| match pk {
                PK::Num => format!(" ({} : N)", coq_ident(pn)),
                PK::Bool => format!(" ({} : bool)", coq_ident(pn)),
                PK::SliceLen => format!(" ({}_len : N)", coq_ident(pn)),
            }).collect();
            let result: Res<String> = (|| {
                if let Some((l, s)) = &param_err {
                    return fail_at(*l, s, "parameter type outside the model");
                }
                if !has_recv {
                    // constructor: lets, then `Self { .. }`
                    let stmts = &f.block.stmts;
                    let Some(Stmt::Expr(Expr::Struct(lit), None)) = stmts.last() else { return fail(&f.sig, "associated function without receiver that does not end in a struct literal") };
                    let env_vars = RefCell::new(vars.clone());
                    let mut lets = String::new();
                    for s in &stmts[..stmts.len() - 1] {
                        let Stmt::Local(l) = s else { return fail(s, "constructor statement other than let") };
                        let Pat::Ident(pi) = &l.pat else { return fail(&l.pat, "constructor let pattern") };
                        let Some(init) = &l.init else { return fail(l, "let without initialiser") };
                        let vs = env_vars.borrow().clone();
                        let env = E { cx: &cx, vars: &vs };
                        let t = env.num(&init.expr)?;
                        let g = coq_ident(&pi.ident.to_string());
                        lets.push_str(&format!("  let {} := {} in\n", g, t));
                        env_vars.borrow_mut().insert(pi.ident.to_string(), V::Num(g));
                    }
                    let vs = env_vars.borrow().clone();
                    let env = E { cx: &cx, vars: &vs };
                    let mut vals = Vec::new();
                    for tf in &tracked {
                        let Some(fv) = lit.fields.iter().find(|x| src_of(&x.member) == tf.0) else { return fail(lit, "struct literal misses a tracked field") };
                        let ex = strip_parens(&fv.expr);
                        let t = if tf.1 == FK::Scalar {
                            env.num(ex)?
                        } else {
                            // Vec::new() | vec![X; N] | Vec::with_capacity(_)
                            let txt = src_of(ex).replace(' ', "");
                            if txt == "Vec::new()" || txt.starts_with("Vec::with_capacity(") {
                                "0".to_string()
                            } else if let Expr::Macro(mc) = ex {
                                if mc.mac.path.is_ident("vec") {
                                    let toks = mc.mac.tokens.to_string();
                                    let Some(idx) = toks.rfind(';') else { return fail(ex, "vec! literal other than vec![X; N]") };
                                    let n_expr: Expr = syn::parse_str(&toks[idx + 1..]).map_err(|_| TrError { file: cur_file(), line: line_of(ex), construct: src_of(ex), msg: "cannot parse the length of vec![X; N]".into() })?;
                                    env.num(&n_expr)?
                                } else {
                                    return fail(ex, "initialiser of a tracked Vec that the extractor does not understand");
                                }
                            } else {
                                return fail(ex, "initialiser of a tracked Vec that the extractor does not understand");
                            }
                        };
                        vals.push(t);
                    }
                    return Ok(format!("Definition {}_{}{} : {} :=\n{}  mk_{} {}.\n", sname, mname, pdecl, sname, lets, sname, vals.iter().map(|v| format!("({})", v)).collect::<Vec<_>>().join(" ")));
                }
                let ws: Vec<W> = f.block.stmts.iter().map(W::S).collect();
                let body = cx.walk(&ws, vars.clone())?;
                Ok(format!("Definition {}_{} (s : {}) (rd : N -> N -> N) (nd : N -> bool){} : mres {} :=\n  {}.\n", sname, mname, sname, pdecl, sname, body))
            })();
            match result {
                Ok(def) => {
                    coq.push_str(&format!("(* {}::{} (line {}) -> {} *)\n{}\n", sname, mname, line_of(&f.sig), coq_comment(&ret_txt), def));
                    let accs = cx.accesses.borrow().clone();
                    total_accesses += accs.len();
                    total_methods += 1;
                    method_names.push(format!("{}_{}", sname, mname));
                    rep_methods.push(json!({"name": mname, "line": line_of(&f.sig), "translated": true, "constructor": !has_recv, "returns": ret_txt,
                        "accesses": accs, "opaque_conditions_at_lines": cx.nd_sites.borrow().clone(), "unsafe_fn": f.sig.unsafety.is_some()}));
                    if has_recv {
                        translated.insert(mname.clone(), MethInfo { is_opt, params: params.clone(), written: cx.written.borrow().clone(), mutates: cx.mutates.get() });
                    }
                }
                Err(e) => {
                    if must.contains(&mname.as_str()) {
                        return Err(e);
                    }
                    let mut ok_sib: BTreeSet<String> = translated.keys().cloned().collect();
                    ok_sib.extend(skipped.iter().cloned());
                    // translated siblings that mutate lengths are not acceptable inside an untranslated method
                    let ok_sib: BTreeSet<String> = ok_sib.into_iter().filter(|n| translated.get(n).map(|m| !m.mutates).unwrap_or(true)).collect();
                    match preserves(f, &st, &ok_sib) {
                        Ok(()) => {
                            skipped.insert(mname.clone());
                            rep_methods.push(json!({"name": mname, "line": line_of(&f.sig), "translated": false,
                                "why_not": format!("line {}: {} ({})", e.line, e.msg, e.construct),
                                "accepted_because": "no unsafe code and only length-preserving safe methods on the tracked Vecs"}));
                        }
                        Err((l, why)) => {
                            return fail_at(l, &format!("{}::{}", sname, mname), &format!("method could not be translated ({} at line {}) and is not provably length-preserving: {}", e.msg, e.line, why));
                        }
                    }
                }
            }
        }
        rep_structs.push(json!({"name": sname, "line": line_of(sdef), "fields": st.fields.iter().map(|f| json!({"name": f.0, "kind": format!("{:?}", f.1)})).collect::<Vec<_>>(), "methods": rep_methods}));
    }
    coq.push_str(&format!("Definition packed_method_count : N := {}.\n", total_methods));
    let report = json!({"ok": true, "source": path, "structs": rep_structs, "methods_translated": total_methods, "accesses_total": total_accesses,
        "method_names": method_names, "constants": consts,
        "summary": format!("{} methods of {} structs, {} access sites", total_methods, STRUCTS.len(), total_accesses)});
    Ok(Out { coq, report })
}
