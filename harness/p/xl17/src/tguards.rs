use crate::util::*;
pub struct Out { pub coq: String, pub report: serde_json::Value }
pub fn run(_repo: &str) -> Res<Out> { fail_at(0, "", "not implemented") }
