//! Target `guards`: for every call of an `unsafe fn` of engine/src/ann_backend.rs (the `*_unchecked`
//! accessors and the unsafe forwarders), find what in the enclosing function makes each id / index
//! argument valid: a dominating `if x as usize >= node_count { continue }`, a loop bound obtained from
//! `count_unchecked`, an `if idx + K < neighbor_count`, provenance from a heap / Vec that is only ever
//! filled with guarded ids, an early `return`, or (inside an unsafe fn) a forwarded parameter whose
//! obligation moves to the callers.  "none found" => Guards_gen.v records GNone and xl17 exits 2.
use crate::util::*;
use serde_json::json;
use std::collections::{BTreeMap, BTreeSet};
use syn::{Expr, Pat, Stmt};

fn norm(s: &str) -> String {
    let mut t = s.replace(' ', "");
    for suf in ["asusize", "asu64"] {
        t = t.replace(suf, "");
    }
    // strip redundant outer parens
    while t.starts_with('(') && t.ends_with(')') && balanced(&t[1..t.len() - 1]) {
        t = t[1..t.len() - 1].to_string();
    }
    t
}
fn balanced(s: &str) -> bool {
    let mut d = 0i32;
    for c in s.chars() {
        if c == '(' {
            d += 1
        }
        if c == ')' {
            d -= 1;
            if d < 0 {
                return false;
            }
        }
    }
    d == 0
}
fn ntxt(e: &Expr) -> String {
    norm(&quote::ToTokens::to_token_stream(e).to_string())
}

#[derive(Clone, Debug)]
enum Bind {
    NodeCountAlias(String),                       // let node_count = self.len();
    ForRange { var: String, hi: String },         // for idx in 0..hi
    CountOf { var: String, id: String },          // let n = unsafe { self.level0.count_unchecked(id) }
    PopFrom { var: String, heap: String },        // while let Some(var) = heap.pop()
    IterOf { var: String, coll: String },         // for &var in coll.iter() / for &(var, _) in coll.iter().take(..)
    Param(String),
    Alias { var: String, of: String },             // let idx = dense_id as usize;
    TupleFromCall { var: String, callee: String }, // let (var, _) = self.callee(..)
    FirstOf { var: String, coll: String },        // if let Some(&(var, _)) = coll.first()
    Other(String),
}
#[derive(Clone, Debug)]
struct Fact {
    lhs: String,
    rhs: String, // lhs < rhs
    line: usize,
    how: String,
}
#[derive(Clone, Debug, Default)]
struct Ctx {
    binds: Vec<Bind>,
    facts: Vec<Fact>,
    prepared: Vec<(String, usize)>, // scratch.prepare(node_count, ..) seen: (arg text, line)
    cleared: Vec<(String, usize)>,  // coll.clear() seen at any point before
}

#[derive(Clone, Debug)]
struct Site {
    func: String,
    func_unsafe: bool,
    callee: String,
    line: usize,
    args: Vec<(String, String, String, String)>, // (param name, role, kind, explanation)
}

struct FnInfo<'f> {
    name: String,
    owner: String,
    unsafe_: bool,
    params: Vec<(String, String)>,
    block: &'f syn::Block,
    line: usize,
}

struct An<'a, 'f> {
    unsafe_callees: &'a BTreeMap<String, Vec<(String, String)>>, // name -> params (name, type)
    cur: &'a FnInfo<'f>,
    pushes: &'a BTreeMap<String, Vec<(String, usize, Ctx)>>,     // collection text -> pushed id expression text, line, context there
    sites: Vec<Site>,
    mode_collect: bool,
    collected: BTreeMap<String, Vec<(String, usize, Ctx)>>,
    assigns: BTreeMap<String, Vec<(String, usize, Ctx)>>,         // variable -> assigned expression text
}

fn cond_disjuncts(e: &Expr, out: &mut Vec<Expr>) {
    match strip_parens(e) {
        Expr::Binary(b) if matches!(b.op, syn::BinOp::Or(_)) => {
            cond_disjuncts(&b.left, out);
            cond_disjuncts(&b.right, out);
        }
        x => out.push(x.clone()),
    }
}
fn cond_conjuncts(e: &Expr, out: &mut Vec<Expr>) {
    match strip_parens(e) {
        Expr::Binary(b) if matches!(b.op, syn::BinOp::And(_)) => {
            cond_conjuncts(&b.left, out);
            cond_conjuncts(&b.right, out);
        }
        x => out.push(x.clone()),
    }
}
/// `a >= b` negated gives a < b ;  `a < b` asserted gives a < b
fn lt_of(e: &Expr, negated: bool) -> Option<(String, String)> {
    if let Expr::Binary(b) = strip_parens(e) {
        let (l, r) = (ntxt(&b.left), ntxt(&b.right));
        return match (&b.op, negated) {
            (syn::BinOp::Ge(_), true) => Some((l, r)),
            (syn::BinOp::Le(_), true) => Some((r, l)),
            (syn::BinOp::Lt(_), false) => Some((l, r)),
            (syn::BinOp::Gt(_), false) => Some((r, l)),
            _ => None,
        };
    }
    None
}
fn block_diverges(b: &syn::Block) -> Option<&'static str> {
    match b.stmts.last() {
        Some(Stmt::Expr(Expr::Continue(_), _)) => Some("continue"),
        Some(Stmt::Expr(Expr::Return(_), _)) => Some("return"),
        Some(Stmt::Expr(Expr::Break(_), _)) => Some("break"),
        _ => None,
    }
}
fn pat_vars(p: &Pat, out: &mut Vec<String>) {
    match p {
        Pat::Ident(i) => out.push(i.ident.to_string()),
        Pat::Reference(r) => pat_vars(&r.pat, out),
        Pat::Tuple(t) => t.elems.iter().for_each(|x| pat_vars(x, out)),
        Pat::TupleStruct(t) => t.elems.iter().for_each(|x| pat_vars(x, out)),
        Pat::Type(t) => pat_vars(&t.pat, out),
        Pat::Paren(p) => pat_vars(&p.pat, out),
        _ => {}
    }
}
/// receiver text of `X.iter()`, `X.iter().take(n)`, `X.iter().enumerate()`, `&X`, `X`
fn iter_source(e: &Expr) -> String {
    let mut cur = strip_parens(e);
    loop {
        match cur {
            Expr::MethodCall(m) if ["iter", "take", "enumerate", "copied", "cloned", "rev", "skip"].contains(&m.method.to_string().as_str()) => cur = strip_parens(&m.receiver),
            Expr::Reference(r) => cur = strip_parens(&r.expr),
            _ => break,
        }
    }
    ntxt(cur)
}

impl<'a, 'f> An<'a, 'f> {
    fn is_node_count(&self, txt: &str, ctx: &Ctx) -> bool {
        txt == "self.len()" || txt == "flat.len()" || ctx.binds.iter().any(|b| matches!(b, Bind::NodeCountAlias(n) if n == txt))
    }
    fn guarded_by_node_count(&self, id: &str, ctx: &Ctx) -> Option<Fact> {
        if let Some(f) = ctx.facts.iter().rev().find(|f| f.lhs == id && self.is_node_count(&f.rhs, ctx)) {
            return Some(f.clone());
        }
        // `let idx = id as usize; if idx >= self.len() { return; }`
        for b in &ctx.binds {
            if let Bind::Alias { var, of } = b {
                if of == id {
                    if let Some(f) = ctx.facts.iter().rev().find(|f| f.lhs == *var && self.is_node_count(&f.rhs, ctx)) {
                        return Some(f.clone());
                    }
                }
            }
        }
        None
    }

    fn classify_id(&self, e: &Expr, ctx: &Ctx, depth: usize) -> (String, String) {
        let t = ntxt(e);
        if let Some(f) = self.guarded_by_node_count(&t, ctx) {
            let kind = if f.how == "return" { "GEarlyReturn" } else { "GNodeCount" };
            return (kind.into(), format!("`{} >= {}` => {} at line {}", t, f.rhs, f.how, f.line));
        }
        // x.dense_id where x was popped from a heap
        if let Some(base) = t.strip_suffix(".dense_id") {
            if let Some(Bind::PopFrom { heap, .. }) = ctx.binds.iter().rev().find(|b| matches!(b, Bind::PopFrom { var, .. } if var == base)) {
                return self.provenance(heap, "GHeapProvenance", depth);
            }
        }
        // loop variable over a collection
        if let Some(Bind::IterOf { coll, .. }) = ctx.binds.iter().rev().find(|b| matches!(b, Bind::IterOf { var, .. } if *var == t)) {
            let cleared = ctx.cleared.iter().any(|c| c.0 == *coll);
            if !cleared {
                return ("GNone".into(), format!("`{}` iterates `{}`, which is not cleared in this function before being filled", t, coll));
            }
            return self.provenance(coll, "GCollection", depth);
        }
        if let Some(Bind::Param(_)) = ctx.binds.iter().find(|b| matches!(b, Bind::Param(p) if *p == t)) {
            if self.cur.unsafe_ {
                return ("GParam".into(), format!("parameter `{}` of unsafe fn {}: the obligation is its callers' (each call is its own site)", t, self.cur.name));
            }
            return ("GNone".into(), format!("parameter `{}` of a SAFE function reaches an unchecked accessor without a guard", t));
        }
        ("GNone".into(), format!("no dominating guard found for `{}`", t))
    }

    /// every value pushed into `coll` in this function is a guarded id or a parameter (=> entry obligation)
    fn provenance(&self, coll: &str, kind: &str, depth: usize) -> (String, String) {
        if depth > 2 {
            return ("GNone".into(), "provenance chain too deep".into());
        }
        let Some(ps) = self.pushes.get(coll) else { return ("GNone".into(), format!("no push into `{}` found in this function", coll)) };
        let mut notes = Vec::new();
        for (ex, line, pctx) in ps {
            if let Some(f) = self.guarded_by_node_count(ex, pctx) {
                notes.push(format!("push of `{}` at line {} guarded at line {}", ex, line, f.line));
            } else if pctx.binds.iter().any(|b| matches!(b, Bind::Param(p) if p == ex)) {
                notes.push(format!("push of parameter `{}` at line {} (entry obligation of the callers)", ex, line));
            } else if let Some(base) = ex.strip_suffix(".dense_id") {
                // re-push of an element popped from another heap of the same provenance
                if let Some(Bind::PopFrom { heap, .. }) = pctx.binds.iter().rev().find(|b| matches!(b, Bind::PopFrom { var, .. } if var == base)) {
                    let (k, n) = self.provenance(heap, kind, depth + 1);
                    if k == "GNone" {
                        return (k, n);
                    }
                    notes.push(format!("push of `{}` at line {} popped from `{}`", ex, line, heap));
                } else {
                    return ("GNone".into(), format!("push of `{}` at line {} is neither guarded nor a parameter", ex, line));
                }
            } else {
                return ("GNone".into(), format!("push of `{}` at line {} is neither guarded nor a parameter", ex, line));
            }
        }
        (kind.into(), format!("`{}` only ever receives: {}", coll, notes.join("; ")))
    }

    fn classify_idx(&self, e: &Expr, id_txt: &str, ctx: &Ctx) -> (String, String) {
        let t = ntxt(e);
        // for idx in 0..n, n = count_unchecked(same id)
        if let Some(Bind::ForRange { hi, .. }) = ctx.binds.iter().rev().find(|b| matches!(b, Bind::ForRange { var, .. } if *var == t)) {
            if let Some(Bind::CountOf { id, .. }) = ctx.binds.iter().rev().find(|b| matches!(b, Bind::CountOf { var, .. } if var == hi)) {
                if id == id_txt {
                    return ("GLoopBound".into(), format!("`{}` ranges over 0..{} and {} = count_unchecked({}) (<= cap by its `.min(self.cap)`)", t, hi, hi, id));
                }
                return ("GNone".into(), format!("loop bound `{}` is the count of `{}`, not of `{}`", hi, id, id_txt));
            }
            if let Some(Bind::Param(_)) = ctx.binds.iter().find(|b| matches!(b, Bind::Param(p) if p == hi)) {
                if self.cur.unsafe_ {
                    return ("GParam".into(), format!("`{}` < parameter `{}` of unsafe fn", t, hi));
                }
            }
        }
        // idx + K under `if idx + K < bound`
        if let Some(f) = ctx.facts.iter().rev().find(|f| f.lhs == t) {
            let bound_is_param = ctx.binds.iter().any(|b| matches!(b, Bind::Param(p) if *p == f.rhs));
            let bound_is_count = ctx.binds.iter().any(|b| matches!(b, Bind::CountOf { var, id } if *var == f.rhs && id == id_txt));
            if bound_is_count || (bound_is_param && self.cur.unsafe_) {
                return ("GLookahead".into(), format!("`{} < {}` at line {} ({} is {})", t, f.rhs, f.line, f.rhs, if bound_is_count { "the node's count" } else { "a parameter: callers pass the node's count" }));
            }
        }
        if let Some(Bind::Param(_)) = ctx.binds.iter().find(|b| matches!(b, Bind::Param(p) if *p == t)) {
            if self.cur.unsafe_ {
                return ("GParam".into(), format!("parameter `{}` of unsafe fn", t));
            }
        }
        ("GNone".into(), format!("no bound found for index `{}`", t))
    }

    fn classify_count(&self, e: &Expr, id_txt: &str, ctx: &Ctx) -> (String, String) {
        let t = ntxt(e);
        if ctx.binds.iter().any(|b| matches!(b, Bind::CountOf { var, id } if *var == t && id == id_txt)) {
            return ("GCountOfNode".into(), format!("`{}` = count_unchecked({})", t, id_txt));
        }
        ("GNone".into(), format!("`{}` is not the count of node `{}`", t, id_txt))
    }

    fn site(&mut self, callee: &str, args: Vec<&Expr>, line: usize, ctx: &Ctx) {
        let Some(params) = self.unsafe_callees.get(callee) else { return };
        let mut out = Vec::new();
        // the id argument (first u32 parameter) is the reference for idx / count classification
        let id_pos = params.iter().position(|p| p.1 == "u32");
        let id_txt = id_pos.and_then(|p| args.get(p)).map(|e| ntxt(e)).unwrap_or_default();
        for (i, (pn, pt)) in params.iter().enumerate() {
            let Some(a) = args.get(i) else { continue };
            match (pt.as_str(), pn.as_str()) {
                ("u32", _) => {
                    let (mut k, mut why) = self.classify_id(a, ctx, 0);
                    if callee == "mark_if_unvisited_unchecked" && k != "GNone" && k != "GParam" {
                        // the bitset must have been sized for the same node count, and not shrunk since
                        let bound = self.guarded_by_node_count(&ntxt(a), ctx).map(|f| f.rhs).unwrap_or_default();
                        if ctx.prepared.iter().any(|p| p.0 == bound || (self.is_node_count(&p.0, ctx) && self.is_node_count(&bound, ctx))) {
                            k = "GNodeCountPrepared".into();
                            why = format!("{}; scratch.prepare({}, ..) at line {}", why, bound, ctx.prepared.last().map(|p| p.1).unwrap_or(0));
                        } else {
                            k = "GNone".into();
                            why = format!("{} — but no scratch.prepare({}, ..) precedes", why, bound);
                        }
                    }
                    out.push((pn.clone(), "id".to_string(), k, why));
                }
                ("usize", "idx") => {
                    let (k, why) = self.classify_idx(a, &id_txt, ctx);
                    out.push((pn.clone(), "idx".to_string(), k, why));
                }
                ("usize", "neighbor_count") => {
                    let (k, why) = self.classify_count(a, &id_txt, ctx);
                    out.push((pn.clone(), "count".to_string(), k, why));
                }
                _ => {}
            }
        }
        self.sites.push(Site { func: self.cur.name.clone(), func_unsafe: self.cur.unsafe_, callee: callee.to_string(), line, args: out });
    }

    fn scan_expr(&mut self, e: &Expr, ctx: &mut Ctx) {
        // find calls (in evaluation order is irrelevant here)
        match e {
            Expr::MethodCall(m) => {
                self.scan_expr(&m.receiver, ctx);
                for a in &m.args {
                    self.scan_expr(a, ctx);
                }
                let n = m.method.to_string();
                let recv = ntxt(&m.receiver);
                if n == "prepare" && recv.ends_with("scratch") {
                    if let Some(a0) = m.args.first() {
                        ctx.prepared.push((ntxt(a0), line_of(m)));
                    }
                }
                if n == "finish_query" {
                    ctx.prepared.clear();
                }
                if n == "clear" && m.args.is_empty() {
                    ctx.cleared.push((recv.clone(), line_of(m)));
                }
                if n == "push" && m.args.len() == 1 {
                    // id pushed: Struct { dense_id: E, .. }  |  E  |  (E, _)
                    let a = strip_parens(&m.args[0]);
                    let id_expr: Option<String> = match a {
                        Expr::Struct(s) => s.fields.iter().find(|f| src_of(&f.member) == "dense_id").map(|f| ntxt(&f.expr)),
                        Expr::Tuple(t) => t.elems.first().map(ntxt),
                        other => Some(ntxt(other)),
                    };
                    if let Some(ie) = id_expr {
                        if self.mode_collect {
                            self.collected.entry(recv.clone()).or_default().push((ie, line_of(m), ctx.clone()));
                        }
                    }
                }
                if self.unsafe_callees.contains_key(&n) && !self.mode_collect {
                    self.site(&n, m.args.iter().collect(), line_of(m), ctx);
                }
            }
            Expr::Call(c) => {
                for a in &c.args {
                    self.scan_expr(a, ctx);
                }
            }
            Expr::Unsafe(u) => self.block(&u.block, ctx),
            Expr::Block(b) => self.block(&b.block, ctx),
            Expr::Paren(p) => self.scan_expr(&p.expr, ctx),
            Expr::Reference(r) => self.scan_expr(&r.expr, ctx),
            Expr::Unary(u) => self.scan_expr(&u.expr, ctx),
            Expr::Cast(c) => self.scan_expr(&c.expr, ctx),
            Expr::Binary(b) => {
                self.scan_expr(&b.left, ctx);
                self.scan_expr(&b.right, ctx);
            }
            Expr::Field(f) => self.scan_expr(&f.base, ctx),
            Expr::Index(i) => {
                self.scan_expr(&i.expr, ctx);
                self.scan_expr(&i.index, ctx);
            }
            Expr::Tuple(t) => t.elems.iter().for_each(|x| self.scan_expr(x, ctx)),
            Expr::Struct(s) => s.fields.iter().for_each(|f| self.scan_expr(&f.expr, ctx)),
            Expr::Return(r) => {
                if let Some(x) = &r.expr {
                    self.scan_expr(x, ctx)
                }
            }
            Expr::Assign(a) => {
                self.scan_expr(&a.right, ctx);
                if let Some(id) = path_ident(&a.left) {
                    // a re-assigned variable loses the facts known about it
                    ctx.facts.retain(|f| f.lhs != id);
                    if self.mode_collect {
                        self.assigns.entry(id).or_default().push((ntxt(&a.right), line_of(a), ctx.clone()));
                    }
                }
            }
            Expr::Closure(c) => {
                let mut inner = ctx.clone();
                self.scan_expr(&c.body, &mut inner);
            }
            Expr::If(i) => self.if_expr(i, ctx),
            Expr::ForLoop(f) => {
                self.scan_expr(&f.expr, ctx);
                let mut inner = ctx.clone();
                let mut vars = Vec::new();
                pat_vars(&f.pat, &mut vars);
                for v in &vars {
                    inner.facts.retain(|x| x.lhs != *v);
                }
                let it = strip_parens(&f.expr);
                if let Expr::Range(r) = it {
                    if let (Some(v), Some(hi)) = (vars.first(), &r.end) {
                        let zero = r.start.as_ref().map(|s| ntxt(s) == "0").unwrap_or(false);
                        if zero && matches!(r.limits, syn::RangeLimits::HalfOpen(_)) {
                            inner.binds.push(Bind::ForRange { var: v.clone(), hi: ntxt(hi) });
                        }
                    }
                } else {
                    let src = iter_source(it);
                    let enumerate = quote::ToTokens::to_token_stream(it).to_string().contains("enumerate");
                    // with enumerate the pattern is (idx, &x): the element variable is the second
                    let elem = if enumerate { vars.get(1) } else { vars.first() };
                    if let Some(v) = elem {
                        inner.binds.push(Bind::IterOf { var: v.clone(), coll: src });
                    }
                }
                self.block(&f.body, &mut inner);
                // facts established inside do not survive; clears/prepares do
                ctx.cleared = inner.cleared;
            }
            Expr::While(w) => {
                let mut inner = ctx.clone();
                if let Expr::Let(l) = strip_parens(&w.cond) {
                    let mut vars = Vec::new();
                    pat_vars(&l.pat, &mut vars);
                    if let Expr::MethodCall(m) = strip_parens(&l.expr) {
                        if m.method == "pop" {
                            if let Some(v) = vars.first() {
                                inner.binds.push(Bind::PopFrom { var: v.clone(), heap: ntxt(&m.receiver) });
                            }
                        }
                    }
                } else {
                    self.scan_expr(&w.cond, &mut inner);
                }
                self.block(&w.body, &mut inner);
            }
            Expr::Loop(l) => {
                let mut inner = ctx.clone();
                self.block(&l.body, &mut inner);
            }
            Expr::Match(m) => {
                self.scan_expr(&m.expr, ctx);
                for arm in &m.arms {
                    let mut inner = ctx.clone();
                    self.scan_expr(&arm.body, &mut inner);
                }
            }
            _ => {}
        }
    }

    fn if_expr(&mut self, i: &syn::ExprIf, ctx: &mut Ctx) {
        let cond = strip_parens(&i.cond);
        let mut then_ctx = ctx.clone();
        if let Expr::Let(l) = cond {
            self.scan_expr(&l.expr, ctx);
            let mut vars = Vec::new();
            pat_vars(&l.pat, &mut vars);
            if let Expr::MethodCall(m) = strip_parens(&l.expr) {
                if m.method == "first" {
                    if let Some(v) = vars.first() {
                        then_ctx.binds.push(Bind::FirstOf { var: v.clone(), coll: ntxt(&m.receiver) });
                    }
                }
            }
        } else {
            self.scan_expr(cond, ctx);
            let mut cj = Vec::new();
            cond_conjuncts(cond, &mut cj);
            for c in &cj {
                if let Some((l, r)) = lt_of(c, false) {
                    then_ctx.facts.push(Fact { lhs: l, rhs: r, line: line_of(i), how: "if".into() });
                }
            }
        }
        self.block(&i.then_branch, &mut then_ctx);
        if let Some((_, eb)) = &i.else_branch {
            let mut ec = ctx.clone();
            self.scan_expr(eb, &mut ec);
        }
        // `if A || B { continue }` : afterwards not A and not B
        if i.else_branch.is_none() && !matches!(cond, Expr::Let(_)) {
            if let Some(how) = block_diverges(&i.then_branch) {
                let mut dj = Vec::new();
                cond_disjuncts(cond, &mut dj);
                for d in &dj {
                    if let Some((l, r)) = lt_of(d, true) {
                        ctx.facts.push(Fact { lhs: l, rhs: r, line: line_of(i), how: how.into() });
                    }
                }
            } else {
                // `if entry as usize >= self.len() { entry = 0; }` : the clamp
                let mut dj = Vec::new();
                cond_disjuncts(cond, &mut dj);
                if dj.len() == 1 && i.then_branch.stmts.len() == 1 {
                    if let (Some((l, r)), Stmt::Expr(Expr::Assign(a), _)) = (lt_of(&dj[0], true), &i.then_branch.stmts[0]) {
                        if path_ident(&a.left).as_deref() == Some(l.as_str()) && ntxt(&a.right) == "0" {
                            ctx.facts.push(Fact { lhs: l, rhs: r, line: line_of(i), how: "clamp-to-0".into() });
                        }
                    }
                }
            }
        }
        ctx.cleared = then_ctx.cleared.clone();
        if !then_ctx.prepared.is_empty() && ctx.prepared.is_empty() {
            // conservative: a prepare inside a branch does not count afterwards
        }
    }

    fn block(&mut self, b: &syn::Block, ctx: &mut Ctx) {
        for st in &b.stmts {
            match st {
                Stmt::Local(l) => {
                    let mut vars = Vec::new();
                    pat_vars(&l.pat, &mut vars);
                    if let Some(init) = &l.init {
                        self.scan_expr(&init.expr, ctx);
                        if let Some((_, d)) = &init.diverge {
                            let mut c2 = ctx.clone();
                            self.scan_expr(d, &mut c2);
                        }
                        let it = strip_casts(&init.expr);
                        let t = ntxt(it);
                        for v in &vars {
                            ctx.facts.retain(|f| f.lhs != *v);
                        }
                        if let Some(v) = vars.first() {
                            if t == "self.len()" || t == "flat.len()" {
                                ctx.binds.push(Bind::NodeCountAlias(v.clone()));
                            } else if path_ident(it).is_some() && !matches!(l.pat, Pat::Ident(ref pi) if pi.mutability.is_some()) {
                                ctx.binds.push(Bind::Alias { var: v.clone(), of: t.clone() });
                            } else if let Expr::MethodCall(m) = it {
                                if m.method == "count_unchecked" && m.args.len() == 1 {
                                    ctx.binds.push(Bind::CountOf { var: v.clone(), id: ntxt(&m.args[0]) });
                                } else if matches!(&l.pat, Pat::Tuple(_)) {
                                    ctx.binds.push(Bind::TupleFromCall { var: v.clone(), callee: m.method.to_string() });
                                } else {
                                    ctx.binds.push(Bind::Other(v.clone()));
                                }
                            } else {
                                ctx.binds.push(Bind::Other(v.clone()));
                            }
                            if self.mode_collect {
                                self.assigns.entry(v.clone()).or_default().push((t, line_of(l), ctx.clone()));
                            }
                        }
                    }
                }
                Stmt::Expr(e, _) => self.scan_expr(e, ctx),
                Stmt::Macro(_) | Stmt::Item(_) => {}
            }
        }
    }
}

pub struct Out {
    pub coq: String,
    pub report: serde_json::Value,
}

fn coq_str(s: &str) -> String {
    format!("\"{}\"%string", s.replace('"', "'"))
}

pub fn run(repo: &str) -> Res<Out> {
    let path = format!("{}/engine/src/ann_backend.rs", repo);
    set_file(&path);
    let file = parse_file(&path)?;
    // all functions outside #[cfg(test)]
    let mut fns: Vec<FnInfo> = Vec::new();
    for it in &file.items {
        match it {
            syn::Item::Fn(f) if !has_attr_cfg(&f.attrs, "test") => {
                fns.push(FnInfo { name: f.sig.ident.to_string(), owner: String::new(), unsafe_: f.sig.unsafety.is_some(), params: sig_params(&f.sig), block: &f.block, line: line_of(&f.sig) });
            }
            syn::Item::Impl(im) => {
                let owner = src_of(&*im.self_ty);
                for ii in &im.items {
                    if let syn::ImplItem::Fn(f) = ii {
                        if has_attr_cfg(&f.attrs, "test") {
                            continue;
                        }
                        fns.push(FnInfo { name: f.sig.ident.to_string(), owner: owner.clone(), unsafe_: f.sig.unsafety.is_some(), params: sig_params(&f.sig), block: &f.block, line: line_of(&f.sig) });
                    }
                }
            }
            _ => {}
        }
    }
    let mut unsafe_callees: BTreeMap<String, Vec<(String, String)>> = BTreeMap::new();
    let mut name_count: BTreeMap<String, usize> = BTreeMap::new();
    for f in &fns {
        *name_count.entry(f.name.clone()).or_default() += 1;
    }
    for f in &fns {
        if f.unsafe_ {
            // two unsafe fns of the same name (FlatGraph::vector_at_unchecked / PackedLevel0::vector_at_unchecked)
            // must agree on the parameter list for the by-name matching to be sound
            if let Some(prev) = unsafe_callees.get(&f.name) {
                if *prev != f.params {
                    return fail_at(f.line, &f.name, "two unsafe fns share a name but not a parameter list");
                }
            }
            unsafe_callees.insert(f.name.clone(), f.params.clone());
        }
    }
    // safe functions that do raw pointer arithmetic on an id argument without checking it themselves
    for f in &fns {
        if !f.unsafe_ && f.owner == "PackedLevel0" && f.name == "record_ptr" {
            unsafe_callees.insert(f.name.clone(), f.params.clone());
        }
    }
    // a safe function must not share its name with an unsafe one (method calls are matched by name)
    for f in &fns {
        if !f.unsafe_ && unsafe_callees.contains_key(&f.name) && f.name != "record_ptr" {
            return fail_at(f.line, &f.name, "a safe function shares its name with an unsafe fn (call sites are matched by name)");
        }
    }

    let mut sites: Vec<Site> = Vec::new();
    let mut entry_fns: BTreeSet<String> = BTreeSet::new();
    for f in &fns {
        let mut ctx0 = Ctx::default();
        for (pn, _) in &f.params {
            ctx0.binds.push(Bind::Param(pn.clone()));
        }
        // pass 1: collect pushes / assignments with their contexts
        let empty = BTreeMap::new();
        let mut a1 = An { unsafe_callees: &unsafe_callees, cur: f, pushes: &empty, sites: vec![], mode_collect: true, collected: BTreeMap::new(), assigns: BTreeMap::new() };
        let mut c1 = ctx0.clone();
        a1.block(f.block, &mut c1);
        let pushes = a1.collected;
        // pass 2: classify
        let mut a2 = An { unsafe_callees: &unsafe_callees, cur: f, pushes: &pushes, sites: vec![], mode_collect: false, collected: BTreeMap::new(), assigns: BTreeMap::new() };
        let mut c2 = ctx0.clone();
        a2.block(f.block, &mut c2);
        for s in &a2.sites {
            if s.args.iter().any(|a| a.3.contains("entry obligation")) {
                entry_fns.insert(f.name.clone());
            }
        }
        sites.extend(a2.sites);
    }

    // entry obligations: functions whose heap is seeded with their `entry` parameter.  Every call must pass a
    // variable that is clamped (`if e as usize >= X.len() { e = 0; }`) and afterwards only re-assigned from
    // the id returned by greedy_descent_layer / the first result of search_at_layer_into.
    let mut entry_sites = Vec::new();
    let id_returning: BTreeSet<&str> = ["greedy_descent_layer"].into_iter().collect();
    for f in &fns {
        struct Calls<'x> {
            targets: &'x BTreeSet<String>,
            found: Vec<(String, Vec<String>, usize)>,
        }
        impl<'x, 'ast> syn::visit::Visit<'ast> for Calls<'x> {
            fn visit_expr_method_call(&mut self, m: &'ast syn::ExprMethodCall) {
                let n = m.method.to_string();
                if self.targets.contains(&n) {
                    self.found.push((n, m.args.iter().map(ntxt).collect(), line_of(m)));
                }
                syn::visit::visit_expr_method_call(self, m);
            }
        }
        let mut cs = Calls { targets: &entry_fns, found: vec![] };
        syn::visit::Visit::visit_block(&mut cs, f.block);
        if cs.found.is_empty() {
            continue;
        }
        // gather facts about assignments in this function
        let empty = BTreeMap::new();
        let mut a1 = An { unsafe_callees: &unsafe_callees, cur: f, pushes: &empty, sites: vec![], mode_collect: true, collected: BTreeMap::new(), assigns: BTreeMap::new() };
        let mut c1 = Ctx::default();
        for (pn, _) in &f.params {
            c1.binds.push(Bind::Param(pn.clone()));
        }
        a1.block(f.block, &mut c1);
        let body_txt = norm(&quote::ToTokens::to_token_stream(f.block).to_string());
        for (callee, args, line) in cs.found {
            let callee_fn = fns.iter().find(|x| x.name == callee).unwrap();
            let Some(pos) = callee_fn.params.iter().position(|p| p.0 == "entry") else { continue };
            let var = args.get(pos).cloned().unwrap_or_default();
            let mut kind = "GNone".to_string();
            let mut why;
            // is it a parameter of a function that is itself an entry function? then forwarded
            if f.params.iter().any(|p| p.0 == var) && entry_fns.contains(&f.name) {
                kind = "GEntryForwarded".into();
                why = format!("`{}` is this function's own entry parameter", var);
            } else {
                let clamp_a = format!("if{}>=self.len(){{{}=0;}}", var, var);
                let clamp_b = format!("if{}>=flat.len(){{{}=0;}}", var, var);
                let clamped = body_txt.contains(&clamp_a) || body_txt.contains(&clamp_b);
                let mut ok = clamped;
                let mut notes = vec![if clamped { "clamped to 0 when >= len()".to_string() } else { "NO clamp `if e as usize >= len() { e = 0; }` found".to_string() }];
                for (rhs, l, actx) in a1.assigns.get(&var).cloned().unwrap_or_default() {
                    if rhs == "0" {
                        continue;
                    }
                    if rhs.contains("entry_by_layer[") {
                        notes.push(format!("initialised from entry_by_layer at line {} (arbitrary value, hence the clamp)", l));
                        continue;
                    }
                    let from_tuple = actx.binds.iter().any(|b| matches!(b, Bind::TupleFromCall { var: v, callee: c } if *v == rhs && id_returning.contains(c.as_str())));
                    let from_first = actx.binds.iter().any(|b| matches!(b, Bind::FirstOf { var: v, .. } if *v == rhs));
                    if from_tuple {
                        notes.push(format!("`{} = {}` at line {}: id returned by greedy_descent_layer", var, rhs, l));
                    } else if from_first {
                        notes.push(format!("`{} = {}` at line {}: first result of search_at_layer_into", var, rhs, l));
                    } else {
                        ok = false;
                        notes.push(format!("`{} = {}` at line {}: source not recognised", var, rhs, l));
                    }
                }
                if ok {
                    kind = "GEntryClamped".into();
                }
                why = notes.join("; ");
            }
            entry_sites.push(Site { func: f.name.clone(), func_unsafe: f.unsafe_, callee: callee.clone(), line, args: vec![("entry".into(), "entry".into(), kind, std::mem::take(&mut why))] });
        }
    }
    // greedy_descent_layer returns `current`: every assignment to it must be a guarded id
    let mut returns_ok = Vec::new();
    if let Some(g) = fns.iter().find(|f| f.name == "greedy_descent_layer") {
        let empty = BTreeMap::new();
        let mut a1 = An { unsafe_callees: &unsafe_callees, cur: g, pushes: &empty, sites: vec![], mode_collect: true, collected: BTreeMap::new(), assigns: BTreeMap::new() };
        let mut c1 = Ctx::default();
        for (pn, _) in &g.params {
            c1.binds.push(Bind::Param(pn.clone()));
        }
        a1.block(g.block, &mut c1);
        let mut ok = true;
        let mut notes = Vec::new();
        for (rhs, l, actx) in a1.assigns.get("current").cloned().unwrap_or_default() {
            if a1.guarded_by_node_count(&rhs, &actx).is_some() {
                notes.push(format!("current = {} at line {} (guarded)", rhs, l));
            } else {
                ok = false;
                notes.push(format!("current = {} at line {} NOT guarded", rhs, l));
            }
        }
        returns_ok.push(Site { func: "greedy_descent_layer".into(), func_unsafe: false, callee: "(returned id)".into(), line: g.line,
            args: vec![("current".into(), "returned".into(), if ok { "GReturnsGuarded".into() } else { "GNone".into() }, notes.join("; "))] });
    } else {
        return fail_at(0, "greedy_descent_layer", "function not found");
    }

    // structural facts used by the proofs' hypotheses
    let body_of = |name: &str| fns.iter().find(|f| f.name == name).map(|f| norm(&quote::ToTokens::to_token_stream(f.block).to_string())).unwrap_or_default();
    let connect = body_of("connect_with_layer_neighbors_with_scratch");
    let push_then_origin = match (connect.find("self.level0.push_node("), connect.find("self.dense_to_origin.push(")) {
        (Some(a), Some(b)) => a < b && !connect[a..b].contains("return"),
        _ => false,
    };
    let new_single = body_of("new_single");
    let new_single_ok = new_single.contains("level0.push_node(embedding)") && new_single.contains("dense_to_origin:vec![doc_id]");
    let whole = norm(&quote::ToTokens::to_token_stream(&file).to_string());
    let cut = whole.find("modtests{").unwrap_or(whole.len());
    let prod = &whole[..cut];
    let origin_mutations = prod.matches("dense_to_origin.push(").count() + prod.matches("dense_to_origin.pop(").count() + prod.matches("dense_to_origin.clear(").count()
        + prod.matches("dense_to_origin.truncate(").count() + prod.matches("dense_to_origin.remove(").count() + prod.matches("dense_to_origin.swap_remove(").count() + prod.matches("dense_to_origin.drain(").count();
    let flat_literals = prod.matches("dense_to_origin:").count(); // struct field init sites (+1 for the declaration)
    let len_is_origin = body_of("len"); // ambiguous by name: check FlatGraph::len separately
    let flat_len_ok = fns.iter().any(|f| f.owner == "FlatGraph" && f.name == "len" && norm(&quote::ToTokens::to_token_stream(f.block).to_string()) == "{self.dense_to_origin.len()}");
    let _ = len_is_origin;
    let len_invariant_ok = push_then_origin && new_single_ok && origin_mutations == 1 && flat_literals == 2 && flat_len_ok;

    // dimension guards for the raw kernel calls (the kernel wrappers only debug_assert equal lengths)
    let hn_path = format!("{}/engine/src/hnsw_index.rs", repo);
    set_file(&hn_path);
    let hn = parse_file(&hn_path)?;
    let hn_txt = norm(&quote::ToTokens::to_token_stream(&hn).to_string());
    let q_guard = hn_txt.contains("ifquery.len()!=self.dimension{anyhow::bail!(");
    let q_order = match (hn_txt.find("ifquery.len()!=self.dimension{"), hn_txt.find(".search_with_cancel(")) {
        (Some(a), Some(b)) => a < b,
        _ => false,
    };
    set_file(&path);
    let ins = body_of("insert_into_existing_flat_with_scratch");
    let ins_guard = ins.contains("embedding.len()!=flat.dimension{return;}") && ins.find("embedding.len()!=flat.dimension").unwrap_or(usize::MAX) < ins.find("flat.distance_to(").unwrap_or(0);
    let dist_sites: Vec<(String, usize, String)> = {
        struct D(Vec<(String, usize)>);
        impl<'ast> syn::visit::Visit<'ast> for D {
            fn visit_expr_method_call(&mut self, m: &'ast syn::ExprMethodCall) {
                if m.method == "distance" && ntxt(&m.receiver).ends_with("distance_kernel") {
                    self.0.push((m.args.iter().map(ntxt).collect::<Vec<_>>().join(","), line_of(m)));
                }
                syn::visit::visit_expr_method_call(self, m);
            }
        }
        let mut out = Vec::new();
        for f in &fns {
            let mut d = D(vec![]);
            syn::visit::Visit::visit_block(&mut d, f.block);
            for (a, l) in d.0 {
                out.push((f.name.clone(), l, a));
            }
        }
        out
    };
    let dimension_ok = q_guard && q_order && ins_guard;

    // ---- emit
    let all: Vec<&Site> = sites.iter().chain(entry_sites.iter()).chain(returns_ok.iter()).collect();
    let mut coq = String::new();
    coq.push_str("(* GENERATED by harness/p/xl17 (target guards) from engine/src/ann_backend.rs (+ hnsw_index.rs) — do not edit.\n   One entry per (call of an unsafe fn, argument): which guard in the enclosing function makes the argument valid. *)\n");
    coq.push_str("From Coq Require Import NArith List String Bool.\nImport ListNotations.\nOpen Scope N_scope.\n\n");
    coq.push_str("Inductive guard_kind : Type :=\n  | GNodeCount | GNodeCountPrepared | GEarlyReturn | GLoopBound | GLookahead | GCountOfNode | GHeapProvenance | GCollection\n  | GParam | GEntryClamped | GEntryForwarded | GReturnsGuarded | GNone.\n");
    coq.push_str("Definition is_none (g : guard_kind) : bool := match g with GNone => true | _ => false end.\n");
    coq.push_str("Record site : Type := mk_site { s_fn : string; s_callee : string; s_arg : string; s_line : N; s_guard : guard_kind }.\n\n");
    coq.push_str("Definition sites : list site :=\n  [");
    let mut rows = Vec::new();
    let mut rep_sites = Vec::new();
    let mut none_found = Vec::new();
    for s in &all {
        for (pn, role, kind, why) in &s.args {
            rows.push(format!("mk_site {} {} {} {} {}", coq_str(&s.func), coq_str(&s.callee), coq_str(pn), s.line, kind));
            rep_sites.push(json!({"function": s.func, "unsafe_fn": s.func_unsafe, "callee": s.callee, "line": s.line, "argument": pn, "role": role, "guard": kind, "why": why}));
            if kind == "GNone" {
                none_found.push(format!("{}:{} {} -> {}({}): {}", path, s.line, s.func, s.callee, pn, why));
            }
        }
    }
    coq.push_str(&rows.join(";\n   "));
    coq.push_str("].\n\n");
    coq.push_str("Definition all_sites_guarded : bool := forallb (fun s => negb (is_none (s_guard s))) sites.\n");
    coq.push_str("(* (function, unsafe callee) pairs, for the coverage check against the hand model *)\nDefinition site_pairs : list (string * string) := map (fun s => (s_fn s, s_callee s)) sites.\n\n");
    coq.push_str(&format!("(* FlatGraph::len() is dense_to_origin.len(); level0.push_node precedes the only dense_to_origin.push, no early exit between; the only other\n   construction is new_single (one push_node, vec![doc_id]) — so level0.len() >= FlatGraph::len() >= 1 whenever a search runs *)\nDefinition len_invariant_structure_ok : bool := {}.\n", len_invariant_ok));
    coq.push_str(&format!("(* raw kernel calls get equal-length slices: query.len() == dimension is checked before search_with_cancel (hnsw_index.rs) and\n   embedding.len() == flat.dimension before the first distance_to of an insert; stored vectors all have `dimension` words *)\nDefinition dimension_guards_ok : bool := {}.\n", dimension_ok));
    coq.push_str(&format!("Definition site_count : N := {}.\n", rows.len()));

    let report = json!({
        "ok": none_found.is_empty() && len_invariant_ok && dimension_ok,
        "source": path, "sites": rep_sites, "site_count": rows.len(), "none_found": none_found,
        "unsafe_fns": unsafe_callees.keys().collect::<Vec<_>>(),
        "entry_functions": entry_fns.iter().collect::<Vec<_>>(),
        "len_invariant": {"ok": len_invariant_ok, "push_node_before_origin_push": push_then_origin, "new_single_ok": new_single_ok, "dense_to_origin_mutation_sites": origin_mutations, "flat_len_is_origin_len": flat_len_ok},
        "dimension": {"ok": dimension_ok, "query_guard_in_hnsw_index": q_guard, "query_guard_before_backend_search": q_order, "insert_guard_before_first_distance": ins_guard,
                      "kernel_call_sites": dist_sites.iter().map(|d| json!({"function": d.0, "line": d.1, "args": d.2})).collect::<Vec<_>>()},
        "summary": format!("{} guarded arguments at {} call sites of unsafe fns, {} without a guard", rows.len(), all.len(), none_found.len()),
    });
    Ok(Out { coq, report })
}

fn sig_params(sig: &syn::Signature) -> Vec<(String, String)> {
    let mut v = Vec::new();
    for a in &sig.inputs {
        if let syn::FnArg::Typed(pt) = a {
            v.push((src_of(&pt.pat).replace("mut ", ""), src_of(&pt.ty).replace(' ', "")));
        }
    }
    v
}
