//! Target `simd`: every `unsafe fn` of engine/src/simd.rs -> `accesses_<kernel> (len : N) : list access`
//! (coq/gen/Simd_gen.v), built from the loops, bounds, strides and offset expressions of the source.
use crate::util::*;
use quote::ToTokens;
use serde_json::json;
use std::collections::{BTreeMap, BTreeSet};
use syn::{Expr, Pat, Stmt};

fn load_width(name: &str) -> Option<u64> {
    Some(match name {
        "_mm_loadu_ps" | "_mm_load_ps" | "vld1q_f32" => 4,
        "_mm256_loadu_ps" | "_mm256_load_ps" => 8,
        "_mm512_loadu_ps" | "_mm512_load_ps" => 16,
        "_mm_load_ss" | "_mm_load1_ps" | "_mm_load_ps1" | "_mm256_broadcast_ss" | "_mm_broadcast_ss" | "vld1q_dup_f32" | "vld1_dup_f32" => 1,
        "vld1_f32" => 2,
        _ => return None,
    })
}
fn store_width(name: &str) -> Option<u64> {
    Some(match name {
        "_mm_storeu_ps" | "_mm_store_ps" | "vst1q_f32" => 4,
        "_mm256_storeu_ps" | "_mm256_store_ps" => 8,
        "_mm512_storeu_ps" | "_mm512_store_ps" => 16,
        "_mm_store_ss" => 1,
        "vst1_f32" => 2,
        _ => return None,
    })
}
fn looks_like_memory_intrinsic(name: &str) -> bool {
    let n = name.to_ascii_lowercase();
    let intr = n.starts_with("_mm") || n.starts_with("vld") || n.starts_with("vst");
    intr && ["load", "store", "gather", "scatter", "stream", "lddqu", "maskmov", "prefetch", "vld", "vst", "expandloadu", "compressstoreu", "broadcast_s"]
        .iter()
        .any(|k| n.contains(k))
}

#[derive(Debug, Clone)]
enum Item {
    Let(String, String),
    Acc(String, u64, usize, String), // offset term, width, line, slice name
    Loop { var: String, lo: String, c: String, hi: String, step: u64, body: Vec<Item>, line: usize, form: String },
}

#[derive(Debug, Clone)]
struct LocalAcc {
    array: String,
    alen: u64,
    off: String,
    width: u64,
    line: usize,
}

struct K<'a> {
    name: String,
    slices: BTreeSet<String>,
    has_len_param: bool,
    nums: BTreeMap<String, String>,   // rust numeric variable -> Gallina name
    muts: BTreeSet<String>,           // mutable numeric (index) variables
    arrays: BTreeMap<String, u64>,    // local fixed arrays
    locals: Vec<LocalAcc>,
    lets_top: Vec<(String, String)>,  // top-level lets (for the locals function)
    depth: usize,
    n_loads: usize,
    n_loops: usize,
    _p: std::marker::PhantomData<&'a ()>,
}

struct KEnv<'k, 'a>(&'k K<'a>);
impl<'k, 'a> NumEnv for KEnv<'k, 'a> {
    fn var(&self, name: &str) -> Option<String> {
        self.0.nums.get(name).cloned()
    }
    fn method(&self, recv: &Expr, name: &str, args: &[&Expr]) -> Option<Res<String>> {
        if name == "len" && args.is_empty() {
            if let Some(id) = path_ident(recv) {
                if self.0.slices.contains(&id) {
                    // contract of the *_entry wrappers: `len` IS the common length of the slices
                    return Some(Ok("len".to_string()));
                }
            }
        }
        None
    }
}

impl<'a> K<'a> {
    fn num(&self, e: &Expr) -> Res<String> {
        num(e, &KEnv(self))
    }

    /// pointer expression `X.as_ptr()[.add(E)]` / `X.as_mut_ptr()[.add(E)]` (casts stripped) -> (X, offset)
    fn pointer(&self, e: &Expr) -> Res<(String, String)> {
        let e = strip_casts(e);
        if let Expr::MethodCall(m) = e {
            let name = m.method.to_string();
            if (name == "as_ptr" || name == "as_mut_ptr") && m.args.is_empty() {
                if let Some(x) = path_ident(&m.receiver) {
                    return Ok((x, "0".into()));
                }
            }
            if name == "add" && m.args.len() == 1 {
                let (x, base) = self.pointer(&m.receiver)?;
                let off = self.num(&m.args[0])?;
                return Ok((x, if base == "0" { off } else { format!("({} + {})", base, off) }));
            }
        }
        fail(e, "pointer argument is not of the form SLICE.as_ptr().add(EXPR)")
    }

    fn access(&mut self, at: &Expr, target: String, off: String, width: u64, out: &mut Vec<Item>) -> Res<()> {
        if self.slices.contains(&target) {
            self.n_loads += 1;
            out.push(Item::Acc(off, width, line_of(at), target));
            Ok(())
        } else if let Some(alen) = self.arrays.get(&target).cloned() {
            if self.depth > 0 {
                return fail(at, "access to a local array inside a loop (not expressible in the local-array model)");
            }
            self.locals.push(LocalAcc { array: target, alen, off, width, line: line_of(at) });
            Ok(())
        } else {
            fail(at, "memory access through something that is neither a slice parameter nor a local fixed-size array")
        }
    }

    /// collect the memory accesses of an expression, in evaluation order; fail closed on pointer
    /// arithmetic or memory intrinsics outside the recognised patterns
    fn collect(&mut self, e: &Expr, out: &mut Vec<Item>) -> Res<()> {
        match e {
            Expr::Paren(p) => self.collect(&p.expr, out),
            Expr::Group(g) => self.collect(&g.expr, out),
            Expr::Lit(_) | Expr::Path(_) => Ok(()),
            Expr::Cast(c) => self.collect(&c.expr, out),
            Expr::Reference(r) => self.collect(&r.expr, out),
            Expr::Tuple(t) => {
                for x in &t.elems {
                    self.collect(x, out)?;
                }
                Ok(())
            }
            Expr::Binary(b) => {
                self.collect(&b.left, out)?;
                self.collect(&b.right, out)
            }
            Expr::Unary(u) => {
                if let syn::UnOp::Deref(_) = u.op {
                    let inner = strip_casts(&u.expr);
                    if let Expr::MethodCall(m) = inner {
                        let n = m.method.to_string();
                        if n == "add" || n == "as_ptr" {
                            let (x, off) = self.pointer(inner)?;
                            return self.access(e, x, off, 1, out);
                        }
                        if n == "get_unchecked" && m.args.len() == 1 {
                            if let Some(x) = path_ident(&m.receiver) {
                                let off = self.num(&m.args[0])?;
                                return self.access(e, x, off, 1, out);
                            }
                        }
                    }
                    if path_ident(inner).is_some() {
                        return Ok(()); // deref of a plain reference variable
                    }
                    return fail(e, "dereference of something other than SLICE.as_ptr().add(EXPR) / SLICE.get_unchecked(EXPR)");
                }
                self.collect(&u.expr, out)
            }
            Expr::Index(ix) => {
                let Some(x) = path_ident(&ix.expr) else { return fail(e, "indexing of a non-variable") };
                if let Expr::Range(_) = strip_parens(&ix.index) {
                    return fail(e, "range indexing inside a kernel");
                }
                self.collect(&ix.index, out)?;
                let off = self.num(&ix.index)?;
                self.access(e, x, off, 1, out)
            }
            Expr::Call(c) => {
                let fname = path_string(&c.func).unwrap_or_default();
                let short = fname.rsplit("::").next().unwrap_or("").to_string();
                if let Some(w) = load_width(&short) {
                    if c.args.is_empty() {
                        return fail(e, "load intrinsic without a pointer argument");
                    }
                    let (x, off) = self.pointer(&c.args[0])?;
                    for a in c.args.iter().skip(1) {
                        self.collect(a, out)?;
                    }
                    return self.access(e, x, off, w, out);
                }
                if let Some(w) = store_width(&short) {
                    if c.args.len() != 2 {
                        return fail(e, "store intrinsic with an unexpected argument count");
                    }
                    self.collect(&c.args[1], out)?;
                    let (x, off) = self.pointer(&c.args[0])?;
                    return self.access(e, x, off, w, out);
                }
                if looks_like_memory_intrinsic(&short) {
                    return fail(e, "memory intrinsic the extractor has no width for");
                }
                if fname == "std::slice::from_raw_parts" || short == "from_raw_parts" || short == "from_raw_parts_mut" || short == "transmute" || short == "read_unaligned" || short == "read" {
                    return fail(e, "raw memory operation the extractor cannot express");
                }
                for a in &c.args {
                    self.collect(a, out)?;
                }
                Ok(())
            }
            Expr::MethodCall(m) => {
                let n = m.method.to_string();
                match n.as_str() {
                    "add" | "offset" | "sub" | "byte_add" | "wrapping_add" | "as_ptr" | "as_mut_ptr" | "get_unchecked" | "get_unchecked_mut" | "read" | "read_unaligned"
                    | "write" | "write_unaligned" | "cast" | "align_to" | "as_chunks_unchecked" | "split_at_unchecked" => {
                        fail(e, "pointer arithmetic / unchecked access outside a recognised load, store or dereference")
                    }
                    _ => {
                        self.collect(&m.receiver, out)?;
                        for a in &m.args {
                            self.collect(a, out)?;
                        }
                        Ok(())
                    }
                }
            }
            Expr::Unsafe(u) => {
                // only expression blocks: `unsafe { expr }`
                if u.block.stmts.len() == 1 {
                    if let Stmt::Expr(x, None) = &u.block.stmts[0] {
                        return self.collect(x, out);
                    }
                }
                fail(e, "multi-statement unsafe block in expression position")
            }
            Expr::Repeat(r) => self.collect(&r.expr, out),
            Expr::Array(a) => {
                for x in &a.elems {
                    self.collect(x, out)?;
                }
                Ok(())
            }
            Expr::Field(f) => self.collect(&f.base, out),
            _ => fail(e, "expression form the access extractor does not understand"),
        }
    }

    fn bind_let(&mut self, name: &str, term: String, out: &mut Vec<Item>) {
        let g = coq_ident(name);
        self.nums.insert(name.to_string(), g.clone());
        if self.depth == 0 {
            self.lets_top.push((g.clone(), term.clone()));
        }
        out.push(Item::Let(g, term));
    }

    fn stmts(&mut self, stmts: &[Stmt], out: &mut Vec<Item>) -> Res<()> {
        for st in stmts {
            self.stmt(st, out)?;
        }
        Ok(())
    }

    fn stmt(&mut self, st: &Stmt, out: &mut Vec<Item>) -> Res<()> {
        match st {
            Stmt::Local(l) => {
                let (name, is_mut) = match &l.pat {
                    Pat::Ident(pi) => (pi.ident.to_string(), pi.mutability.is_some()),
                    Pat::Type(pt) => match &*pt.pat {
                        Pat::Ident(pi) => (pi.ident.to_string(), pi.mutability.is_some()),
                        _ => return fail(&l.pat, "let pattern other than a plain variable"),
                    },
                    Pat::Wild(_) => ("_".to_string(), false),
                    _ => return fail(&l.pat, "let pattern other than a plain variable"),
                };
                let Some(init) = &l.init else { return fail(l, "let without initialiser") };
                if init.diverge.is_some() {
                    return fail(l, "let-else inside a kernel");
                }
                let ie = strip_parens(&init.expr);
                // local fixed array `[lit; N]`
                if let Expr::Repeat(r) = ie {
                    if let Some(n) = lit_int(&r.len) {
                        self.arrays.insert(name.clone(), n as u64);
                        self.nums.remove(&name);
                        return Ok(());
                    }
                    return fail(ie, "local array with a non-literal length");
                }
                let before = out.len();
                self.collect(ie, out)?;
                let had_access = out.len() != before;
                // numeric?
                if !had_access {
                    if let Ok(t) = self.num(ie) {
                        self.bind_let(&name, t, out);
                        if is_mut {
                            self.muts.insert(name.clone());
                        } else {
                            self.muts.remove(&name);
                        }
                        return Ok(());
                    }
                }
                // data variable: shadows any numeric binding of that name
                self.nums.remove(&name);
                self.muts.remove(&name);
                self.arrays.remove(&name);
                Ok(())
            }
            Stmt::Expr(e, _) => self.expr_stmt(e, out),
            Stmt::Macro(m) => {
                let n = m.mac.path.segments.last().map(|s| s.ident.to_string()).unwrap_or_default();
                if n.starts_with("debug_assert") || n.starts_with("assert") {
                    Ok(())
                } else {
                    fail(m, "macro inside a kernel")
                }
            }
            Stmt::Item(i) => fail(i, "nested item inside a kernel"),
        }
    }

    fn assigned_vars(stmts: &[Stmt], acc: &mut Vec<(String, usize)>) {
        struct V<'x>(&'x mut Vec<(String, usize)>);
        impl<'x, 'ast> syn::visit::Visit<'ast> for V<'x> {
            fn visit_expr_assign(&mut self, a: &'ast syn::ExprAssign) {
                if let Some(id) = path_ident(&a.left) {
                    self.0.push((id, line_of(a)));
                }
                syn::visit::visit_expr_assign(self, a);
            }
            fn visit_expr_binary(&mut self, b: &'ast syn::ExprBinary) {
                use syn::BinOp::*;
                if matches!(b.op, AddAssign(_) | SubAssign(_) | MulAssign(_) | DivAssign(_) | RemAssign(_) | ShlAssign(_) | ShrAssign(_) | BitAndAssign(_) | BitOrAssign(_) | BitXorAssign(_)) {
                    if let Some(id) = path_ident(&b.left) {
                        self.0.push((id, line_of(b)));
                    }
                }
                syn::visit::visit_expr_binary(self, b);
            }
        }
        let mut v = V(acc);
        for s in stmts {
            syn::visit::visit_stmt(&mut v, s);
        }
    }

    fn expr_stmt(&mut self, e: &Expr, out: &mut Vec<Item>) -> Res<()> {
        match e {
            Expr::ForLoop(f) => self.for_loop(f, out),
            Expr::While(w) => self.while_loop(w, out),
            Expr::Assign(a) => {
                if let Some(id) = path_ident(&a.left) {
                    if self.nums.contains_key(&id) {
                        return fail(e, "re-assignment of a numeric variable used in index arithmetic");
                    }
                    return self.collect(&a.right, out);
                }
                if let Expr::Index(_) = strip_parens(&a.left) {
                    self.collect(&a.right, out)?;
                    return self.collect(&a.left, out);
                }
                fail(e, "assignment to something other than a variable or an indexed element")
            }
            Expr::Binary(b) => {
                use syn::BinOp::*;
                if matches!(b.op, AddAssign(_) | SubAssign(_) | MulAssign(_) | DivAssign(_)) {
                    if let Some(id) = path_ident(&b.left) {
                        if self.nums.contains_key(&id) {
                            return fail(e, "compound assignment to a numeric variable outside the `i += STEP` tail of a while loop");
                        }
                        return self.collect(&b.right, out);
                    }
                    if let Expr::Index(_) = strip_parens(&b.left) {
                        self.collect(&b.right, out)?;
                        return self.collect(&b.left, out);
                    }
                    return fail(e, "compound assignment to something other than a variable");
                }
                self.collect(e, out)
            }
            Expr::Return(r) => {
                if self.depth > 0 {
                    return fail(e, "return inside a loop");
                }
                match &r.expr {
                    Some(x) => self.collect(x, out),
                    None => Ok(()),
                }
            }
            Expr::If(_) | Expr::Match(_) | Expr::Loop(_) | Expr::Block(_) | Expr::Break(_) | Expr::Continue(_) => {
                fail(e, "control flow other than for/while loops inside a kernel")
            }
            _ => self.collect(e, out),
        }
    }

    fn for_loop(&mut self, f: &syn::ExprForLoop, out: &mut Vec<Item>) -> Res<()> {
        self.n_loops += 1;
        let line = line_of(f);
        // the iterated expression
        let mut it = strip_parens(&f.expr);
        let mut step: u64 = 1;
        if let Expr::MethodCall(m) = it {
            if m.method == "step_by" && m.args.len() == 1 {
                match lit_int(&m.args[0]) {
                    Some(s) if s > 0 => step = s as u64,
                    _ => return fail(it, "step_by with a non-literal or zero step"),
                }
                it = strip_parens(&m.receiver);
            }
        }
        if let Expr::Range(r) = it {
            let var = match &*f.pat {
                Pat::Ident(pi) => pi.ident.to_string(),
                Pat::Wild(_) => "_i".to_string(),
                _ => return fail(&f.pat, "loop pattern other than a plain variable"),
            };
            let lo = match &r.start {
                Some(s) => self.num(s)?,
                None => return fail(it, "range without a start"),
            };
            let (hi, c) = match (&r.end, &r.limits) {
                (Some(e), syn::RangeLimits::HalfOpen(_)) => (self.num(e)?, "1".to_string()),
                (Some(e), syn::RangeLimits::Closed(_)) => (self.num(e)?, "0".to_string()),
                (None, _) => return fail(it, "unbounded range"),
            };
            return self.loop_body(&var, lo, c, hi, step, &f.body.stmts, line, src_of(&f.expr), None, out);
        }
        // safe slice iteration: `for &x in v`, `for &x in v.iter()`, `for &x in v.iter().skip(E)`
        if step == 1 {
            let mut recv = it;
            let mut lo = "0".to_string();
            if let Expr::MethodCall(m) = recv {
                if m.method == "skip" && m.args.len() == 1 {
                    lo = self.num(&m.args[0])?;
                    recv = strip_parens(&m.receiver);
                }
            }
            if let Expr::MethodCall(m) = recv {
                if m.method == "iter" && m.args.is_empty() {
                    recv = strip_parens(&m.receiver);
                }
            }
            if let Expr::Reference(r) = recv {
                recv = strip_parens(&r.expr);
            }
            if let Some(x) = path_ident(recv) {
                if self.slices.contains(&x) {
                    // the iterator yields the elements at lo, lo+1, ..., len-1
                    let elem_pat = f.pat.to_token_stream().to_string();
                    let mut body = Vec::new();
                    let saved = (self.nums.clone(), self.muts.clone(), self.arrays.clone());
                    self.depth += 1;
                    body.push(Item::Acc("it_".to_string(), 1, line, x.clone()));
                    self.n_loads += 1;
                    // the element variable is data
                    for tok in elem_pat.split(|ch: char| !ch.is_alphanumeric() && ch != '_') {
                        self.nums.remove(tok);
                    }
                    let r = self.stmts(&f.body.stmts, &mut body);
                    self.depth -= 1;
                    self.nums = saved.0;
                    self.muts = saved.1;
                    self.arrays = saved.2;
                    r?;
                    out.push(Item::Loop { var: "it_".into(), lo, c: "1".into(), hi: "len".into(), step: 1, body, line, form: format!("safe iterator {}", src_of(&f.expr)) });
                    return Ok(());
                }
            }
        }
        fail(&f.expr, "for loop over something other than a range (optionally .step_by(LIT)) or a slice iterator")
    }

    #[allow(clippy::too_many_arguments)]
    fn loop_body(&mut self, var: &str, lo: String, c: String, hi: String, step: u64, body_stmts: &[Stmt], line: usize, form: String, skip_last: Option<usize>, out: &mut Vec<Item>) -> Res<()> {
        // no numeric variable bound outside may be assigned inside the body
        let mut asg = Vec::new();
        let considered: Vec<Stmt> = match skip_last {
            Some(n) => body_stmts[..n].to_vec(),
            None => body_stmts.to_vec(),
        };
        Self::assigned_vars(&considered, &mut asg);
        for (v, l) in &asg {
            if self.nums.contains_key(v) || v == var {
                return fail_at(*l, v, "numeric variable of the index arithmetic is assigned inside a loop body");
            }
        }
        let saved = (self.nums.clone(), self.muts.clone(), self.arrays.clone());
        let gvar = coq_ident(var);
        self.nums.insert(var.to_string(), gvar.clone());
        self.muts.remove(var);
        self.depth += 1;
        let mut body = Vec::new();
        let r = self.stmts(&considered, &mut body);
        self.depth -= 1;
        self.nums = saved.0;
        self.muts = saved.1;
        self.arrays = saved.2;
        r?;
        out.push(Item::Loop { var: gvar, lo, c, hi, step, body, line, form });
        Ok(())
    }

    fn while_loop(&mut self, w: &syn::ExprWhile, out: &mut Vec<Item>) -> Res<()> {
        self.n_loops += 1;
        let line = line_of(w);
        let cond = strip_parens(&w.cond);
        let Expr::Binary(b) = cond else { return fail(cond, "while condition is not a comparison `i + C <= BOUND` / `i < BOUND`") };
        let strict = match b.op {
            syn::BinOp::Le(_) => false,
            syn::BinOp::Lt(_) => true,
            _ => return fail(cond, "while condition is not `<=` or `<`"),
        };
        // left side: i  or  i + C
        let (var, cterm) = {
            let l = strip_parens(&b.left);
            if let Some(id) = path_ident(l) {
                (id, "0".to_string())
            } else if let Expr::Binary(lb) = l {
                match (&lb.op, path_ident(&lb.left)) {
                    (syn::BinOp::Add(_), Some(id)) => {
                        let saved = self.nums.remove(&id);
                        let c = self.num(&lb.right);
                        if let Some(s) = saved {
                            self.nums.insert(id.clone(), s);
                        }
                        (id, c?)
                    }
                    _ => return fail(l, "left side of the while condition is not `i` or `i + EXPR`"),
                }
            } else {
                return fail(l, "left side of the while condition is not `i` or `i + EXPR`");
            }
        };
        if !self.muts.contains(&var) || !self.nums.contains_key(&var) {
            return fail(cond, "while loop over a variable that is not a `let mut` numeric index");
        }
        // bound must not mention the index
        let saved = self.nums.remove(&var);
        let hi = self.num(&b.right);
        self.nums.insert(var.clone(), saved.unwrap());
        let hi = match hi {
            Ok(h) => h,
            Err(mut e) => {
                e.msg = format!("{} (the loop bound must not depend on the loop index)", e.msg);
                return Err(e);
            }
        };
        let c = if strict { format!("({} + 1)", cterm) } else { cterm };
        // last statement: i += STEP
        let stmts = &w.body.stmts;
        let Some(last) = stmts.last() else { return fail(w, "empty while body") };
        let step = match last {
            Stmt::Expr(Expr::Binary(lb), _) if matches!(lb.op, syn::BinOp::AddAssign(_)) && path_ident(&lb.left).as_deref() == Some(var.as_str()) => match lit_int(&lb.right) {
                Some(s) if s > 0 => s as u64,
                _ => return fail(last, "index increment is not a positive literal"),
            },
            _ => return fail(last, "the last statement of the while body is not `i += LITERAL`"),
        };
        let lo = self.nums.get(&var).cloned().unwrap();
        self.loop_body(&var, lo.clone(), c.clone(), hi.clone(), step, stmts, line, format!("while {}", src_of(&w.cond)), Some(stmts.len() - 1), out)?;
        // the index variable after the loop
        let g = coq_ident(&var);
        let term = format!("strided_end {} {} {} {}%positive", lo, c, hi, step);
        if self.depth == 0 {
            self.lets_top.push((g.clone(), term.clone()));
        }
        out.push(Item::Let(g, term));
        Ok(())
    }
}

fn render(items: &[Item], ind: usize) -> String {
    let pad = " ".repeat(ind);
    if items.is_empty() {
        return "[]".to_string();
    }
    match &items[0] {
        Item::Let(n, t) => format!("(let {} := {} in\n{}{})", n, t, pad, render(&items[1..], ind)),
        Item::Acc(..) => {
            let mut k = 0;
            let mut parts = Vec::new();
            while k < items.len() {
                if let Item::Acc(o, w, _, _) = &items[k] {
                    parts.push(format!("({}, {})", o, w));
                    k += 1;
                } else {
                    break;
                }
            }
            let lit = format!("[{}]", parts.join("; "));
            if k == items.len() { lit } else { format!("({} ++\n{}{})", lit, pad, render(&items[k..], ind)) }
        }
        Item::Loop { var, lo, c, hi, step, body, line, form } => {
            let b = render(body, ind + 4);
            let l = format!("(* line {}: {} *)\n{}strided {} {} {} {}%positive (fun {} =>\n{}    {})", line, coq_comment(form), pad, lo, c, hi, step, var, pad, b);
            if items.len() == 1 { l } else { format!("({} ++\n{}{})", l, pad, render(&items[1..], ind)) }
        }
    }
}

fn items_json(items: &[Item]) -> serde_json::Value {
    serde_json::Value::Array(
        items
            .iter()
            .map(|it| match it {
                Item::Let(n, t) => json!({"let": n, "term": t}),
                Item::Acc(o, w, l, s) => json!({"access": s, "offset": o, "width": w, "line": l}),
                Item::Loop { var, lo, c, hi, step, body, line, form } => json!({"loop": form, "var": var, "lo": lo, "c": c, "hi": hi, "step": step, "line": line, "body": items_json(body)}),
            })
            .collect(),
    )
}

pub struct Out {
    pub coq: String,
    pub report: serde_json::Value,
}

fn target_features(attrs: &[syn::Attribute]) -> Vec<String> {
    let mut v = Vec::new();
    for a in attrs {
        if a.path().is_ident("target_feature") {
            let s = a.to_token_stream().to_string();
            if let Some(i) = s.find('"') {
                if let Some(j) = s[i + 1..].find('"') {
                    for f in s[i + 1..i + 1 + j].split(',') {
                        v.push(f.trim().to_string());
                    }
                }
            }
        }
    }
    v
}

pub fn run(repo: &str) -> Res<Out> {
    let path = format!("{}/engine/src/simd.rs", repo);
    set_file(&path);
    let file = parse_file(&path)?;
    let mut defs = String::new();
    let mut names: Vec<String> = Vec::new();
    let mut rep_kernels = Vec::new();
    let mut unsafe_fns_seen = 0usize;
    let mut total_accesses = 0usize;
    // every unsafe fn at any module level outside #[cfg(test)]
    fn all_fns<'f>(items: &'f [syn::Item], acc: &mut Vec<&'f syn::ItemFn>) -> Res<()> {
        for it in items {
            match it {
                syn::Item::Fn(f) => acc.push(f),
                syn::Item::Mod(m) => {
                    if has_attr_cfg(&m.attrs, "test") {
                        continue;
                    }
                    if let Some((_, items)) = &m.content {
                        all_fns(items, acc)?;
                    }
                }
                syn::Item::Impl(i) => {
                    for ii in &i.items {
                        if let syn::ImplItem::Fn(f) = ii {
                            if f.sig.unsafety.is_some() {
                                return fail(&f.sig, "unsafe method inside an impl block of simd.rs (not translated)");
                            }
                        }
                    }
                }
                syn::Item::Macro(m) => {
                    let n = m.mac.path.segments.last().map(|s| s.ident.to_string()).unwrap_or_default();
                    if n != "thread_local" {
                        return fail(m, "item-position macro in simd.rs may expand to code the extractor cannot see");
                    }
                }
                _ => {}
            }
        }
        Ok(())
    }
    let mut fns = Vec::new();
    all_fns(&file.items, &mut fns)?;
    // safe functions must not contain raw-pointer work of their own except calling kernels
    let kernel_names: BTreeSet<String> = fns.iter().filter(|f| f.sig.unsafety.is_some()).map(|f| f.sig.ident.to_string()).collect();
    let mut entries: BTreeMap<String, serde_json::Value> = BTreeMap::new();
    let mut entry_of_kernel: BTreeMap<String, Vec<String>> = BTreeMap::new();
    for f in &fns {
        if f.sig.unsafety.is_some() {
            continue;
        }
        // scan for unsafe blocks
        struct U<'x> {
            kernels: &'x BTreeSet<String>,
            bad: Option<(usize, String)>,
            calls: Vec<(String, Vec<String>, usize)>,
            in_unsafe: usize,
        }
        impl<'x, 'ast> syn::visit::Visit<'ast> for U<'x> {
            fn visit_expr_unsafe(&mut self, u: &'ast syn::ExprUnsafe) {
                self.in_unsafe += 1;
                // allowed content: exactly one call of a kernel
                let ok = u.block.stmts.len() == 1
                    && match &u.block.stmts[0] {
                        Stmt::Expr(Expr::Call(c), None) => match path_ident(&c.func) {
                            Some(n) if self.kernels.contains(&n) => {
                                self.calls.push((n, c.args.iter().map(src_of).collect(), line_of(c)));
                                true
                            }
                            _ => false,
                        },
                        _ => false,
                    };
                if !ok && self.bad.is_none() {
                    self.bad = Some((line_of(u), src_of(u)));
                }
                self.in_unsafe -= 1;
            }
        }
        let mut u = U { kernels: &kernel_names, bad: None, calls: vec![], in_unsafe: 0 };
        syn::visit::visit_block(&mut u, &f.block);
        if let Some((l, s)) = u.bad {
            return fail_at(l, &s, "unsafe block in a safe function of simd.rs that is not a single call of a translated kernel");
        }
        let fname = f.sig.ident.to_string();
        for (k, args, line) in u.calls {
            // the `len` argument must be SLICE.len() of one of the slice arguments
            let kf = fns.iter().find(|x| x.sig.ident == k.as_str()).unwrap();
            let mut len_pos = None;
            let mut slice_pos = Vec::new();
            for (i, a) in kf.sig.inputs.iter().enumerate() {
                if let syn::FnArg::Typed(pt) = a {
                    let ty = src_of(&pt.ty);
                    let pn = src_of(&pt.pat);
                    if pn == "len" {
                        len_pos = Some(i);
                    }
                    if ty.replace(' ', "") == "&[f32]" {
                        slice_pos.push(i);
                    }
                }
            }
            let mut len_arg = serde_json::Value::Null;
            if let Some(lp) = len_pos {
                let given = args.get(lp).cloned().unwrap_or_default();
                let ok = slice_pos.iter().any(|sp| args.get(*sp).map(|s| format!("{}.len()", s)) == Some(given.clone()));
                if !ok {
                    return fail_at(line, &format!("{}({})", k, args.join(", ")), "the kernel's `len` argument is not `.len()` of one of its slice arguments");
                }
                len_arg = json!(given);
            }
            let body_txt = f.block.to_token_stream().to_string().replace(' ', "");
            let eq_check = if body_txt.contains("debug_assert_eq!(a.len(),b.len())") {
                "debug_assert_eq (absent in release builds: equal lengths are the CALLERS' obligation)"
            } else if body_txt.contains("assert_eq!(a.len(),b.len()") {
                "assert_eq"
            } else if slice_pos.len() < 2 {
                "n/a (one slice)"
            } else {
                return fail_at(line, &fname, "binary kernel wrapper without any length-equality assertion");
            };
            entries.insert(fname.clone(), json!({"calls": k, "len_arg": len_arg, "equal_length_check": eq_check, "line": line}));
            entry_of_kernel.entry(k).or_default().push(fname.clone());
        }
    }

    for f in &fns {
        if f.sig.unsafety.is_none() {
            continue;
        }
        unsafe_fns_seen += 1;
        let name = f.sig.ident.to_string();
        let mut k = K {
            name: name.clone(),
            slices: BTreeSet::new(),
            has_len_param: false,
            nums: BTreeMap::new(),
            muts: BTreeSet::new(),
            arrays: BTreeMap::new(),
            locals: vec![],
            lets_top: vec![],
            depth: 0,
            n_loads: 0,
            n_loops: 0,
            _p: std::marker::PhantomData,
        };
        for a in &f.sig.inputs {
            match a {
                syn::FnArg::Typed(pt) => {
                    let ty = src_of(&pt.ty).replace(' ', "");
                    let pn = src_of(&pt.pat);
                    if ty == "&[f32]" {
                        k.slices.insert(pn);
                    } else if ty == "usize" && pn == "len" {
                        k.has_len_param = true;
                        k.nums.insert("len".into(), "len".into());
                    } else if ty.starts_with('&') || ty.starts_with('*') || ty.contains('[') {
                        return fail(a, "kernel parameter is a pointer/reference/slice type the extractor does not model");
                    }
                    // other by-value parameters (vector registers) carry no memory
                }
                syn::FnArg::Receiver(_) => return fail(a, "unsafe method with a receiver"),
            }
        }
        if k.slices.len() > 1 && !k.has_len_param {
            return fail(&f.sig, "kernel over several slices without an explicit `len` parameter");
        }
        let mut items = Vec::new();
        k.stmts(&f.block.stmts, &mut items)?;
        let acc_count = k.n_loads;
        total_accesses += acc_count + k.locals.len();
        let body = render(&items, 2);
        defs.push_str(&format!(
            "(* {}:{}  unsafe fn {}  [{}]  target_feature {:?} *)\nDefinition accesses_{} (len : N) : list access :=\n  {}.\n\n",
            path,
            line_of(&f.sig),
            name,
            cfg_text(&f.attrs).join(" "),
            target_features(&f.attrs),
            name,
            body
        ));
        // local arrays (vector stores into fixed-size temporaries)
        let mut ls = String::new();
        for (n, t) in &k.lets_top {
            ls.push_str(&format!("  let {} := {} in\n", n, t));
        }
        let lits: Vec<String> = k.locals.iter().map(|l| format!("({}, {}, {})", l.alen, l.off, l.width)).collect();
        defs.push_str(&format!("Definition locals_{} (len : N) : list local_store :=\n{}  [{}].\n\n", name, ls, lits.join("; ")));
        names.push(name.clone());
        rep_kernels.push(json!({
            "name": name, "line": line_of(&f.sig), "cfg": cfg_text(&f.attrs), "target_features": target_features(&f.attrs),
            "slices": k.slices.iter().collect::<Vec<_>>(), "len_param": k.has_len_param,
            "slice_accesses": acc_count, "loops": k.n_loops,
            "local_array_accesses": k.locals.iter().map(|l| json!({"array": l.array, "len": l.alen, "offset": l.off, "width": l.width, "line": l.line})).collect::<Vec<_>>(),
            "entries": entry_of_kernel.get(&name).cloned().unwrap_or_default(),
            "structure": items_json(&items),
        }));
        let _ = &k.name;
    }
    if names.len() != unsafe_fns_seen {
        return fail_at(0, "simd.rs", "an unsafe fn was not translated");
    }

    // dispatch: every kernel table returned by detect_best_f32_kernels is guarded by the detection of every
    // target feature its kernels are compiled with
    let mut dispatch = Vec::new();
    let feat_of_kernel: BTreeMap<String, Vec<String>> = fns.iter().filter(|f| f.sig.unsafety.is_some()).map(|f| (f.sig.ident.to_string(), target_features(&f.attrs))).collect();
    let mut entry_to_kernel: BTreeMap<String, String> = BTreeMap::new();
    for (k, es) in &entry_of_kernel {
        for e in es {
            entry_to_kernel.insert(e.clone(), k.clone());
        }
    }
    if let Some(det) = fns.iter().find(|f| f.sig.ident == "detect_best_f32_kernels") {
        for st in &det.block.stmts {
            let (cond_txt, body_txt, line) = match st {
                Stmt::Expr(Expr::If(i), _) => (i.cond.to_token_stream().to_string(), i.then_branch.to_token_stream().to_string(), line_of(i)),
                Stmt::Expr(e, _) => (String::new(), e.to_token_stream().to_string(), line_of(e)),
                _ => continue,
            };
            let detected: BTreeSet<String> = {
                let mut s = BTreeSet::new();
                let t = cond_txt.replace(' ', "");
                let mut rest = t.as_str();
                while let Some(i) = rest.find("feature_detected!(\"") {
                    let r = &rest[i + "feature_detected!(\"".len()..];
                    if let Some(j) = r.find('"') {
                        s.insert(r[..j].to_string());
                        rest = &r[j..];
                    } else {
                        break;
                    }
                }
                s
            };
            let mut used = Vec::new();
            for tok in body_txt.split(|c: char| !c.is_alphanumeric() && c != '_') {
                if let Some(k) = entry_to_kernel.get(tok) {
                    used.push((tok.to_string(), k.clone()));
                }
            }
            if used.is_empty() {
                continue;
            }
            let mut missing = BTreeSet::new();
            for (_, k) in &used {
                for ft in feat_of_kernel.get(k).cloned().unwrap_or_default() {
                    if !detected.contains(&ft) {
                        missing.insert(ft);
                    }
                }
            }
            dispatch.push(json!({"line": line, "detected": detected.iter().collect::<Vec<_>>(), "entries": used.iter().map(|u| u.0.clone()).collect::<Vec<_>>(),
                                 "missing_features": missing.iter().collect::<Vec<_>>(), "ok": missing.is_empty()}));
        }
    } else {
        return fail_at(0, "detect_best_f32_kernels", "dispatch function not found");
    }
    // every entry wrapper of a feature-gated kernel must be referenced only from the dispatch function
    let dispatch_ok = dispatch.iter().all(|d| d["ok"] == json!(true));

    let mut coq = String::new();
    coq.push_str("(* GENERATED by harness/p/xl17 (target simd) from engine/src/simd.rs — do not edit; rewritten on every run.\n");
    coq.push_str("   accesses_<k> len = the (offset, width) pairs, in f32 lanes, of every load / element read the kernel performs on\n");
    coq.push_str("   its slice arguments when called with `len`; locals_<k> = vector stores into fixed-size local arrays. *)\n");
    coq.push_str("From Coq Require Import NArith List String.\nFrom Kyro Require Import Model.Strided.\nImport ListNotations.\nOpen Scope N_scope.\n\n");
    coq.push_str(&defs);
    coq.push_str("Definition kernel : Type := (string * (N -> list access))%type.\nDefinition accesses (k : kernel) : N -> list access := snd k.\n");
    coq.push_str("Definition kernels : list kernel :=\n  [");
    coq.push_str(&names.iter().map(|n| format!("(\"{}\"%string, accesses_{})", n, n)).collect::<Vec<_>>().join(";\n   "));
    coq.push_str("].\n\nDefinition local_stores : list (string * (N -> list local_store)) :=\n  [");
    coq.push_str(&names.iter().map(|n| format!("(\"{}\"%string, locals_{})", n, n)).collect::<Vec<_>>().join(";\n   "));
    coq.push_str("].\n\n");
    coq.push_str(&format!("Definition kernel_count : N := {}.\n", names.len()));
    coq.push_str(&format!("Definition dispatch_features_ok : bool := {}.\n", if dispatch_ok { "true" } else { "false" }));

    let report = json!({
        "ok": dispatch_ok, "summary": format!("{} unsafe kernels, {} access sites, dispatch feature checks {}", names.len(), total_accesses, if dispatch_ok { "ok" } else { "FAILED" }),
        "source": path, "kernels": rep_kernels, "kernel_count": names.len(), "unsafe_fns_in_file": unsafe_fns_seen,
        "accesses_total": total_accesses, "entries": entries, "dispatch": dispatch, "dispatch_ok": dispatch_ok,
    });
    Ok(Out { coq, report })
}
