//! xl17 <simd|packed|guards|all> [--repo /repo] [--out /verif/coq/gen] [--report-dir /verif/.cache/gen]
//! C17 translator: engine/src/simd.rs -> Simd_gen.v, engine/src/ann_backend.rs -> Packed_gen.v + Guards_gen.v.
//! Exit status: 0 ok, 2 some target FAILED CLOSED (message names construct and line), 1 usage/io.
mod tguards;
mod tpacked;
mod tsimd;
mod util;
use util::*;

fn main() {
    let args: Vec<String> = std::env::args().collect();
    let mut target = String::from("all");
    let mut repo = String::from("/repo");
    let mut out = String::from("/verif/coq/gen");
    let mut report_dir = String::from("/verif/.cache/gen");
    let mut i = 1;
    while i < args.len() {
        match args[i].as_str() {
            "--repo" => { repo = args[i + 1].clone(); i += 1 }
            "--out" => { out = args[i + 1].clone(); i += 1 }
            "--report-dir" => { report_dir = args[i + 1].clone(); i += 1 }
            t if !t.starts_with("--") => target = t.to_string(),
            other => { eprintln!("xl17: unknown option {}", other); std::process::exit(1) }
        }
        i += 1;
    }
    let _ = std::fs::create_dir_all(&report_dir);
    let _ = std::fs::create_dir_all(&out);
    let targets: Vec<&str> = if target == "all" { vec!["simd", "packed", "guards"] } else { vec![target.as_str()] };
    let mut rc = 0;
    for t in targets {
        let (file, res): (&str, Res<(String, serde_json::Value)>) = match t {
            "simd" => ("Simd_gen", tsimd::run(&repo).map(|o| (o.coq, o.report))),
            "packed" => ("Packed_gen", tpacked::run(&repo).map(|o| (o.coq, o.report))),
            "guards" => ("Guards_gen", tguards::run(&repo).map(|o| (o.coq, o.report))),
            other => { eprintln!("xl17: unknown target {}", other); std::process::exit(1) }
        };
        let report_path = format!("{}/{}.json", report_dir, file);
        match res {
            Ok((coq, report)) => {
                let changed = match write_if_changed(&format!("{}/{}.v", out, file), &coq) {
                    Ok(c) => c,
                    Err(e) => { eprintln!("xl17: cannot write {}.v: {}", file, e); std::process::exit(1) }
                };
                let _ = std::fs::write(&report_path, serde_json::to_string_pretty(&report).unwrap());
                if report["ok"] == serde_json::json!(false) {
                    eprintln!("xl17: {} FAILED CLOSED: {} ({}.v written so that the Coq side fails too)", t, report["summary"].as_str().unwrap_or(""), file);
                    if let Some(a) = report["none_found"].as_array() {
                        for x in a { eprintln!("  no guard found: {}", x.as_str().unwrap_or("")); }
                    }
                    if report["len_invariant"]["ok"] == serde_json::json!(false) { eprintln!("  length-invariant structure check failed: {}", report["len_invariant"]); }
                    if report["dimension"]["ok"] == serde_json::json!(false) { eprintln!("  dimension-guard structure check failed: {}", report["dimension"]); }
                    if report["dispatch_ok"] == serde_json::json!(false) { eprintln!("  CPU-feature dispatch check failed: {}", report["dispatch"]); }
                    rc = 2;
                } else {
                    println!("xl17: {} ok: {} ({}.v {})", t, report["summary"].as_str().unwrap_or(""), file, if changed { "rewritten" } else { "unchanged" });
                }
            }
            Err(e) => {
                let _ = std::fs::write(&report_path, serde_json::to_string_pretty(&err_json(&e)).unwrap());
                eprintln!("{}", err_text(t, &e));
                rc = 2;
            }
        }
    }
    std::process::exit(rc);
}
