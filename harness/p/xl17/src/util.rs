//! Shared helpers: fail-closed errors with source lines, numeric expression translation (Rust usize
//! arithmetic -> Gallina N), identifier hygiene.
use proc_macro2::Span;
use quote::ToTokens;
use std::collections::BTreeMap;
use syn::spanned::Spanned;
use syn::{BinOp, Expr, Lit, UnOp};

#[derive(Debug, Clone)]
pub struct TrError {
    pub file: String,
    pub line: usize,
    pub construct: String,
    pub msg: String,
}
pub type Res<T> = Result<T, TrError>;

thread_local! { pub static CUR_FILE: std::cell::RefCell<String> = std::cell::RefCell::new(String::new()); }

pub fn set_file(f: &str) {
    CUR_FILE.with(|c| *c.borrow_mut() = f.to_string());
}
pub fn cur_file() -> String {
    CUR_FILE.with(|c| c.borrow().clone())
}

pub fn src_of<T: ToTokens>(t: &T) -> String {
    let s = t.to_token_stream().to_string();
    let s = s.replace(" . ", ".").replace(" (", "(").replace("( ", "(").replace(" )", ")").replace(" ,", ",").replace(" ;", ";")
        .replace("& ", "&").replace(" [", "[").replace("[ ", "[").replace(" ]", "]").replace(" :: ", "::").replace(" !", "!").replace(" ?", "?");
    if s.len() > 160 { format!("{}…", s.chars().take(160).collect::<String>()) } else { s }
}
pub fn line_of<T: Spanned>(t: &T) -> usize {
    t.span().start().line
}
pub fn line_of_span(s: Span) -> usize {
    s.start().line
}
pub fn fail<T, S: Spanned + ToTokens>(at: &S, msg: &str) -> Res<T> {
    Err(TrError { file: cur_file(), line: line_of(at), construct: src_of(at), msg: msg.to_string() })
}
pub fn fail_at<T>(line: usize, construct: &str, msg: &str) -> Res<T> {
    Err(TrError { file: cur_file(), line, construct: construct.to_string(), msg: msg.to_string() })
}
pub fn err_json(e: &TrError) -> serde_json::Value {
    serde_json::json!({"ok": false, "file": e.file, "line": e.line, "construct": e.construct, "message": e.msg})
}
pub fn err_text(target: &str, e: &TrError) -> String {
    format!("xl17: {} FAILED CLOSED at {}:{}: {} — construct `{}`", target, e.file, e.line, e.msg, e.construct)
}

pub fn write_if_changed(path: &str, text: &str) -> std::io::Result<bool> {
    if let Ok(old) = std::fs::read_to_string(path) {
        if old == text {
            return Ok(false);
        }
    }
    if let Some(p) = std::path::Path::new(path).parent() {
        std::fs::create_dir_all(p)?;
    }
    std::fs::write(path, text)?;
    Ok(true)
}

pub fn parse_file(path: &str) -> Res<syn::File> {
    let src = std::fs::read_to_string(path)
        .map_err(|e| TrError { file: path.to_string(), line: 0, construct: String::new(), msg: format!("cannot read: {}", e) })?;
    syn::parse_file(&src).map_err(|e| TrError { file: path.to_string(), line: e.span().start().line, construct: String::new(), msg: format!("cannot parse: {}", e) })
}

const COQ_KEYWORDS: &[&str] = &[
    "in", "end", "at", "as", "fun", "let", "if", "then", "else", "match", "with", "return", "fix", "cofix", "forall", "exists", "Type",
    "Prop", "Set", "using", "where", "for", "mod", "nd", "rd", "s", "fst", "snd", "length", "app", "pair", "Some", "None", "true", "false",
];
pub fn coq_ident(s: &str) -> String {
    let s = s.trim_start_matches("r#");
    if COQ_KEYWORDS.contains(&s) { format!("{}_", s) } else { s.to_string() }
}
pub fn coq_comment(s: &str) -> String {
    s.replace("(*", "( *").replace("*)", "* )")
}

pub fn strip_parens(e: &Expr) -> &Expr {
    match e {
        Expr::Paren(p) => strip_parens(&p.expr),
        Expr::Group(g) => strip_parens(&g.expr),
        _ => e,
    }
}
/// strip parens, `as T` casts and `unsafe { e }` / `{ e }` single-expression blocks
pub fn strip_casts(e: &Expr) -> &Expr {
    match e {
        Expr::Paren(p) => strip_casts(&p.expr),
        Expr::Group(g) => strip_casts(&g.expr),
        Expr::Cast(c) => strip_casts(&c.expr),
        Expr::Unsafe(u) if u.block.stmts.len() == 1 => match &u.block.stmts[0] {
            syn::Stmt::Expr(e, None) => strip_casts(e),
            _ => e,
        },
        _ => e,
    }
}
pub fn path_ident(e: &Expr) -> Option<String> {
    if let Expr::Path(p) = strip_parens(e) {
        if p.qself.is_none() && p.path.segments.len() == 1 {
            return Some(p.path.segments[0].ident.to_string());
        }
    }
    None
}
pub fn path_string(e: &Expr) -> Option<String> {
    if let Expr::Path(p) = strip_parens(e) {
        return Some(p.path.segments.iter().map(|s| s.ident.to_string()).collect::<Vec<_>>().join("::"));
    }
    None
}
pub fn lit_int(e: &Expr) -> Option<u128> {
    if let Expr::Lit(l) = strip_parens(e) {
        if let Lit::Int(i) = &l.lit {
            return i.base10_parse::<u128>().ok();
        }
    }
    None
}

/// How the numeric translator resolves names.
pub trait NumEnv {
    /// a bound numeric variable -> Gallina term
    fn var(&self, name: &str) -> Option<String>;
    /// `recv.len()` and other method calls the environment understands (receiver given as expression)
    fn method(&self, _recv: &Expr, _name: &str, _args: &[&Expr]) -> Option<Res<String>> {
        None
    }
    /// `self.field` / other field expressions
    fn field(&self, _e: &syn::ExprField) -> Option<Res<String>> {
        None
    }
    /// multi-segment paths and constants (`u16::MAX`, `INVALID_DENSE_ID`)
    fn constant(&self, _path: &str) -> Option<String> {
        None
    }
    /// consulted first on every sub-expression (memory reads, sibling calls, ... of the richer targets)
    fn special(&self, _e: &Expr) -> Option<Res<String>> {
        None
    }
}

/// Rust usize/u32/u64 arithmetic -> Gallina N.  Fails closed on everything outside the subset.
/// Additions and multiplications are unbounded in the model (every offset is then PROVED <= the
/// array length, so no modelled offset computation can have overflowed); subtraction is wrapping.
pub fn num(e: &Expr, env: &dyn NumEnv) -> Res<String> {
    let e = strip_parens(e);
    if let Some(r) = env.special(e) {
        return r;
    }
    match e {
        Expr::Lit(_) => match lit_int(e) {
            Some(v) => Ok(format!("{}", v)),
            None => fail(e, "non-integer literal in an index expression"),
        },
        Expr::Path(_) => {
            if let Some(id) = path_ident(e) {
                if let Some(v) = env.var(&id) {
                    return Ok(v);
                }
            }
            let p = path_string(e).unwrap_or_default();
            if let Some(v) = env.constant(&p) {
                return Ok(v);
            }
            match p.as_str() {
                "usize::MAX" | "u64::MAX" => Ok("18446744073709551615".into()),
                "u32::MAX" => Ok("4294967295".into()),
                "u16::MAX" => Ok("65535".into()),
                _ => fail(e, "name is not a numeric variable bound earlier (or a known constant)"),
            }
        }
        Expr::Cast(c) => {
            let inner = num(&c.expr, env)?;
            let ty = src_of(&c.ty);
            match ty.as_str() {
                "usize" | "u64" | "u128" => Ok(inner),
                "u32" => Ok(format!("(as_u32 {})", inner)),
                "u16" => Ok(format!("(as_u16 {})", inner)),
                _ => fail(e, "cast to a type the index model does not cover"),
            }
        }
        Expr::Binary(b) => {
            let l = num(&b.left, env)?;
            let r = num(&b.right, env)?;
            match b.op {
                BinOp::Add(_) => Ok(format!("({} + {})", l, r)),
                BinOp::Mul(_) => Ok(format!("({} * {})", l, r)),
                BinOp::Div(_) => Ok(format!("({} / {})", l, r)),
                BinOp::Rem(_) => Ok(format!("({} mod {})", l, r)),
                BinOp::Sub(_) => Ok(format!("(wsub {} {})", l, r)),
                BinOp::Shr(_) => Ok(format!("(N.shiftr {} {})", l, r)),
                BinOp::Shl(_) => Ok(format!("(N.shiftl {} {})", l, r)),
                BinOp::BitAnd(_) => Ok(format!("(N.land {} {})", l, r)),
                _ => fail(e, "operator outside the index-arithmetic subset"),
            }
        }
        Expr::Field(f) => match env.field(f) {
            Some(r) => r,
            None => fail(e, "field access the index model does not know"),
        },
        Expr::MethodCall(m) => {
            let args: Vec<&Expr> = m.args.iter().collect();
            let name = m.method.to_string();
            if let Some(r) = env.method(&m.receiver, &name, &args) {
                return r;
            }
            let recv = || num(&m.receiver, env);
            let a0 = || -> Res<String> {
                match args.first() {
                    Some(a) => num(a, env),
                    None => fail(e, "missing argument"),
                }
            };
            match (name.as_str(), args.len()) {
                ("max", 1) => Ok(format!("(N.max {} {})", recv()?, a0()?)),
                ("min", 1) => Ok(format!("(N.min {} {})", recv()?, a0()?)),
                ("div_ceil", 1) => Ok(format!("(div_ceil {} {})", recv()?, a0()?)),
                ("saturating_mul", 1) => Ok(format!("(sat_mul {} {})", recv()?, a0()?)),
                ("saturating_add", 1) => Ok(format!("(sat_add {} {})", recv()?, a0()?)),
                ("saturating_sub", 1) => Ok(format!("({} - {})", recv()?, a0()?)),
                ("wrapping_sub", 1) => Ok(format!("(wsub {} {})", recv()?, a0()?)),
                _ => fail(e, "method call outside the index-arithmetic subset"),
            }
        }
        Expr::Unary(u) if matches!(u.op, UnOp::Deref(_)) => fail(e, "dereference inside an index expression"),
        _ => fail(e, "expression form outside the index-arithmetic subset"),
    }
}

/// comparison `a OP b` -> Gallina bool
pub fn cmp(e: &Expr, env: &dyn NumEnv) -> Res<String> {
    let e = strip_parens(e);
    match e {
        Expr::Binary(b) => {
            match b.op {
                BinOp::And(_) => return Ok(format!("({} && {})", cmp(&b.left, env)?, cmp(&b.right, env)?)),
                BinOp::Or(_) => return Ok(format!("({} || {})", cmp(&b.left, env)?, cmp(&b.right, env)?)),
                _ => {}
            }
            let l = num(&b.left, env)?;
            let r = num(&b.right, env)?;
            match b.op {
                BinOp::Lt(_) => Ok(format!("({} <? {})", l, r)),
                BinOp::Le(_) => Ok(format!("({} <=? {})", l, r)),
                BinOp::Gt(_) => Ok(format!("({} <? {})", r, l)),
                BinOp::Ge(_) => Ok(format!("({} <=? {})", r, l)),
                BinOp::Eq(_) => Ok(format!("({} =? {})", l, r)),
                BinOp::Ne(_) => Ok(format!("(negb ({} =? {}))", l, r)),
                _ => fail(e, "not a comparison"),
            }
        }
        Expr::Unary(u) if matches!(u.op, UnOp::Not(_)) => Ok(format!("(negb {})", cmp(&u.expr, env)?)),
        Expr::Lit(l) => match &l.lit {
            Lit::Bool(b) => Ok(if b.value { "true".into() } else { "false".into() }),
            _ => fail(e, "not a boolean"),
        },
        _ => fail(e, "condition outside the comparison subset"),
    }
}

pub struct MapEnv<'a> {
    pub vars: &'a BTreeMap<String, String>,
}
impl<'a> NumEnv for MapEnv<'a> {
    fn var(&self, name: &str) -> Option<String> {
        self.vars.get(name).cloned()
    }
}

pub fn has_attr_cfg(attrs: &[syn::Attribute], needle: &str) -> bool {
    attrs.iter().any(|a| a.path().is_ident("cfg") && a.to_token_stream().to_string().replace(' ', "").contains(needle))
}
pub fn cfg_text(attrs: &[syn::Attribute]) -> Vec<String> {
    attrs.iter().filter(|a| a.path().is_ident("cfg")).map(|a| a.to_token_stream().to_string().replace(' ', "")).collect()
}
