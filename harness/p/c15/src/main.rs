//! c15 — driver of property C15 ("every request gets an answer; invalid input is refused without effect").
//!
//! c15 --out DIR [--tier quick|thorough] [--replay FILE]        (VERIF_SEED seeds the generator)
//!
//! For each script (one real `kyrodb_server` process per script: euclidean and cosine, dim 4): send every
//! step, take the census of the id pool (BulkQuery with embeddings) after EVERY step, probe liveness
//! (Health RPC) after every refused step, restart the server in the middle and at the end and re-census.
//! Output: DIR/cases_<k>.v (requests as value classes + observations; Model/Requests.v decides inside coqc),
//! DIR/summary.json, DIR/all_cases.json.  Direct oracles (observations only) are evaluated here.
mod script;
use kvh::rng::Rng;
use kvh_srv::*;
use script::*;
use script::Meta;
use serde_json::{json, Value};
use std::collections::{BTreeMap, HashMap, HashSet};
use std::sync::atomic::{AtomicU64, Ordering};
use std::sync::Arc;

/// a stream within the limit whose messages all decode: some request has no answer (plain VIOLATION)
const ABORT_CLASS: &str = "C15-bulk-search-aborts-stream-on-invalid-item";
/// a stream the server ends with a call-level status (undecodable message / over the batch limit): answers of
/// requests accepted before that point are missing (classified through known_findings.json by the check)
const CALL_STATUS_CLASS: &str = "C15-bulk-search-call-status-drops-accepted-answers";
const STEP_TIMEOUT_MS: u64 = 60_000;

#[derive(Clone, Debug, PartialEq)]
enum Resp {
    Refused(String, String),
    Insert(bool, u64, u64),
    BulkLoad(bool, u64, u64),
    Query(bool),
    BulkQuery(Vec<bool>),
    Search(usize),
    /// items in order: None = Ok answer, Some(status class) = Ok item carrying a per-item failure
    Stream { sent: u64, items: Vec<Option<String>>, fin: Option<(String, String)> },
    Existed(bool),
    BatchDelete(u64),
    Flush,
    Restarted,
    RestartFailed(String),
}
type Census = Vec<(u64, Option<(Vec<u32>, Meta)>)>;

/// compact rendering for logs / replay files
fn show(r: &Resp) -> String {
    match r {
        Resp::Stream { sent, items, fin } => {
            let fails: Vec<String> = items.iter().enumerate().filter_map(|(i, x)| x.as_ref().map(|c| format!("#{}:{}", i, c))).take(12).collect();
            format!("Stream {{ sent: {}, items: {} ({} ok, per-item failures [{}]), fin: {:?} }}", sent, items.len(), items.iter().filter(|x| x.is_none()).count(), fails.join(", "), fin)
        }
        Resp::BulkQuery(v) if v.len() > 16 => format!("BulkQuery({} results, {} found)", v.len(), v.iter().filter(|b| **b).count()),
        other => format!("{:?}", other),
    }
}
fn status_name(e: &RpcErr) -> String {
    match e.code {
        Code::InvalidArgument => "InvalidArgument".into(),
        Code::Internal => "Internal".into(),
        Code::ResourceExhausted => "ResourceExhausted".into(),
        Code::Other(2) => "Unknown".into(),
        _ => "Transport".into(),
    }
}
fn refused(e: RpcErr) -> Resp {
    let mut m = e.message.clone();
    m.truncate(160);
    Resp::Refused(status_name(&e), m)
}
fn is_crash(s: &str) -> bool {
    !matches!(s, "InvalidArgument" | "Internal" | "ResourceExhausted")
}

fn to_pbf(f: &F) -> proto::MetadataFilter {
    match f {
        F::Empty => f_empty(),
        F::Exact(k, v) => f_exact(k, v),
        F::Range(k, None) => proto::MetadataFilter { filter_type: Some(proto::metadata_filter::FilterType::Range(proto::RangeMatch { key: k.clone(), bound: None })) },
        F::Range(k, Some(b)) => f_range(k, "gte", b),
        F::In(k, vs) => f_in(k, &vs.iter().map(|s| s.as_str()).collect::<Vec<_>>()),
        F::And(v) => f_and(v.iter().map(to_pbf).collect()),
        F::Or(v) => f_or(v.iter().map(to_pbf).collect()),
        F::Not(None) => proto::MetadataFilter { filter_type: Some(proto::metadata_filter::FilterType::NotFilter(Box::new(proto::NotFilter { filter: None }))) },
        F::Not(Some(g)) => f_not(to_pbf(g)),
    }
}
fn to_item(i: &It) -> Item {
    Item { doc_id: i.id, embedding: i.vec.expand(), metadata: i.meta.clone(), namespace: String::new() }
}
fn to_sreq(s: &Sq) -> SearchReq {
    let mut r = SearchReq::new(&s.q.expand(), s.k);
    r.ef_search = s.ef;
    r.namespace = s.ns.clone();
    r.filter = s.filter.as_ref().map(to_pbf);
    r
}

fn send(s: &mut Server, key: &str, op: &Op) -> Resp {
    let k = Some(key);
    match op {
        Op::Insert(i) => match s.insert_item(k, &to_item(i)) {
            Ok(r) => Resp::Insert(r.success, r.total_inserted, r.total_failed),
            Err(e) => refused(e),
        },
        Op::BulkInsert(v) => match s.bulk_insert(k, &rl_expand(v).iter().map(to_item).collect::<Vec<_>>()) {
            Ok(r) => Resp::Insert(r.success, r.total_inserted, r.total_failed),
            Err(e) => refused(e),
        },
        Op::BulkLoad(v) => match s.bulk_load_hnsw(k, &rl_expand(v).iter().map(to_item).collect::<Vec<_>>()) {
            Ok(r) => Resp::BulkLoad(r.success, r.total_loaded, r.total_failed),
            Err(e) => refused(e),
        },
        Op::Query(id) => match s.query(k, *id, false, "") {
            Ok(r) => Resp::Query(r.found),
            Err(e) => refused(e),
        },
        Op::BulkQuery(ids) => match s.bulk_query(k, &rl_expand(ids), false, "") {
            Ok(r) => Resp::BulkQuery(r.results.iter().map(|q| q.found).collect()),
            Err(e) => refused(e),
        },
        Op::Search(q) => {
            // a "burst" step sends the same request several times back to back (nothing in between that
            // could reset a failure counter); the answer judged is the last one
            let n = SEARCH_BURST.with(|b| b.replace(1)).max(1);
            let mut last = s.search(k, &to_sreq(q));
            for _ in 1..n {
                last = s.search(k, &to_sreq(q));
            }
            match last {
                Ok(r) => Resp::Search(r.hits.len()),
                Err(e) => refused(e),
            }
        }
        Op::BulkSearch(v) => {
            let reqs: Vec<SearchReq> = rl_expand(v).iter().map(to_sreq).collect();
            match s.bulk_search(k, &reqs) {
                Ok(items) => {
                    // since /repo b58b923 a refused request is an Ok item whose `error` is "<Code>: <message>"
                    let got: Vec<Option<String>> = items
                        .iter()
                        .filter_map(|x| x.as_ref().ok())
                        .map(|o| {
                            if o.error.is_empty() {
                                None
                            } else {
                                Some(match o.error.split(':').next().unwrap_or("") {
                                    "InvalidArgument" => "InvalidArgument".to_string(),
                                    "Internal" => "Internal".to_string(),
                                    "ResourceExhausted" => "ResourceExhausted".to_string(),
                                    _ => "Unknown".to_string(),
                                })
                            }
                        })
                        .collect();
                    let fin = items.iter().find_map(|x| x.as_ref().err()).map(|e| {
                        let mut m = e.message.clone();
                        m.truncate(160);
                        (status_name(e), m)
                    });
                    Resp::Stream { sent: reqs.len() as u64, items: got, fin }
                }
                Err(e) => refused(e),
            }
        }
        Op::Update(id, m, merge) => match s.update_metadata(k, *id, m, *merge, "") {
            Ok(r) => Resp::Existed(r.existed),
            Err(e) => refused(e),
        },
        Op::Delete(id) => match s.delete(k, *id, "") {
            Ok(r) => Resp::Existed(r.existed),
            Err(e) => refused(e),
        },
        Op::BatchDeleteIds(ids) => match s.batch_delete_ids(k, &rl_expand(ids), "") {
            Ok(r) => Resp::BatchDelete(r.deleted_count),
            Err(e) => refused(e),
        },
        Op::BatchDeleteFilter(f) => match s.batch_delete_filter(k, to_pbf(f), "") {
            Ok(r) => Resp::BatchDelete(r.deleted_count),
            Err(e) => refused(e),
        },
        Op::BatchDeleteNone => match s.batch_delete_none(k, "") {
            Ok(r) => Resp::BatchDelete(r.deleted_count),
            Err(e) => refused(e),
        },
        Op::Flush(force) => match s.flush_hot_tier(k, *force) {
            Ok(_) => Resp::Flush,
            Err(e) => refused(e),
        },
        Op::Restart => {
            let _ = s.stop_graceful();
            match s.restart() {
                Ok(()) => Resp::Restarted,
                Err(e) => Resp::RestartFailed(e),
            }
        }
    }
}

fn census(s: &Server, key: &str) -> Result<Census, String> {
    match s.bulk_query(Some(key), &POOL, true, "") {
        Ok(r) => Ok(r
            .results
            .iter()
            .map(|q| {
                (q.doc_id, if q.found {
                    let mut m = q.metadata.clone();
                    m.sort();
                    Some((q.embedding.clone(), m))
                } else {
                    None
                })
            })
            .collect()),
        Err(e) => Err(format!("{:?}: {}", e.code, e.message)),
    }
}

fn panic_lines(s: &Server) -> usize {
    let mut n = 0;
    for p in [s.log_path(), s.dir.join("stderr.log")] {
        if let Ok(t) = std::fs::read_to_string(p) {
            n += t.lines().filter(|l| l.contains("panicked")).count();
        }
    }
    n
}

struct Obs {
    resp: Resp,
    census: Option<Census>,
    census_err: Option<String>,
    health: Option<Result<i32, String>>,
    panics: usize,
    ms: u128,
    timed_out: bool,
    /// liveness probe after the step: an uncached (ef override) search for a live document's own vector;
    /// Ok(number of hits) / Err(status).  None when the census shows no live document.
    probe: Option<Result<usize, String>>,
}

thread_local! {
    static SEARCH_BURST: std::cell::Cell<u64> = const { std::cell::Cell::new(1) };
}

fn run_script(sc: &Script) -> Result<(Vec<Obs>, f64), String> {
    let mut o = ServerOpts::new("C15", &sc.name);
    // "aaa" sorts first and takes tenant index 0: the driven tenant "acme" has a NON-ZERO index, so that
    // the high word of its global ids is not all zeros (an id-range check that only holds for index 0 shows)
    o.tenants = vec![TenantSpec::new("aaa"), TenantSpec::new("acme")];
    o.dimension = sc.dim;
    o.distance = sc.metric.clone();
    let mut s = Server::start(o)?;
    let startup = s.startup.as_secs_f64();
    let key = s.key("acme");
    // watchdog: a step that does not return within the timeout gets the server killed (=> NoAnswer)
    let deadline = Arc::new(AtomicU64::new(0));
    let pid = Arc::new(AtomicU64::new(s.pid().unwrap_or(0) as u64));
    let fired = Arc::new(AtomicU64::new(0));
    let stop = Arc::new(AtomicU64::new(0));
    let t0 = std::time::Instant::now();
    let wd = {
        let (deadline, pid, fired, stop) = (deadline.clone(), pid.clone(), fired.clone(), stop.clone());
        std::thread::spawn(move || {
            while stop.load(Ordering::SeqCst) == 0 {
                std::thread::sleep(std::time::Duration::from_millis(100));
                let d = deadline.load(Ordering::SeqCst);
                if d != 0 && (t0.elapsed().as_millis() as u64) > d {
                    let p = pid.load(Ordering::SeqCst);
                    if p != 0 {
                        let _ = std::process::Command::new("kill").arg("-9").arg(p.to_string()).status();
                    }
                    fired.fetch_add(1, Ordering::SeqCst);
                    deadline.store(0, Ordering::SeqCst);
                }
            }
        })
    };
    let mut out = vec![];
    let mut panics_before = panic_lines(&s);
    for st in &sc.steps {
        let t = std::time::Instant::now();
        let f0 = fired.load(Ordering::SeqCst);
        deadline.store(t0.elapsed().as_millis() as u64 + STEP_TIMEOUT_MS, Ordering::SeqCst);
        SEARCH_BURST.with(|b| b.set(if st.label.1.ends_with("-burst") { 5 } else { 1 }));
        let resp = send(&mut s, &key, &st.op);
        deadline.store(0, Ordering::SeqCst);
        pid.store(s.pid().unwrap_or(0) as u64, Ordering::SeqCst);
        let timed_out = fired.load(Ordering::SeqCst) != f0;
        let ms = t.elapsed().as_millis();
        let is_refusal = matches!(resp, Resp::Refused(..)) || matches!(resp, Resp::Stream { fin: Some(_), .. });
        deadline.store(t0.elapsed().as_millis() as u64 + STEP_TIMEOUT_MS, Ordering::SeqCst);
        let health = if is_refusal { Some(s.health_rpc(Some(&key)).map_err(|e| format!("{:?}", e.code))) } else { None };
        let (cen, cen_err) = match census(&s, &key) {
            Ok(c) => (Some(c), None),
            Err(e) => (None, Some(e)),
        };
        let probe = cen.as_ref().and_then(|c| c.iter().find_map(|(_, d)| d.as_ref().map(|(bits, _)| bits.iter().map(|b| f32::from_bits(*b)).collect::<Vec<f32>>()))).map(|v| {
            let mut rq = SearchReq::new(&v, 10);
            rq.ef_search = 64; // an ef override bypasses the query cache: the tiers themselves must answer
            match s.search(Some(&key), &rq) {
                Ok(o) => Ok(o.hits.len()),
                Err(e) => Err(format!("{:?}: {}", e.code, e.message)),
            }
        });
        deadline.store(0, Ordering::SeqCst);
        let pl = panic_lines(&s);
        out.push(Obs { resp, census: cen, census_err: cen_err, health, panics: pl.saturating_sub(panics_before), ms, timed_out, probe });
        panics_before = pl;
        if !s.is_running() {
            // the process died: restart it so that the remaining steps still run (the oracle reports the death)
            let _ = s.restart();
            pid.store(s.pid().unwrap_or(0) as u64, Ordering::SeqCst);
        }
    }
    stop.store(1, Ordering::SeqCst);
    let _ = wd.join();
    s.kill();
    Ok((out, startup))
}

// ------------------------------------------------------------------------------------------ canonical forms
struct Canon {
    strings: HashMap<String, u64>,
    /// stored bits -> tag
    stored: HashMap<Vec<u32>, u64>,
    /// request bits -> tag
    tags: HashMap<Vec<(u32, u32)>, u64>,
    metric: String,
    dim: usize,
}
impl Canon {
    fn new(metric: &str, dim: usize) -> Self {
        Canon { strings: HashMap::new(), stored: HashMap::new(), tags: HashMap::new(), metric: metric.into(), dim }
    }
    fn s(&mut self, x: &str) -> u64 {
        let n = self.strings.len() as u64 + 1;
        *self.strings.entry(x.to_string()).or_insert(n)
    }
    fn s_known(&self, x: &str) -> u64 {
        self.strings.get(x).copied().unwrap_or(999_999)
    }
    /// what the engine stores for an accepted vector (cosine: normalised with the engine's f32 operations)
    fn stored_bits(&self, v: &[f32]) -> Vec<u32> {
        if self.metric == "euclidean" {
            return v.iter().map(|x| x.to_bits()).collect();
        }
        let mut norm_sq = 0.0f32;
        for x in v {
            norm_sq += x * x;
        }
        if (0.98..=1.02).contains(&norm_sq) || !(norm_sq > f32::EPSILON) {
            return v.iter().map(|x| x.to_bits()).collect();
        }
        let inv = 1.0 / norm_sq.sqrt();
        v.iter().map(|x| (x * inv).to_bits()).collect()
    }
    fn tag(&mut self, v: &Vecr) -> u64 {
        if v.len() != self.dim {
            return 0;
        }
        if let Some(t) = self.tags.get(&v.0) {
            return *t;
        }
        let sb = self.stored_bits(&v.expand());
        let t = match self.stored.get(&sb) {
            Some(t) => *t,
            None => {
                let t = self.stored.len() as u64 + 1;
                self.stored.insert(sb, t);
                t
            }
        };
        self.tags.insert(v.0.clone(), t);
        t
    }
    fn meta(&mut self, m: &Meta) -> String {
        let mut v: Vec<(u64, u64)> = m.iter().map(|(k, x)| (self.s(k), self.s(x))).collect();
        v.sort();
        format!("[{}]", v.iter().map(|(a, b)| format!("({}, {})", a, b)).collect::<Vec<_>>().join("; "))
    }
    fn meta_obs(&self, m: &Meta) -> String {
        let mut v: Vec<(u64, u64)> = m.iter().map(|(k, x)| (self.s_known(k), self.s_known(x))).collect();
        v.sort();
        format!("[{}]", v.iter().map(|(a, b)| format!("({}, {})", a, b)).collect::<Vec<_>>().join("; "))
    }
    fn filter(&mut self, f: &F) -> String {
        // chains are printed iteratively
        let mut cur = f;
        let mut open = String::new();
        let mut close = String::new();
        loop {
            match cur {
                F::Not(Some(g)) => {
                    open.push_str("PNot (Some (");
                    close.push_str("))");
                    cur = g;
                }
                F::And(v) if v.len() == 1 => {
                    open.push_str("PAnd [");
                    close.push(']');
                    cur = &v[0];
                }
                F::Or(v) if v.len() == 1 => {
                    open.push_str("POr [");
                    close.push(']');
                    cur = &v[0];
                }
                _ => break,
            }
        }
        let core = match cur {
            F::Empty => "PNone".to_string(),
            F::Exact(k, v) => format!("PExact {} {}", self.s(k), self.s(v)),
            F::Range(k, b) => format!("PRange {} {}", self.s(k), if b.is_some() { "true" } else { "false" }),
            F::In(k, vs) => {
                let k = self.s(k);
                format!("PIn {} [{}]", k, vs.iter().map(|x| self.s(x).to_string()).collect::<Vec<_>>().join("; "))
            }
            F::And(v) => format!("PAnd [{}]", v.iter().map(|g| self.filter(g)).collect::<Vec<_>>().join("; ")),
            F::Or(v) => format!("POr [{}]", v.iter().map(|g| self.filter(g)).collect::<Vec<_>>().join("; ")),
            F::Not(None) => "PNot None".to_string(),
            F::Not(Some(_)) => unreachable!(),
        };
        format!("{}{}{}", open, core, close)
    }
    fn item(&mut self, i: &It) -> String {
        let t = self.tag(&i.vec);
        format!("(mkItem {} (mkVec {} {}) {})", i.id, t, cls_gallina(&i.vec), self.meta(&i.meta))
    }
    fn sreq(&mut self, s: &Sq) -> String {
        let ns = format!("[{}]", s.ns.bytes().map(|b| b.to_string()).collect::<Vec<_>>().join("; "));
        let f = match &s.filter {
            None => "None".to_string(),
            Some(f) => format!("(Some ({}))", self.filter(f)),
        };
        format!("(mkSreq {} {} {} {} {})", cls_gallina(&s.q), s.k, s.ef, ns, f)
    }
    fn rl<T, G: FnMut(&mut Self, &T) -> String>(&mut self, r: &Rl<T>, mut g: G) -> String {
        if r.is_empty() {
            return "[]".into();
        }
        let parts: Vec<String> = r
            .iter()
            .map(|(x, n)| {
                let t = g(self, x);
                if *n <= 3 {
                    format!("[{}]", vec![t; *n as usize].join("; "))
                } else {
                    format!("nrepeat {} {}", t, n)
                }
            })
            .collect();
        format!("({})", parts.join(" ++ "))
    }
    fn op(&mut self, op: &Op) -> String {
        match op {
            Op::Insert(i) => format!("OReq (RInsert {})", self.item(i)),
            Op::BulkInsert(v) => format!("OReq (RBulkInsert {})", self.rl(v, |c, x| c.item(x))),
            Op::BulkLoad(v) => format!("OReq (RBulkLoad {})", self.rl(v, |c, x| c.item(x))),
            Op::Query(id) => format!("OReq (RQuery {})", id),
            Op::BulkQuery(v) => format!("OReq (RBulkQuery {})", self.rl(v, |_, x| x.to_string())),
            Op::Search(s) => format!("OReq (RSearch {})", self.sreq(s)),
            Op::BulkSearch(v) => format!("OReq (RBulkSearch {})", self.rl(v, |c, x| c.sreq(x))),
            Op::Update(id, m, merge) => format!("OReq (RUpdateMeta {} {} {})", id, self.meta(m), merge),
            Op::Delete(id) => format!("OReq (RDelete {})", id),
            Op::BatchDeleteIds(v) => format!("OReq (RBatchDeleteIds {})", self.rl(v, |_, x| x.to_string())),
            Op::BatchDeleteFilter(f) => format!("OReq (RBatchDeleteFilter ({}))", self.filter(f)),
            Op::BatchDeleteNone => "OReq RBatchDeleteNone".into(),
            Op::Flush(f) => format!("OReq (RFlush {})", f),
            Op::Restart => "ORestart".into(),
        }
    }
    fn resp(&self, r: &Resp, timed_out: bool) -> String {
        let st = |s: &str| if timed_out { "NoAnswer".to_string() } else { s.to_string() };
        match r {
            Resp::Refused(s, _) => format!("ObsResp (Refused {})", st(s)),
            Resp::Insert(a, b, c) => format!("ObsResp (OkInsert {} {} {})", a, b, c),
            Resp::BulkLoad(a, b, c) => format!("ObsResp (OkBulkLoad {} {} {})", a, b, c),
            Resp::Query(f) => format!("ObsResp (OkQuery {})", f),
            Resp::BulkQuery(v) => {
                // run-length
                let mut parts: Vec<(bool, usize)> = vec![];
                for b in v {
                    match parts.last_mut() {
                        Some((x, n)) if x == b => *n += 1,
                        _ => parts.push((*b, 1)),
                    }
                }
                if parts.is_empty() {
                    "ObsResp (OkBulkQuery [])".into()
                } else {
                    format!("ObsResp (OkBulkQuery ({}))", parts.iter().map(|(b, n)| format!("nrepeat {} {}", b, n)).collect::<Vec<_>>().join(" ++ "))
                }
            }
            Resp::Search(_) => "ObsResp OkSearch".into(),
            Resp::Stream { items, fin, .. } => {
                let mut parts: Vec<(String, usize)> = vec![];
                for it in items {
                    let t = match it {
                        None => "SOk".to_string(),
                        Some(c) => format!("(SErr {})", c),
                    };
                    match parts.last_mut() {
                        Some((x, n)) if *x == t => *n += 1,
                        _ => parts.push((t, 1)),
                    }
                }
                let l = if parts.is_empty() { "[]".to_string() } else { format!("({})", parts.iter().map(|(t, n)| format!("nrepeat {} {}", t, n)).collect::<Vec<_>>().join(" ++ ")) };
                format!("ObsStream {} {}", l, match fin {
                    None => "None".to_string(),
                    Some((s, _)) => format!("(Some {})", st(s)),
                })
            }
            Resp::Existed(b) => format!("ObsResp (OkExisted {})", b),
            Resp::BatchDelete(n) => format!("ObsResp (OkBatchDelete {})", n),
            Resp::Flush | Resp::Restarted => "ObsResp OkFlush".into(),
            Resp::RestartFailed(_) => "ObsResp (Refused NoAnswer)".into(),
        }
    }
    fn census(&self, c: &Option<Census>) -> String {
        match c {
            None => "[]".into(),
            Some(c) => format!(
                "[{}]",
                c.iter()
                    .map(|(id, d)| match d {
                        None => format!("({}, None)", id),
                        Some((bits, m)) => format!("({}, Some (mkDoc {} {}))", id, self.stored.get(bits).copied().unwrap_or(999_999), self.meta_obs(m)),
                    })
                    .collect::<Vec<_>>()
                    .join("; ")
            ),
        }
    }
}

fn read_limits() -> (Limits, u64, Value) {
    let src = std::fs::read_to_string("/repo/engine/src/bin/kyrodb_server.rs").unwrap_or_default();
    let grab = |name: &str, dflt: u64| -> (u64, bool) {
        for l in src.lines() {
            let t = l.trim();
            if t.starts_with(&format!("const {}:", name)) {
                if let Some(v) = t.split('=').nth(1) {
                    let digits: String = v.chars().filter(|c| c.is_ascii_digit()).collect();
                    if let Ok(n) = digits.parse::<u64>() {
                        return (n, true);
                    }
                }
            }
        }
        (dflt, false)
    };
    let (mb, f1) = grab("MAX_BATCH_SIZE", 10000);
    let (mt, f2) = grab("MAX_TOTAL_BULK_LOAD_DOCUMENTS", 10_000_000);
    // prost's RECURSION_LIMIT (the version pinned by /repo/Cargo.lock)
    let mut depth = 100u64;
    let mut f3 = false;
    let lock = std::fs::read_to_string("/repo/Cargo.lock").unwrap_or_default();
    let mut ver = String::new();
    let ls: Vec<&str> = lock.lines().collect();
    for i in 0..ls.len() {
        if ls[i].trim() == "name = \"prost\"" && i + 1 < ls.len() {
            ver = ls[i + 1].trim().trim_start_matches("version = ").trim_matches('"').to_string();
        }
    }
    let home = std::env::var("HOME").unwrap_or("/root".into());
    if let Ok(rd) = std::fs::read_dir(format!("{}/.cargo/registry/src", home)) {
        for e in rd.filter_map(|e| e.ok()) {
            let p = e.path().join(format!("prost-{}/src/lib.rs", ver));
            if let Ok(t) = std::fs::read_to_string(&p) {
                for l in t.lines() {
                    if l.trim().starts_with("const RECURSION_LIMIT") {
                        let digits: String = l.split('=').nth(1).unwrap_or("").chars().filter(|c| c.is_ascii_digit()).collect();
                        if let Ok(n) = digits.parse::<u64>() {
                            depth = n;
                            f3 = true;
                        }
                    }
                }
            }
        }
    }
    (Limits { max_batch: mb, decode_depth: depth }, mt, json!({"MAX_BATCH_SIZE": mb, "MAX_TOTAL_BULK_LOAD_DOCUMENTS": mt, "prost_RECURSION_LIMIT": depth, "prost_version": ver, "read_from_source": [f1, f2, f3]}))
}

/// protobuf message nesting of a filter as sent (mirrors Model/Requests.v pdepth; chains iteratively)
fn fdepth(f: &F) -> u64 {
    let mut cur = f;
    let mut d = 0u64;
    loop {
        match cur {
            F::Not(Some(g)) => {
                d += 2;
                cur = g;
            }
            F::And(v) | F::Or(v) if v.len() == 1 => {
                d += 2;
                cur = &v[0];
            }
            _ => break,
        }
    }
    d + match cur {
        F::Empty => 1,
        F::Exact(..) | F::Range(..) | F::In(..) | F::Not(None) => 2,
        F::And(v) | F::Or(v) => 2 + v.iter().map(fdepth).max().unwrap_or(0),
        F::Not(Some(_)) => unreachable!(),
    }
}
fn nonfinite(v: &Vecr) -> bool {
    v.0.iter().any(|(b, _)| !f32::from_bits(*b).is_finite())
}

struct Judged {
    failures: Vec<Value>,
    known: Vec<Value>,
    internal: BTreeMap<String, u64>,
    refusals: u64,
    item_failures: u64,
}

/// the direct oracles, over observations only
/// The property's own reading of "invalid" (independent of the Coq model): which requests MUST be refused.
fn spec_invalid_vec(v: &Vecr, dim: usize) -> bool {
    v.len() == 0 || v.len() > 4096 || v.len() != dim || nonfinite(v)
}
fn spec_invalid_id(id: u64) -> bool {
    id == 0 || id > U32MAX
}
fn spec_invalid_sq(q: &Sq, dim: usize) -> bool {
    spec_invalid_vec(&q.q, dim) || q.k == 0 || q.k > 1000 || q.ef > 10000
}
/// Some(description) when the answer ACCEPTS something the property says must be refused
fn accepted_but_invalid(op: &Op, resp: &Resp, dim: usize, max_batch: u64) -> Option<String> {
    let refused = matches!(resp, Resp::Refused(..));
    match op {
        Op::Insert(i) if (spec_invalid_id(i.id) || spec_invalid_vec(&i.vec, dim)) && !refused => Some("Insert of an invalid id / vector was accepted".into()),
        Op::Search(q) if spec_invalid_sq(q, dim) && !refused => Some("Search with an invalid vector / k / ef was accepted".into()),
        Op::Query(id) | Op::Delete(id) | Op::Update(id, ..) if spec_invalid_id(*id) && !refused => Some("a call on doc_id 0 / beyond the tenant-local range was accepted".into()),
        Op::BulkQuery(v) | Op::BatchDeleteIds(v) if (rl_len(v) as u64 > max_batch || v.iter().any(|(id, _)| *id > U32MAX)) && !refused => {
            Some("an oversized id batch / an id beyond the tenant-local range was accepted".into())
        }
        Op::BatchDeleteNone if !refused => Some("BatchDelete without criteria was accepted".into()),
        Op::BulkInsert(v) | Op::BulkLoad(v) => {
            let total = rl_len(v) as u64;
            let mut invalid: u64 = v.iter().filter(|(i, _)| spec_invalid_id(i.id) || spec_invalid_vec(&i.vec, dim)).map(|(_, n)| *n as u64).sum();
            if matches!(op, Op::BulkInsert(_)) && total > max_batch {
                // everything from item max_batch+1 on must not be stored
                let mut seen = 0u64;
                invalid = 0;
                for (i, n) in v {
                    for _ in 0..*n {
                        seen += 1;
                        if seen > max_batch || spec_invalid_id(i.id) || spec_invalid_vec(&i.vec, dim) {
                            invalid += 1;
                        }
                    }
                }
            }
            match resp {
                Resp::Insert(_, ins, _) | Resp::BulkLoad(_, ins, _) if *ins + invalid > total => Some(format!("{} items stored although {} of {} are invalid", ins, invalid, total)),
                _ => None,
            }
        }
        Op::BulkSearch(v) => match resp {
            // every invalid request that was answered must have been answered with a per-item failure
            Resp::Stream { items, .. } => {
                let reqs = rl_expand(v);
                let n = reqs.iter().zip(items.iter()).filter(|(q, it)| spec_invalid_sq(q, dim) && it.is_none()).count();
                if n > 0 {
                    Some(format!("{} invalid BulkSearch request(s) were answered with results instead of a per-item failure", n))
                } else {
                    None
                }
            }
            _ => None,
        },
        _ => None,
    }
}

fn judge(sc: &Script, obs: &[Obs], max_batch: u64, decode_depth: u64) -> Judged {
    let mut j = Judged { failures: vec![], known: vec![], internal: BTreeMap::new(), refusals: 0, item_failures: 0 };
    let mut prev: Option<Census> = Some(POOL.iter().map(|id| (*id, None)).collect());
    for (i, (st, o)) in sc.steps.iter().zip(obs.iter()).enumerate() {
        let mut fail = |why: String| {
            j.failures.push(json!({"script": sc.name, "step": i, "label": [st.label.0, st.label.1, st.label.2], "why": why, "response": show(&o.resp)}));
        };
        // O1 an answer, in time, not a crash class
        if o.timed_out {
            fail(format!("no answer within {} ms (server killed by the watchdog)", STEP_TIMEOUT_MS));
        }
        let (status, msg): (Option<String>, String) = match &o.resp {
            Resp::Refused(s, m) => (Some(s.clone()), m.clone()),
            Resp::Stream { fin: Some((s, m)), .. } => (Some(s.clone()), m.clone()),
            Resp::RestartFailed(e) => {
                fail(format!("the server did not come back after a restart: {}", e));
                (None, String::new())
            }
            _ => (None, String::new()),
        };
        if let Some(s) = &status {
            j.refusals += 1;
            if is_crash(s) {
                fail(format!("answered with crash-class status {} ({})", s, msg));
            }
            if s == "Internal" {
                let cls = if msg.contains("internal server panic") {
                    "contained-panic"
                } else if msg.starts_with("Insert failed") {
                    "engine-refusal(insert)"
                } else if msg.starts_with("Search failed") {
                    "engine-refusal(search)"
                } else if msg.contains("failed to decode") || msg.contains("stream error") {
                    "codec(recursion limit)"
                } else {
                    "other"
                };
                *j.internal.entry(cls.to_string()).or_default() += 1;
                if cls == "contained-panic" || cls == "other" {
                    fail(format!("INTERNAL that is neither an engine refusal nor a decode failure: {} ({})", cls, msg));
                }
            }
        }
        if let Some(why) = accepted_but_invalid(&st.op, &o.resp, sc.dim, max_batch) {
            fail(format!("accepted-but-invalid: {}", why));
        }
        if o.panics > 0 {
            fail(format!("{} panic line(s) appeared in the server log during this step", o.panics));
        }
        // O1b the server keeps SERVING: a valid, uncached search for a live document's own vector finds something
        match &o.probe {
            Some(Ok(0)) => fail("after this request a valid search (ef override, k=10) for a live document's own vector returns no hits: the server no longer serves searches".to_string()),
            Some(Err(e)) => fail(format!("after this request a valid search (ef override, k=10) for a live document's own vector is refused: {}", e)),
            _ => {}
        }
        match &o.resp {
            Resp::Insert(_, _, f) | Resp::BulkLoad(_, _, f) if *f > 0 => j.item_failures += 1,
            _ => {}
        }
        // O2 every request of a BulkSearch stream gets an answer
        if let (Resp::Stream { sent, items, fin }, Op::BulkSearch(v)) = (&o.resp, &st.op) {
            let answers = items.len() as u64 + if fin.is_some() { 1 } else { 0 };
            let undecodable = v.iter().any(|(q, _)| q.filter.as_ref().map(|f| fdepth(f) > decode_depth).unwrap_or(false));
            let server_ends_it = *sent > max_batch || undecodable;
            if !server_ends_it {
                // within the limit, every message decodes: one answer per request, no terminating status
                if answers < *sent || fin.is_some() || items.len() as u64 != *sent {
                    j.known.push(json!({"class": ABORT_CLASS, "script": sc.name, "step": i, "label": [st.label.0, st.label.1, st.label.2],
                        "requests_sent": sent, "items_received": items.len(), "terminating_status": fin.as_ref().map(|x| x.0.clone()),
                        "unanswered": sent.saturating_sub(answers), "case": script_json(&minimal_for(sc, i))}));
                }
            } else {
                match fin {
                    Some((s, _)) if !is_crash(s) => {
                        // requests read before the terminating event: all but the undecodable message / the over-limit one
                        let accepted = if undecodable { let mut n = 0u64; for q in rl_expand(v) { if q.filter.as_ref().map(|f| fdepth(f) > decode_depth).unwrap_or(false) { break; } n += 1; } n.min(max_batch) } else { max_batch };
                        if (items.len() as u64) < accepted {
                            j.known.push(json!({"class": CALL_STATUS_CLASS, "script": sc.name, "step": i, "label": [st.label.0, st.label.1, st.label.2],
                                "requests_sent": sent, "items_received": items.len(), "accepted_before_the_status": accepted, "terminating_status": s,
                                "unanswered": accepted - items.len() as u64, "case": script_json(&minimal_for(sc, i))}));
                        }
                    }
                    _ => fail(format!("BulkSearch: the server had to end this stream with a status ({} requests, undecodable message: {}) but the observed end is {:?}", sent, undecodable, fin)),
                }
            }
        }
        // O4 liveness after a refusal
        if let Some(h) = &o.health {
            if h.is_err() {
                fail(format!("Health RPC after the refused request failed: {:?}", h));
            }
        }
        let cen = match &o.census {
            Some(c) => c,
            None => {
                fail(format!("follow-up census (BulkQuery) failed: {}", o.census_err.clone().unwrap_or_default()));
                prev = None;
                continue;
            }
        };
        // O3c a non-finite vector is never stored
        for (id, d) in cen {
            if let Some((bits, _)) = d {
                if bits.iter().any(|b| !f32::from_bits(*b).is_finite()) {
                    fail(format!("document {} holds a non-finite vector", id));
                }
            }
        }
        if let Some(p) = &prev {
            // O3a/O5 a refused call, a call whose items all failed, and a restart leave the census unchanged
            let unchanged_required = match &o.resp {
                Resp::Refused(..) | Resp::Restarted => true,
                Resp::Stream { .. } | Resp::Query(_) | Resp::BulkQuery(_) | Resp::Search(_) | Resp::Flush => true,
                Resp::Insert(_, 0, _) | Resp::BulkLoad(_, 0, _) => true,
                _ => false,
            };
            if unchanged_required && p != cen {
                fail(format!("census changed by a request that was refused / stored nothing / only read: before {:?} after {:?}", short(p), short(cen)));
            }
            // O3d per item: the id of a non-finite item keeps its document unless a finite item of the same stream writes it
            if let Op::BulkInsert(v) | Op::BulkLoad(v) = &st.op {
                let finite_ids: HashSet<u64> = v.iter().filter(|(it, _)| !nonfinite(&it.vec)).map(|(it, _)| it.id).collect();
                for (it, _) in v.iter().filter(|(it, _)| nonfinite(&it.vec)) {
                    if finite_ids.contains(&it.id) {
                        continue;
                    }
                    let a = p.iter().find(|(id, _)| *id == it.id);
                    let b = cen.iter().find(|(id, _)| *id == it.id);
                    if a != b {
                        fail(format!("stream item with a non-finite vector changed document {}", it.id));
                    }
                }
            }
        }
        prev = Some(cen.clone());
    }
    j
}
fn short(c: &Census) -> Vec<(u64, Option<Vec<f32>>)> {
    c.iter().map(|(id, d)| (*id, d.as_ref().map(|(b, _)| b.iter().map(|x| f32::from_bits(*x)).collect()))).collect()
}
/// smallest standalone script around step i: one seeding insert, then the step
fn minimal_for(sc: &Script, i: usize) -> Script {
    let mut g = vec![0.0f32; sc.dim];
    g[0] = 1.0;
    Script {
        name: format!("{}-min", sc.name),
        metric: sc.metric.clone(),
        dim: sc.dim,
        steps: vec![
            Step { op: Op::Insert(It { id: 1, vec: Vecr::of(&g), meta: vec![] }), label: ("Insert".into(), "seed".into(), "valid".into()) },
            sc.steps[i].clone(),
        ],
    }
}

fn cases_text(sc: &Script, obs: &[Obs], lim: &Limits, max_total: u64) -> String {
    let mut c = Canon::new(&sc.metric, sc.dim);
    // first pass registers every request vector / string so that observations resolve against the full tables
    let ops: Vec<String> = sc.steps.iter().map(|st| c.op(&st.op)).collect();
    let mut parts = vec![];
    for ((_st, o), optext) in sc.steps.iter().zip(obs.iter()).zip(ops.iter()) {
        parts.push(format!("({}, {}, {})", optext, c.resp(&o.resp, o.timed_out), c.census(&o.census)));
    }
    format!(
        "From Coq Require Import List NArith Bool.\nFrom Kyro Require Import Model.ReqBase gen.Validators_gen Model.Requests.\nImport ListNotations.\nOpen Scope N_scope.\n\
         (* script {} *)\nDefinition cfg : config := mkCfg {} {} {} {} {}.\nDefinition pool : list N := [{}].\n\
         Definition steps : list (op * obs_resp * list (N * option doc)) := [\n  {}\n].\n\
         Definition bad : list N := check_script cfg pool steps.\n\
         Goal True. idtac \"@@bad\". Abort.\nEval vm_compute in bad.\nGoal True. idtac \"@@count\". Abort.\nEval vm_compute in (len steps).\n\
         Goal True. idtac \"@@explain\". Abort.\nEval vm_compute in (firstn 3 (explain_from cfg pool [] 0 steps)).\nGoal True. idtac \"@@end\". Abort.\n",
        sc.name,
        sc.dim,
        if sc.metric == "euclidean" { "Euclid" } else { "Cosine" },
        lim.max_batch,
        max_total,
        lim.decode_depth,
        POOL.iter().map(|x| x.to_string()).collect::<Vec<_>>().join("; "),
        parts.join(";\n  ")
    )
}

fn main() {
    let args: Vec<String> = std::env::args().collect();
    let mut out = String::from("/verif/.cache/run/C15/out");
    let mut tier = String::from("quick");
    let mut replay: Option<String> = None;
    let mut i = 1;
    while i < args.len() {
        match args[i].as_str() {
            "--out" => {
                out = args[i + 1].clone();
                i += 1
            }
            "--tier" => {
                tier = args[i + 1].clone();
                i += 1
            }
            "--replay" => {
                replay = Some(args[i + 1].clone());
                i += 1
            }
            "--n" => i += 1,
            _ => {}
        }
        i += 1;
    }
    std::fs::create_dir_all(&out).unwrap();
    let (lim, max_total, limits_json) = read_limits();
    let thorough = tier == "thorough";
    let mut scripts: Vec<Script> = vec![];
    if let Some(p) = &replay {
        let v: Value = serde_json::from_str(&std::fs::read_to_string(p).unwrap()).unwrap();
        let cv = if v.get("case").is_some() { v["case"].clone() } else { v.clone() };
        let mut sc = script_from(&cv);
        sc.name = "replay".into();
        scripts.push(sc);
    } else {
        if let Ok(rd) = std::fs::read_dir("/verif/corpus/C15") {
            let mut ps: Vec<_> = rd.filter_map(|e| e.ok()).map(|e| e.path()).collect();
            ps.sort();
            for (n, p) in ps.iter().enumerate() {
                if let Ok(s) = std::fs::read_to_string(p) {
                    if let Ok(v) = serde_json::from_str::<Value>(&s) {
                        let cv = if v.get("case").is_some() { v["case"].clone() } else { v.clone() };
                        let mut sc = script_from(&cv);
                        sc.name = format!("corpus{}", n);
                        scripts.push(sc);
                    }
                }
            }
        }
        let mut rng = Rng::from_env();
        let rounds = if thorough { 4 } else { 1 };
        for k in 0..rounds {
            // every metric the server supports (config.rs DistanceMetric), one server process each
            for (m, (nm, metric)) in [("euclid", "euclidean"), ("cosine", "cosine"), ("innerprod", "innerproduct")].iter().enumerate() {
                let mut rr = rng.fork(3 * k + m as u64);
                scripts.push(gen_script(&mut rr, &format!("{}{}", nm, k), metric, 4, &lim, thorough));
            }
        }
    }
    let t0 = std::time::Instant::now();
    let scripts = Arc::new(scripts);
    let mut handles = vec![];
    for k in 0..scripts.len() {
        let scripts = scripts.clone();
        handles.push(std::thread::Builder::new().stack_size(64 << 20).spawn(move || (k, run_script(&scripts[k]))).unwrap());
    }
    let mut results: Vec<(usize, Result<(Vec<Obs>, f64), String>)> = handles.into_iter().map(|h| h.join().unwrap()).collect();
    results.sort_by_key(|x| x.0);

    let mut failures: Vec<Value> = vec![];
    let mut known: Vec<Value> = vec![];
    let mut run_errors: Vec<Value> = vec![];
    let mut hist_ops: BTreeMap<String, u64> = BTreeMap::new();
    let mut hist_resp: BTreeMap<String, u64> = BTreeMap::new();
    let mut internal: BTreeMap<String, u64> = BTreeMap::new();
    let mut distinct: HashSet<String> = HashSet::new();
    let mut nontrivial: HashSet<String> = HashSet::new();
    let (mut requests, mut rpcs, mut refusals, mut item_failures, mut restarts) = (0u64, 0u64, 0u64, 0u64, 0u64);
    let mut all = vec![];
    let mut shards = 0usize;
    let mut startup = 0.0;
    let mut samples = vec![];
    let mut slowest: (u128, String) = (0, String::new());
    for (k, r) in results {
        let sc = &scripts[k];
        let (obs, st) = match r {
            Ok(x) => x,
            Err(e) => {
                run_errors.push(json!({"script": sc.name, "error": e}));
                continue;
            }
        };
        startup += st;
        let j = judge(sc, &obs, lim.max_batch, lim.decode_depth);
        failures.extend(j.failures);
        known.extend(j.known);
        for (a, b) in j.internal {
            *internal.entry(a).or_default() += b;
        }
        refusals += j.refusals;
        item_failures += j.item_failures;
        for (stp, o) in sc.steps.iter().zip(obs.iter()) {
            *hist_ops.entry(opname(&stp.op).to_string()).or_default() += 1;
            let cls = match &o.resp {
                Resp::Refused(s, _) => format!("refused:{}", s),
                Resp::Insert(_, _, f) | Resp::BulkLoad(_, _, f) if *f > 0 => "ok-with-per-item-failures".into(),
                Resp::Stream { fin: Some((s, _)), .. } => format!("stream-ended:{}", s),
                Resp::Restarted => "restarted".into(),
                Resp::RestartFailed(_) => "restart-failed".into(),
                _ => "ok".into(),
            };
            let interesting = cls != "ok" && cls != "restarted";
            *hist_resp.entry(cls.clone()).or_default() += 1;
            if matches!(stp.op, Op::Restart) {
                restarts += 1;
            } else {
                requests += 1;
            }
            rpcs += 2 + if o.health.is_some() { 1 } else { 0 };
            let key = format!("{}|{}|{}|{}|{}", sc.metric, stp.label.0, stp.label.1, stp.label.2, cls);
            if distinct.insert(key.clone()) && interesting {
                nontrivial.insert(key);
            }
            if o.ms > slowest.0 {
                slowest = (o.ms, format!("{} {:?}", sc.name, stp.label));
            }
        }
        std::fs::write(format!("{}/cases_{}.v", out, shards), cases_text(sc, &obs, &lim, max_total)).unwrap();
        shards += 1;
        if samples.len() < 2 {
            samples.push(json!({"script": sc.name, "first_steps": sc.steps.iter().zip(obs.iter()).skip(4).take(4).map(|(s, o)| json!({"label": [s.label.0, s.label.1, s.label.2], "response": show(&o.resp)})).collect::<Vec<_>>()}));
        }
        all.push(json!({"name": sc.name, "case": script_json(sc), "observations": obs.iter().map(|o| show(&o.resp)).collect::<Vec<_>>()}));
    }
    // confirm the first known-class hit on a fresh server with its minimal script
    known.sort_by_key(|k| k["class"] != ABORT_CLASS);
    let mut confirmed = Value::Null;
    if let Some(h) = known.first() {
        let mut m = script_from(&h["case"]);
        m.name = "confirm".into();
        match run_script(&m) {
            Ok((obs, _)) => {
                let j = judge(&m, &obs, lim.max_batch, lim.decode_depth);
                confirmed = json!({"class": h["class"], "reproduced": j.known.iter().any(|k| k["class"] == h["class"]), "observations": obs.iter().map(|o| show(&o.resp)).collect::<Vec<_>>()});
            }
            Err(e) => confirmed = json!({"reproduced": false, "error": e}),
        }
    }
    let n_ok = all.len();
    let summary = json!({
        "scripts": scripts.len(), "scripts_run": n_ok, "shards": shards, "requests": requests, "restarts": restarts, "rpcs": rpcs,
        "refused_calls": refusals, "calls_with_per_item_failures": item_failures,
        "oracle_failures": failures, "known_class_hits": known, "known_class_confirmation": confirmed, "run_errors": run_errors,
        "distinct": distinct.len(), "nontrivial": nontrivial.len(),
        "histogram": {"ops": hist_ops, "responses": hist_resp, "internal_answers": internal},
        "limits": limits_json, "samples": samples, "slowest_step_ms": [slowest.0 as u64, slowest.1],
        "avg_server_startup_s": if n_ok > 0 { startup / n_ok as f64 } else { 0.0 }, "wall_s": t0.elapsed().as_secs_f64(),
    });
    std::fs::write(format!("{}/summary.json", out), serde_json::to_string_pretty(&summary).unwrap()).unwrap();
    std::fs::write(format!("{}/all_cases.json", out), serde_json::to_string(&all).unwrap()).unwrap();
    println!(
        "c15: {} scripts, {} requests ({} RPCs, {} restarts) in {:.1}s; refused {}; per-item failures {}; oracle failures {}; known-class hits {}; run errors {}",
        n_ok,
        requests,
        rpcs,
        restarts,
        t0.elapsed().as_secs_f64(),
        refusals,
        item_failures,
        summary["oracle_failures"].as_array().unwrap().len(),
        summary["known_class_hits"].as_array().unwrap().len(),
        summary["run_errors"].as_array().unwrap().len()
    );
}
